(* Props/C10.v — property C10: the built-in lattice generators produce the tilings they are named after;
   tile_unit_cell yields exactly nx*ny translated copies with correct crossings and the tiled colouring.

   Models: Model/Tiling.v (tile_unit_cell) and Model/Examples.v (generators), both defined over the scalar
   helpers GENERATED from example_graphs.py on every run (Gen/TilingGen.v: py_next_cell_number, py_crossing,
   honeycomb_next_direction, hso_next_direction); polygon census through Model/Lattice.v's plaquette finder.

   NOT covered by a theorem (S/K only, harness/c10.py): the float values of the positions (cos/sin/sqrt/
   linspace; compared to 1e-12); single_plaquette / higher_coordination_number_example / wobbling ladder
   census (their positions come from cos/sin: checked on the implementation for n = 3..40 / 3..30);
   polygon census of tilings of RANDOM unit cells (checked on the implementation; C10_tile_plaquettes_all_sizes
   reduces it, for all nx, ny, to a certificate of the cell that would have to be computed per cell).
   The census, the areas, Euler's relation and two-sidedness of the four named tilings are proved for ALL sizes
   >= 2 (C10_*_polygons_all_sizes, C10_areas_all_sizes; bottom of this file); C10_polygons_bounded (vm_compute
   for the quantifier's ranges) is kept as an independent computation of the same facts. *)
From Coq Require Import List ZArith Bool Arith.
From Koala Require Import Gen.TilingGen Model.Lattice Model.Tiling Model.Examples
     Proofs.TilingFacts Proofs.TilingCount Proofs.ExamplesFacts Proofs.ExamplesIndex
     Proofs.ExamplesCensus Proofs.ExamplesClaims
     Proofs.LatticeFacts Proofs.WindingConvex Proofs.PeriodicRot Proofs.PeriodicFaces Proofs.PeriodicTile
     Proofs.PeriodicExamples Proofs.PeriodicBlock Proofs.PeriodicGenerators Proofs.TileDegree
     Gen.FixturesGen Proofs.FixturesFacts Proofs.PeriodicClosed.
Import ListNotations.
Open Scope Z_scope.

(* ===== Clause "tiling a unit cell nx x ny yields exactly nx*ny translated copies of its vertices and edges
   with correct crossings" — for ALL nx, ny >= 1 and ALL unit cells with crossings in {-1,0,1}^2
   (multi-edges, self-loops allowed), over the generated _next_cell_number / _crossing:
   copy (mx,my) of site s is (p_s + (mx,my)) / (nx,ny); copy (mx,my) of edge e = (j,k), crossing (cx,cy), joins
   site j of cell (mx,my) to site k of cell ((mx+cx) mod nx, (my+cy) mod ny), with crossing = the wrap
   indicator ((mx+cx) div nx, (my+cy) div ny). *)
Theorem C10_tile_structure :
  forall (c : unit_cell) (nx ny : Z), 1 <= nx -> 1 <= ny -> wf_cell c = true ->
  let T := tile_unit_cell c nx ny in
  let ns := n_sites c in
  let ne := n_uedges c in
  z_scale T = uc_scale c * nx * ny /\
  zlen (z_pos T) = nx * ny * ns /\ zlen (z_edges T) = nx * ny * ne /\ zlen (z_crossing T) = nx * ny * ne /\
  (forall mx my s, 0 <= mx < nx -> 0 <= my < ny -> 0 <= s < ns ->
     znth ((my * nx + mx) * ns + s) (z_pos T) (0,0)
     = ((fst (znth s (uc_points c) (0,0)) + mx * uc_scale c) * ny,
        (snd (znth s (uc_points c) (0,0)) + my * uc_scale c) * nx)) /\
  (forall mx my e, 0 <= mx < nx -> 0 <= my < ny -> 0 <= e < ne ->
     let j := fst (znth e (uc_edges c) (0,0)) in
     let k := snd (znth e (uc_edges c) (0,0)) in
     let cx := fst (znth e (uc_crossing c) (0,0)) in
     let cy := snd (znth e (uc_crossing c) (0,0)) in
     znth ((my * nx + mx) * ne + e) (z_edges T) (0,0)
       = (j + (my * nx + mx) * ns, k + (((my + cy) mod ny) * nx + (mx + cx) mod nx) * ns) /\
     znth ((my * nx + mx) * ne + e) (z_crossing T) (0,0) = ((mx + cx) / nx, (my + cy) / ny)).
Proof. exact tile_structure. Qed.
Print Assumptions C10_tile_structure.

(* the wrap indicator is -1, 0 or +1, and 0 exactly when the step stays inside the torus cell *)
Theorem C10_wrap_indicator :
  forall n x c, 1 <= n -> 0 <= x < n -> -1 <= c <= 1 ->
  (x + c) / n = (if x + c <? 0 then -1 else if n <=? x + c then 1 else 0).
Proof. exact wrap_indicator. Qed.
Print Assumptions C10_wrap_indicator.

(* ===== Clause "... and the tiled colouring": copy (n, e) gets the colour of e, and the tiled colouring of a
   proper 3-edge-colouring of the cell is a proper 3-edge-colouring of the tiling, for ALL nx, ny >= 1. *)
Theorem C10_tile_coloring :
  forall (col : list Z) (nx ny : Z), 1 <= nx -> 1 <= ny ->
  zlen (tile_coloring col nx ny) = nx * ny * zlen col /\
  forall n e, 0 <= n < nx * ny -> 0 <= e < zlen col ->
    znth (n * zlen col + e) (tile_coloring col nx ny) 0 = znth e col 0.
Proof. exact tile_coloring_structure. Qed.
Print Assumptions C10_tile_coloring.

Theorem C10_tile_coloring_proper :
  forall (c : unit_cell) (col : list Z) (nx ny : Z), 1 <= nx -> 1 <= ny -> wf_cell c = true ->
  proper_coloring (n_sites c) (uc_edges c) col = true ->
  proper_coloring (nx * ny * n_sites c) (tile_edges c nx ny) (tile_coloring col nx ny) = true.
Proof. exact tile_coloring_proper. Qed.
Print Assumptions C10_tile_coloring_proper.

(* what proper_coloring means: one colour in {0,1,2} per edge, and at every vertex each colour occurs on at
   most one edge END (so a self-loop is never properly coloured) *)
Theorem C10_proper_coloring_meaning :
  forall nv es col, proper_coloring nv es col = true ->
  length col = length es /\ (forall c, In c col -> 0 <= c <= 2) /\
  (forall v x, 0 <= v < nv -> cnt es col v x <= 1).
Proof. exact proper_coloring_elim. Qed.
Print Assumptions C10_proper_coloring_meaning.

(* ===== Clause "honeycomb: ... trivalent", index structure for ALL n >= 1 (n_vertical = round(n/sqrt 3)):
   4*n*nv sites, 6*n*nv edges; edge (cell, type) joins the stated sites of the stated neighbouring cells with
   crossing = (signed) wrap indicator, and carries the stated colour. *)
Theorem C10_honeycomb_index_structure :
  forall n : Z, 1 <= n ->
  let nv := honeycomb_nv n in let N := nv * n in let L := honeycomb n in
  1 <= nv /\
  (zlen (z_pos L) = 4 * N /\ zlen (z_edges L) = 6 * N /\ zlen (z_crossing L) = 6 * N /\
   zlen (honeycomb_coloring n) = 6 * N /\ zlen (make_honeycomb_ujk n) = 6 * N) /\
  (forall v, 0 <= v < 4 * N -> zdegree (z_edges L) v = 3) /\
  (forall cx cy, 0 <= cx < n -> 0 <= cy < nv -> let c := cy * n + cx in
     znth (3*c) (z_edges L) (0,0) = (4*c, 4*c+1) /\ znth (3*c+1) (z_edges L) (0,0) = (4*c+2, 4*c+1) /\
     znth (3*c+2) (z_edges L) (0,0) = (4*c+2, 4*c+3) /\
     znth (3*c) (z_crossing L) (0,0) = (0,0) /\ znth (3*c+1) (z_crossing L) (0,0) = (0,0) /\
     znth (3*c+2) (z_crossing L) (0,0) = (0,0) /\
     znth (3*c) (honeycomb_coloring n) 0 = 0 /\ znth (3*c+1) (honeycomb_coloring n) 0 = 2 /\
     znth (3*c+2) (honeycomb_coloring n) 0 = 0 /\
     znth (3*N + c) (z_edges L) (0,0) = (4*c+2, 4*(cy*n + (cx+1) mod n) + 1) /\
     znth (3*N + c) (z_crossing L) (0,0) = ((cx+1)/n, 0) /\ znth (3*N + c) (honeycomb_coloring n) 0 = 1 /\
     znth (4*N + c) (z_edges L) (0,0) = (4*(((cy+1) mod nv)*n + cx), 4*c+3) /\
     znth (4*N + c) (z_crossing L) (0,0) = (0, - ((cy+1)/nv)) /\ znth (4*N + c) (honeycomb_coloring n) 0 = 1 /\
     znth (5*N + c) (z_edges L) (0,0) = (4*(((cy+1) mod nv)*n + (cx+1) mod n), 4*c+3) /\
     znth (5*N + c) (z_crossing L) (0,0) = (- ((cx+1)/n), - ((cy+1)/nv)) /\
     znth (5*N + c) (honeycomb_coloring n) 0 = 2).
Proof. exact honeycomb_index_structure_claim. Qed.
Print Assumptions C10_honeycomb_index_structure.

(* n_vertical = int(round(n / sqrt 3)) is modelled by the integer nearest to n/sqrt3 *)
Theorem C10_honeycomb_nv_nearest :
  forall n : Z, 1 <= n ->
  let v := honeycomb_nv n in 3 * (2 * v - 1) * (2 * v - 1) <= 4 * n * n < 3 * (2 * v + 1) * (2 * v + 1).
Proof. exact honeycomb_nv_nearest. Qed.
Print Assumptions C10_honeycomb_nv_nearest.

(* honeycomb positions (exact up to the uniform irrational y-shift 0.01/(sqrt3*nv), see Model/Examples.v) *)
Theorem C10_honeycomb_positions :
  forall n : Z, 1 <= n -> let nv := honeycomb_nv n in let L := honeycomb n in
  z_scale L = 12 * n * nv * hc_D /\
  forall cx cy, 0 <= cx < n -> 0 <= cy < nv -> let c := cy * n + cx in
    znth (4*c) (z_pos L) (0,0) = ((1+4*cx)*(3*nv*hc_D), ((1+12*cy)*hc_D + hc_delta12)*n) /\
    znth (4*c+1) (z_pos L) (0,0) = ((1+4*cx)*(3*nv*hc_D), ((5+12*cy)*hc_D + hc_delta12)*n) /\
    znth (4*c+2) (z_pos L) (0,0) = ((3+4*cx)*(3*nv*hc_D), ((7+12*cy)*hc_D + hc_delta12)*n) /\
    znth (4*c+3) (z_pos L) (0,0) = ((3+4*cx)*(3*nv*hc_D), ((11+12*cy)*hc_D + hc_delta12)*n).
Proof. exact honeycomb_pos_index. Qed.
Print Assumptions C10_honeycomb_positions.

(* ===== Clause "hex-square-oct ... trivalent": index structure for ALL n >= 1 *)
Theorem C10_hso_index_structure :
  forall n : Z, 1 <= n -> let N := n * n in let L := hex_square_oct n in
  (zlen (z_pos L) = 6 * N /\ zlen (z_edges L) = 9 * N /\ zlen (z_crossing L) = 9 * N) /\
  (forall v, 0 <= v < 6 * N -> zdegree (z_edges L) v = 3) /\
  (forall cx cy, 0 <= cx < n -> 0 <= cy < n -> let c := cy * n + cx in
     (forall k, 0 <= k < 6 -> znth (6*c+k) (z_edges L) (0,0) = (6*c+k, 6*c+(k+1) mod 6) /\
                              znth (6*c+k) (z_crossing L) (0,0) = (0,0)) /\
     znth (6*N+c) (z_edges L) (0,0) = (6*c+4, 6*(cy*n+(cx+1) mod n)+2) /\ znth (6*N+c) (z_crossing L) (0,0) = ((cx+1)/n, 0) /\
     znth (7*N+c) (z_edges L) (0,0) = (6*(cy*n+(cx+1) mod n)+1, 6*c+5) /\ znth (7*N+c) (z_crossing L) (0,0) = (-((cx+1)/n), 0) /\
     znth (8*N+c) (z_edges L) (0,0) = (6*(((cy+1) mod n)*n+cx), 6*c+3) /\ znth (8*N+c) (z_crossing L) (0,0) = (0, -((cy+1)/n))).
Proof. exact hso_index_structure_claim. Qed.
Print Assumptions C10_hso_index_structure.

(* ===== Clause "square lattice: ... coordination 4": index structure for ALL nx, ny >= 1, positions exact *)
Theorem C10_square_index_structure :
  forall nx ny : Z, 1 <= nx -> 1 <= ny -> let N := nx * ny in let L := square nx ny in
  (zlen (z_pos L) = N /\ zlen (z_edges L) = 2 * N /\ zlen (z_crossing L) = 2 * N) /\
  (forall v, 0 <= v < N -> zdegree (z_edges L) v = 4) /\
  (forall i j, 0 <= i < nx -> 0 <= j < ny -> let c := i * ny + j in
     znth c (z_pos L) (0,0) = ((2*i+1)*ny, (2*j+1)*nx) /\ z_scale L = 2*nx*ny /\
     znth c (z_edges L) (0,0) = (((i-1) mod nx)*ny+j, c) /\ znth c (z_crossing L) (0,0) = (b2z (i =? 0), 0) /\
     znth (N+c) (z_edges L) (0,0) = (i*ny+(j-1) mod ny, c) /\ znth (N+c) (z_crossing L) (0,0) = (0, b2z (j =? 0))).
Proof. exact square_index_structure_claim. Qed.
Print Assumptions C10_square_index_structure.

(* ===== Clause "tri-non ... trivalent": a tiling (C10_tile_structure applies), 3-regular for ALL nx, ny >= 1 *)
Theorem C10_tri_non_degree :
  forall nx ny v : Z, 1 <= nx -> 1 <= ny -> 0 <= v < nx * ny * 4 -> zdegree (z_edges (tri_non nx ny)) v = 3.
Proof. exact tri_non_degree. Qed.
Print Assumptions C10_tri_non_degree.

(* ===== Clause "every supplied colouring a proper 3-edge-colouring", for ALL sizes *)
Theorem C10_coloring_proper :
  (forall n : Z, 1 <= n ->
     proper_coloring (4 * (honeycomb_nv n * n)) (z_edges (honeycomb n)) (honeycomb_coloring n) = true) /\
  (forall nx ny : Z, 1 <= nx -> 1 <= ny ->
     proper_coloring (nx * ny * 4) (z_edges (tri_non nx ny)) (tri_non_coloring nx ny) = true).
Proof. exact coloring_proper_claim. Qed.
Print Assumptions C10_coloring_proper.

(* ===== Clauses "closed periodic tilings of the unit torus with the advertised polygons and nothing else,
   V-E+F = 0, areas summing to 1" (+ every edge two-sided, degrees) — vm_compute through the shared
   plaquette finder, for EXACTLY the size ranges of the property's quantifier (bounds in the statement). *)
Theorem C10_polygons_bounded :
  (forall n, 2 <= n <= 16 ->
     tiling_claim (to_lattice (honeycomb n)) [(6%nat, Z.to_nat (2 * n * honeycomb_nv n))] 3) /\
  (forall n, 2 <= n <= 8 ->
     tiling_claim (to_lattice (hex_square_oct n))
                  [(4%nat, Z.to_nat (n * n)); (6%nat, Z.to_nat (n * n)); (8%nat, Z.to_nat (n * n))] 3) /\
  (forall nx ny, 2 <= nx <= 6 -> 2 <= ny <= 6 ->
     tiling_claim (to_lattice (tri_non nx ny)) [(3%nat, Z.to_nat (nx * ny)); (9%nat, Z.to_nat (nx * ny))] 3) /\
  (forall nx ny, 2 <= nx <= 8 -> 2 <= ny <= 8 ->
     tiling_claim (to_lattice (square nx ny)) [(4%nat, Z.to_nat (nx * ny))] 4).
Proof. exact polygons_bounded_claim. Qed.
Print Assumptions C10_polygons_bounded.

(* ===== Clause "the polygon, wheel, ladder ... helpers have the stated sizes": index structure for all n;
   ladder census (exact rational positions, no wobble) for n = 3..30 *)
Theorem C10_polygon_wheel_ladder_index :
  (forall s ps n, 0 <= n -> let L := single_plaquette s ps n in
     zlen (z_edges L) = n /\ zlen (z_crossing L) = n /\
     forall i, 0 <= i < n -> znth i (z_edges L) (0,0) = (i, (i+1) mod n) /\ znth i (z_crossing L) (0,0) = (0,0)) /\
  (forall s ps n, 0 <= n -> zlen ps = n -> let L := higher_coordination s ps n in
     zlen (z_pos L) = n+1 /\ zlen (z_edges L) = 2*n /\ zlen (z_crossing L) = 2*n /\ znth n (z_pos L) (0,0) = (s/2, s/2) /\
     (forall i, 0 <= i < n -> znth i (z_pos L) (0,0) = znth i ps (0,0)) /\
     forall i, 0 <= i < n -> znth i (z_edges L) (0,0) = (i, (i+1) mod n) /\ znth (n+i) (z_edges L) (0,0) = (i, n) /\
                            znth i (z_crossing L) (0,0) = (0,0) /\ znth (n+i) (z_crossing L) (0,0) = (0,0)) /\
  (forall n, 0 <= n ->
     zlen (ladder_edges n) = 3*n /\ zlen (ladder_crossing n) = 3*n /\ zlen (ladder_pos n) = 2*n /\
     forall i, 0 <= i < n ->
       znth i (ladder_edges n) (0,0) = (i, (i+1) mod n) /\
       znth (n+i) (ladder_edges n) (0,0) = (i+n, (i+1) mod n + n) /\
       znth (2*n+i) (ladder_edges n) (0,0) = (i, i+n) /\
       znth i (ladder_crossing n) (0,0) = (b2z (i =? n-1), 0) /\
       znth (n+i) (ladder_crossing n) (0,0) = (b2z (i =? n-1), 0) /\
       znth (2*n+i) (ladder_crossing n) (0,0) = (0,0) /\
       znth i (ladder_pos n) (0,0) = (n-1+18*i, 6*(n-1)) /\
       znth (n+i) (ladder_pos n) (0,0) = (n-1+18*i, 14*(n-1))).
Proof. exact polygon_wheel_ladder_index_claim. Qed.
Print Assumptions C10_polygon_wheel_ladder_index.

Theorem C10_ladder_census_bounded :
  forall n, 3 <= n <= 30 ->
  exists ps, find_all_plaquettes (to_lattice (n_ladder_straight n)) = Some ps /\
    (forall k c, In (k, c) [(4%nat, Z.to_nat n)] -> count_sides ps k = c) /\
    length ps = fold_right Nat.add 0%nat (map snd [(4%nat, Z.to_nat n)]) /\
    (forall p, In p ps -> 0 < p_area2 p).
Proof. exact ladder_census_bounded_claim. Qed.
Print Assumptions C10_ladder_census_bounded.

(* ===== Clause "ready-made Kitaev helpers (honeycomb ground-state bonds) have the stated ... flux sector":
   make_honeycomb(L) returns u = +1 on all 6*L*nv edges (C10_honeycomb_index_structure) and, for L = 2..12,
   every plaquette of the model lattice then carries flux +1 = ground_state_ansatz(6). *)
Theorem C10_make_honeycomb_flux_bounded :
  forall n, 2 <= n <= 12 ->
  exists ps, find_all_plaquettes (to_lattice (honeycomb n)) = Some ps /\
             forall p, In p ps -> flux_of (make_honeycomb_ujk n) p = 1.
Proof. exact make_honeycomb_flux_bounded_claim. Qed.
Print Assumptions C10_make_honeycomb_flux_bounded.

(* ===== Non-vacuity: the hypotheses are satisfiable on non-trivial instances *)
Example C10_tile_structure_nonvacuous :
  wf_cell tri_non_cell = true /\ n_sites tri_non_cell = 4 /\ n_uedges tri_non_cell = 6 /\
  (* a rectangular 3 x 2 tiling: copy (mx,my) = (2,1) (cell 5) of edge 4 = (3,0) with crossing (0,1) wraps in y,
     copy (0,0) of edge 5 = (1,3) with crossing (-1,0) wraps in x *)
  znth (5 * 6 + 4) (z_edges (tri_non 3 2)) (0,0) = (3 + 5 * 4, 0 + 2 * 4) /\
  znth (5 * 6 + 4) (z_crossing (tri_non 3 2)) (0,0) = (0, 1) /\
  znth (0 * 6 + 5) (z_edges (tri_non 3 2)) (0,0) = (1, 3 + 2 * 4) /\
  znth (0 * 6 + 5) (z_crossing (tri_non 3 2)) (0,0) = (-1, 0) /\
  proper_coloring (n_sites tri_non_cell) (uc_edges tri_non_cell) [1; 2; 0; 1; 2; 0] = true.
Proof. vm_compute. repeat split; reflexivity. Qed.

Example C10_polygons_nonvacuous :
  honeycomb_nv 2 = 1 /\ honeycomb_nv 3 = 2 /\ honeycomb_nv 16 = 9 /\
  nV (to_lattice (honeycomb 3)) = 24%nat /\ nE (to_lattice (honeycomb 3)) = 36%nat /\
  wf_lattice (to_lattice (honeycomb 3)) = true /\ wf_lattice (to_lattice (tri_non 2 3)) = true.
Proof. vm_compute. repeat split; reflexivity. Qed.

(* ===== polygons_all_sizes: the polygon census WITHOUT a size bound (induction over the face walks, no vm_compute
   over sizes).  Proofs/PeriodicRot.v, PeriodicFaces.v: in a lattice made of N translated copies of a base cell
   (vertices n*ns+s, edges eid n e, copy n of base edge e joining cell n to cell tr (bc e) n, edge vectors the
   base vectors rescaled by (al, be) > 0) the rotation system at every vertex is the base one, the dart successor
   is the base successor transported (periodic_nd), every face walk is the copy  twalk t c'  of a rotation c' of a
   base face, every face passes the three filters of the plaquette finder, and the multiset of side counts of
   find_all_plaquettes is N copies of that of the base faces.  Proofs/PeriodicTile.v: tile_unit_cell c nx ny is
   such a lattice for EVERY well-formed cell without (j,j) edges and ALL nx, ny >= 1, given a certificate (rots,
   faces) for the cell that passes the boolean cell_cert_okb (independent of nx, ny) and the size condition
   edges_okb (no face meets two copies of one base edge that coincide modulo (nx, ny); implied for all
   nx, ny >= 2 by edges_smallb). *)
Theorem C10_tile_plaquettes_all_sizes :
  forall (c : unit_cell) (nx ny : Z) (rots faces : list (list (nat * bool))),
  1 <= nx -> 1 <= ny -> wf_cell c = true -> cell_simple c = true ->
  cell_cert_okb c rots faces = true -> edges_okb c nx ny faces = true ->
  let L := tile_lattice c nx ny in
  exists ps, find_all_plaquettes L = Some ps /\
    Permutation.Permutation (map n_sides ps) (flat_map (fun _ => map (@length _) faces) (seq 0 (Z.to_nat (nx * ny)))) /\
    (forall p, In p ps -> p_winding p = -1 /\ 0 < p_area2 p /\ NoDup (p_edges p)) /\
    NoDup (flat_map plaq_darts ps) /\
    (forall d, valid_dart L d <-> In d (flat_map plaq_darts ps)).
Proof. exact tile_plaquettes. Qed.
Print Assumptions C10_tile_plaquettes_all_sizes.

Theorem C10_tile_edges_small :
  forall c nx ny faces, 2 <= nx -> 2 <= ny -> edges_smallb c faces = true -> edges_okb c nx ny faces = true.
Proof. exact edges_small_ok. Qed.
Print Assumptions C10_tile_edges_small.

(* the dart successor of a tiling is the successor of the cell, transported to every copy (translation
   equivariance), and the rotation system is the cell's — the abstract statements the census rests on *)
Theorem C10_periodic_faces_abstract :
  forall (L : lattice), good L ->
  forall (N ns ne : nat) (bj bk : nat -> nat) (bc : nat -> vec) (tr : vec -> nat -> nat)
         (eid : nat -> nat -> nat) (ecell ebase : nat -> nat) (bvec : nat -> vec) (al be : Z)
         (brot : nat -> list (nat * bool)),
  0 < al -> 0 < be ->
  (forall e, (e < ne)%nat -> (bj e < ns)%nat /\ (bk e < ns)%nat) ->
  (forall a n, (n < N)%nat -> (tr a n < N)%nat) ->
  (forall n, (n < N)%nat -> tr vzero n = n) ->
  (forall a b n, (n < N)%nat -> tr a (tr b n) = tr (vadd a b) n) ->
  (forall n e, (n < N)%nat -> (e < ne)%nat -> (eid n e < nE L)%nat) ->
  (forall x, (x < nE L)%nat -> (ecell x < N)%nat /\ (ebase x < ne)%nat /\ eid (ecell x) (ebase x) = x) ->
  (forall n e n' e', (n < N)%nat -> (e < ne)%nat -> (n' < N)%nat -> (e' < ne)%nat ->
     eid n e = eid n' e' -> n = n' /\ e = e') ->
  (forall n e, (n < N)%nat -> (e < ne)%nat ->
     edge_at L (eid n e) = (n * ns + bj e, psh bc tr e n * ns + bk e)%nat) ->
  (forall n e, (n < N)%nat -> (e < ne)%nat -> evec L (eid n e) = asc al be (bvec e)) ->
  (forall e, (e < ne)%nat -> bvec e <> vzero) ->
  (forall s e b, (s < ns)%nat -> (In (e, b) (brot s) <-> (e < ne)%nat /\ (if b then bj e else bk e) = s)) ->
  (forall s, (s < ns)%nat ->
     Sorted.StronglySorted (fun h1 h2 => Lattice.ang_lt (hvec bvec h2) (hvec bvec h1) = true) (brot s)) ->
  forall bfaces : list (list (nat * bool)),
  (forall c, In c bfaces -> c <> []) ->
  (forall c, In c bfaces -> forall d, In d c -> (fst d < ne)%nat) ->
  (forall c, In c bfaces ->
     Forall (fun ab => bnd bj bk brot (fst ab) = Some (snd ab)) (cycp (0%nat, true) c)) ->
  (forall c, In c bfaces -> vsum (map (dshift bc) c) = vzero) ->
  NoDup (concat bfaces) ->
  (forall e b, (e < ne)%nat -> In (e, b) (concat bfaces)) ->
  (forall c, In c bfaces -> convex_ccw (map (hvec bvec) c)) ->
  (forall c t, In c bfaces -> (t < N)%nat -> NoDup (walk_edges (twalk L bc tr eid t c))) ->
  exists ps, find_all_plaquettes L = Some ps /\
    Permutation.Permutation (map n_sides ps) (flat_map (fun _ => map (@length _) bfaces) (seq 0 N)) /\
    (forall p, In p ps -> p_winding p = -1 /\ 0 < p_area2 p /\ NoDup (p_edges p)) /\
    NoDup (flat_map plaq_darts ps) /\
    (forall d, valid_dart L d <-> In d (flat_map plaq_darts ps)).
Proof. exact periodic_plaquettes. Qed.
Print Assumptions C10_periodic_faces_abstract.

(* ===== tri_non_lattice, ALL nx, ny >= 2: nx*ny triangles and nx*ny nonagons and nothing else, V - E + F = 0,
   every plaquette anticlockwise with positive area, every directed edge on exactly one plaquette *)
Theorem C10_tri_non_polygons_all_sizes :
  forall nx ny : Z, 2 <= nx -> 2 <= ny ->
  let L := to_lattice (tri_non nx ny) in let N := Z.to_nat (nx * ny) in
  exists ps, find_all_plaquettes L = Some ps /\
    count_sides ps 3 = N /\ count_sides ps 9 = N /\ length ps = (2 * N)%nat /\
    (forall k, k <> 3%nat -> k <> 9%nat -> count_sides ps k = 0%nat) /\
    (nV L + length ps = nE L)%nat /\
    (forall p, In p ps -> p_winding p = -1 /\ 0 < p_area2 p) /\
    (forall e b, (e < nE L)%nat ->
       exists! i, (i < length ps)%nat /\ In (e, b) (plaq_darts (nth i ps (mk_plaquette L [])))).
Proof. exact tri_non_census_all_sizes. Qed.
Print Assumptions C10_tri_non_polygons_all_sizes.

(* non-vacuity of the certificate hypotheses: the tri-non cell's computed certificate passes, its faces are a
   nonagon and a triangle, and the theorem's conclusion can be compared with the bounded computation *)
Example C10_tri_non_certificate_nonvacuous :
  wf_cell tri_non_cell = true /\ cell_simple tri_non_cell = true /\
  cell_cert_okb tri_non_cell tri_non_rots tri_non_faces = true /\
  edges_smallb tri_non_cell tri_non_faces = true /\ map (@length _) tri_non_faces = [9%nat; 3%nat] /\
  edges_okb tri_non_cell 2 3 tri_non_faces = true /\ edges_okb tri_non_cell 1 3 tri_non_faces = false.
Proof. vm_compute. repeat split; reflexivity. Qed.

(* ===== honeycomb_lattice(n), ALL n >= 2 (n_vertical = round(n/sqrt 3) >= 1, so n = 2 has a single row of cells):
   2*n*nv hexagons and nothing else, V - E + F = 0, every plaquette anticlockwise with positive area, every directed
   edge on exactly one plaquette.  The model honeycomb n (edges numbered in six blocks) is shown to be a periodic
   lattice over the 4-site cell hc_cell from C10_honeycomb_index_structure / C10_honeycomb_positions. *)
Theorem C10_honeycomb_polygons_all_sizes :
  forall n : Z, 2 <= n ->
  let L := to_lattice (honeycomb n) in let F := Z.to_nat (2 * n * honeycomb_nv n) in
  exists ps, find_all_plaquettes L = Some ps /\
    count_sides ps 6 = F /\ length ps = F /\ (forall k, k <> 6%nat -> count_sides ps k = 0%nat) /\
    (nV L + length ps = nE L)%nat /\
    (forall p, In p ps -> p_winding p = -1 /\ 0 < p_area2 p) /\
    NoDup (flat_map plaq_darts ps) /\ (forall d, valid_dart L d <-> In d (flat_map plaq_darts ps)).
Proof. exact honeycomb_census_all_sizes. Qed.
Print Assumptions C10_honeycomb_polygons_all_sizes.

Example C10_honeycomb_certificate_nonvacuous :
  wf_cell hc_cell = true /\ cell_simple hc_cell = true /\ cell_cert_okb hc_cell hc_rots hc_faces = true /\
  map (@length _) hc_faces = [6%nat; 6%nat] /\ edges_okb hc_cell 2 1 hc_faces = true /\
  edges_okb hc_cell 1 1 hc_faces = false.
Proof. vm_compute. repeat split; reflexivity. Qed.

(* ===== hex_square_oct_lattice(n), ALL n >= 2: n^2 squares, n^2 hexagons, n^2 octagons and nothing else *)
Theorem C10_hso_polygons_all_sizes :
  forall n : Z, 2 <= n ->
  let L := to_lattice (hex_square_oct n) in let F := Z.to_nat (n * n) in
  exists ps, find_all_plaquettes L = Some ps /\
    count_sides ps 4 = F /\ count_sides ps 6 = F /\ count_sides ps 8 = F /\ length ps = (3 * F)%nat /\
    (forall k, k <> 4%nat -> k <> 6%nat -> k <> 8%nat -> count_sides ps k = 0%nat) /\
    (nV L + length ps = nE L)%nat /\
    (forall p, In p ps -> p_winding p = -1 /\ 0 < p_area2 p) /\
    NoDup (flat_map plaq_darts ps) /\ (forall d, valid_dart L d <-> In d (flat_map plaq_darts ps)).
Proof. exact hso_census_all_sizes. Qed.
Print Assumptions C10_hso_polygons_all_sizes.

Example C10_hso_certificate_nonvacuous :
  wf_cell hso_cell = true /\ cell_simple hso_cell = true /\ cell_cert_okb hso_cell hso_rots hso_faces = true /\
  edges_okb hso_cell 2 2 hso_faces = true /\ length hso_faces = 3%nat.
Proof. vm_compute. repeat split; reflexivity. Qed.

(* ===== square_lattice(nx, ny), ALL nx, ny >= 2: nx*ny squares and nothing else (coordination 4 for all sizes:
   C10_square_index_structure) *)
Theorem C10_square_polygons_all_sizes :
  forall nx ny : Z, 2 <= nx -> 2 <= ny ->
  let L := to_lattice (square nx ny) in let F := Z.to_nat (nx * ny) in
  exists ps, find_all_plaquettes L = Some ps /\
    count_sides ps 4 = F /\ length ps = F /\ (forall k, k <> 4%nat -> count_sides ps k = 0%nat) /\
    (nV L + length ps = nE L)%nat /\
    (forall p, In p ps -> p_winding p = -1 /\ 0 < p_area2 p) /\
    NoDup (flat_map plaq_darts ps) /\ (forall d, valid_dart L d <-> In d (flat_map plaq_darts ps)).
Proof. exact square_census_all_sizes. Qed.
Print Assumptions C10_square_polygons_all_sizes.

Example C10_square_certificate_nonvacuous :
  wf_cell sq_cell = true /\ cell_cert_okb sq_cell sq_rots sq_faces = true /\ map (@length _) sq_faces = [4%nat] /\
  edges_okb sq_cell 2 2 sq_faces = true /\ edges_okb sq_cell 1 2 sq_faces = false.
Proof. vm_compute. repeat split; reflexivity. Qed.

(* ===== "areas summing to 1", ALL sizes: twice the (exact shoelace) areas of the plaquettes sum to 2 * scale^2.
   General form for tilings: every plaquette has al*be = ny*nx times the area of its base face
   (periodic_areas), and the faces of the cell have total area 1 (cell_area_okb, computed once per cell). *)
Theorem C10_tile_area_all_sizes :
  forall (c : unit_cell) (nx ny : Z) (rots faces : list (list (nat * bool))),
  1 <= nx -> 1 <= ny -> wf_cell c = true -> cell_simple c = true ->
  cell_cert_okb c rots faces = true -> edges_okb c nx ny faces = true -> cell_area_okb c faces = true ->
  forall ps, find_all_plaquettes (tile_lattice c nx ny) = Some ps ->
  area2_sum ps = 2 * scale (tile_lattice c nx ny) * scale (tile_lattice c nx ny).
Proof. exact tile_area. Qed.
Print Assumptions C10_tile_area_all_sizes.

Theorem C10_areas_all_sizes :
  (forall n, 2 <= n -> forall ps, find_all_plaquettes (to_lattice (honeycomb n)) = Some ps ->
     area2_sum ps = 2 * scale (to_lattice (honeycomb n)) * scale (to_lattice (honeycomb n))) /\
  (forall n, 2 <= n -> forall ps, find_all_plaquettes (to_lattice (hex_square_oct n)) = Some ps ->
     area2_sum ps = 2 * scale (to_lattice (hex_square_oct n)) * scale (to_lattice (hex_square_oct n))) /\
  (forall nx ny, 2 <= nx -> 2 <= ny -> forall ps, find_all_plaquettes (to_lattice (tri_non nx ny)) = Some ps ->
     area2_sum ps = 2 * scale (to_lattice (tri_non nx ny)) * scale (to_lattice (tri_non nx ny))) /\
  (forall nx ny, 2 <= nx -> 2 <= ny -> forall ps, find_all_plaquettes (to_lattice (square nx ny)) = Some ps ->
     area2_sum ps = 2 * scale (to_lattice (square nx ny)) * scale (to_lattice (square nx ny))).
Proof. exact areas_all_sizes_claim. Qed.
Print Assumptions C10_areas_all_sizes.

(* ===== degree regularity of tile_unit_cell for ALL sizes and EVERY well-formed cell: copy m of site s has the
   degree of s in the cell *)
Theorem C10_tile_degree_all_sizes :
  forall (c : unit_cell) (nx ny m s : Z),
  1 <= nx -> 1 <= ny -> wf_cell c = true -> 0 <= m < nx * ny -> 0 <= s < n_sites c ->
  zdegree (tile_edges c nx ny) (n_sites c * m + s) = zdegree (uc_edges c) s.
Proof. exact tile_degree_all_sizes. Qed.
Print Assumptions C10_tile_degree_all_sizes.

(* ===== make_honeycomb(L), ALL L >= 2: u = +1 on all bonds puts every hexagon in the flux sector +1 =
   ground_state_ansatz(6) (every hexagon is walked with three bonds along and three against their stored
   orientation, in every cell: a property of the two faces of the cell) *)
Theorem C10_make_honeycomb_flux_all_sizes :
  forall n, 2 <= n ->
  exists ps, find_all_plaquettes (to_lattice (honeycomb n)) = Some ps /\
             forall p, In p ps -> flux_of (make_honeycomb_ujk n) p = 1.
Proof. exact make_honeycomb_flux_all_sizes_claim. Qed.
Print Assumptions C10_make_honeycomb_flux_all_sizes.

(* ===== the fixed fixture graphs (two_triangles, tri_square_pent, tutte_graph, multi_graph, bridge_graph,
   concave_plaquette, star_lattice_sheared), as TRANSLATED from the literals of example_graphs.py on every run
   (translate/fixtures.py -> Gen/FixturesGen.v; K compares them with the implementation's lattices exactly), are the
   graphs they are named after. *)
Theorem C10_fixtures_named :
  open_census (fx_L fixture_two_triangles) [(3%nat, 2%nat)] = true /\
  open_census (fx_L fixture_tri_square_pent) [(3%nat, 1%nat); (4%nat, 1%nat); (5%nat, 1%nat)] = true /\
  (zlen (z_edges (fx_lat fixture_tutte_graph)) = 69 /\ regular_b fixture_tutte_graph 46 3 = true /\
   forallb (fun c => (fst c =? 0) && (snd c =? 0)) (z_crossing (fx_lat fixture_tutte_graph)) = true /\
   fx_pos_from_impl fixture_tutte_graph = true) /\
  (z_edges (fx_lat fixture_multi_graph) = [(0, 1); (0, 0); (0, 1); (1, 1)] /\
   no_self_loops (fx_L fixture_multi_graph) = false) /\
  (open_census (fx_L fixture_bridge_graph) [(3%nat, 2%nat)] = true /\
   option_map (fun ps => nth 3 (edges_plaquettes (fx_L fixture_bridge_graph) ps) (Some 0%nat, Some 0%nat))
              (find_all_plaquettes (fx_L fixture_bridge_graph)) = Some (None, None)) /\
  open_census (fx_L fixture_concave_plaquette) [(4%nat, 1%nat)] = true /\
  (regular_b fixture_star_lattice_sheared 6 3 = true /\
   proper_coloring 6 (z_edges (fx_lat fixture_star_lattice_sheared)) (fx_col fixture_star_lattice_sheared) = true /\
   length (fx_ujk fixture_star_lattice_sheared) = 9%nat).
Proof. exact fixtures_named_claim. Qed.
Print Assumptions C10_fixtures_named.

(* ===== polygons_all_sizes in the form of C10_polygons_bounded WITHOUT the upper bounds: for every size >= 2 the
   four named tilings are closed tilings of the unit torus by exactly the advertised polygons (census, total, twice
   the areas = 2*scale^2, every row of the edges_plaquettes table [Some _, Some _], V - E + F = 0).  The degree
   clause of tiling_claim is proved for all sizes in C10_*_index_structure / C10_tri_non_degree /
   C10_tile_degree_all_sizes (as zdegree of the integer edge list). *)
Theorem C10_polygons_all_sizes :
  (forall n, 2 <= n ->
     closed_tiling_prop (to_lattice (honeycomb n)) [(6%nat, Z.to_nat (2 * n * honeycomb_nv n))]) /\
  (forall n, 2 <= n ->
     closed_tiling_prop (to_lattice (hex_square_oct n))
                        [(4%nat, Z.to_nat (n * n)); (6%nat, Z.to_nat (n * n)); (8%nat, Z.to_nat (n * n))]) /\
  (forall nx ny, 2 <= nx -> 2 <= ny ->
     closed_tiling_prop (to_lattice (tri_non nx ny)) [(3%nat, Z.to_nat (nx * ny)); (9%nat, Z.to_nat (nx * ny))]) /\
  (forall nx ny, 2 <= nx -> 2 <= ny ->
     closed_tiling_prop (to_lattice (square nx ny)) [(4%nat, Z.to_nat (nx * ny))]).
Proof. exact polygons_all_sizes_claim. Qed.
Print Assumptions C10_polygons_all_sizes.

(* closed_tiling_prop is the proposition the boolean closed_tiling (run by S on the implementation) decides *)
Theorem C10_closed_tiling_prop_meaning :
  forall L census, closed_tiling L census = true -> closed_tiling_prop L census.
Proof. exact closed_tiling_spec. Qed.
Print Assumptions C10_closed_tiling_prop_meaning.
