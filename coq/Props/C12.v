(* Props/C12.v — cutting, deleting and relabelling return exactly the described sub-lattice.
   Only the property theorems; proofs are in Proofs/Surgery*.v; the model is Model/Surgery.v. *)
From Coq Require Import List ZArith Bool Arith.
From Koala Require Import Model.Lattice Model.Surgery Proofs.SurgeryFacts.
Import ListNotations.

(* clause "cutting boundaries removes exactly the edges that cross the selected boundaries and nothing
   else": positions and scale untouched; output edges = the input's edges that do not cross a selected
   boundary, in input order, each with its crossing.  Every lattice, no hypothesis. *)
Theorem C12_cut_spec : forall (L : lattice) (bx by_ : bool),
  scale (cut_boundaries L bx by_) = scale L /\
  pos (cut_boundaries L bx by_) = pos L /\
  edges (cut_boundaries L bx by_) = map (edge_at L) (cut_kept L bx by_) /\
  crossing (cut_boundaries L bx by_) = map (cross_at L) (cut_kept L bx by_).
Proof. exact cut_spec_idx. Qed.
Print Assumptions C12_cut_spec.
