(* Props/C12.v — cutting, deleting and relabelling return exactly the described sub-lattice.
   Only the property theorems; proofs are in Proofs/Surgery*.v; the model is Model/Surgery.v
   (cut_boundaries, remove_vertices, remove_trailing_edges, permute_vertices, reorder_vertices and
   the specification-side sub_lattice / rank / deg_in).

   NOT covered by a theorem (checked on the implementation by harness/c12.py only): "cutting creates
   no new plaquettes" (topological; needs geometrically truthful crossing flags).  "Trailing-edge
   removal creates no new plaquettes" is REFUTED below.  ("Every plaquette none of whose edges was
   removed is a plaquette of the output with the same geometry" — formerly listed here — is now
   PROVED at the end of this file for select_edges, cut_boundaries, remove_vertices and
   remove_trailing_edges: C12_plaquette_persists_*, for lattices without zero-length edges.) *)
From Coq Require Import List ZArith Bool Arith Sorted.
From Koala Require Import Model.Lattice Model.Surgery.
From Koala Require Import Proofs.SurgeryFacts Proofs.SurgeryTrailing Proofs.SurgeryPerm Proofs.SurgeryEquivariant.
Import ListNotations.

(* ------------------------------------------------------------------ cutting *)
(* clause "cutting boundaries removes exactly the edges that cross the selected boundaries and nothing
   else": positions and scale untouched; output edges = the input's edges that do not cross a selected
   boundary (cut_kept = filter (not crosses_selected) over the edge indices), in input order, each with
   its crossing.  Every lattice, no hypothesis. *)
Theorem C12_cut_spec : forall (L : lattice) (bx by_ : bool),
  scale (cut_boundaries L bx by_) = scale L /\
  pos (cut_boundaries L bx by_) = pos L /\
  edges (cut_boundaries L bx by_) = map (edge_at L) (cut_kept L bx by_) /\
  crossing (cut_boundaries L bx by_) = map (cross_at L) (cut_kept L bx by_).
Proof. exact cut_spec_idx. Qed.
Print Assumptions C12_cut_spec.

(* the same clause without indices: the (edge, crossing) rows of the output are the input's rows
   filtered by "does not cross a selected boundary", in order *)
Theorem C12_cut_rows : forall (L : lattice) (bx by_ : bool), length (crossing L) = nE L ->
  combine (edges (cut_boundaries L bx by_)) (crossing (cut_boundaries L bx by_)) =
  filter (fun ec : (nat * nat) * vec => negb (crosses_selected bx by_ (snd ec))) (combine (edges L) (crossing L)).
Proof. exact cut_spec_rows. Qed.
Print Assumptions C12_cut_rows.

(* which edges survive, and that survivors keep their vectors *)
Theorem C12_cut_kept : forall (L : lattice) (bx by_ : bool) (e : nat),
  In e (cut_kept L bx by_) <-> (e < nE L /\ crosses_selected bx by_ (cross_at L e) = false).
Proof. exact cut_kept_In. Qed.
Print Assumptions C12_cut_kept.

Theorem C12_cut_vectors : forall (L : lattice) (bx by_ : bool) (i : nat),
  i < nE (cut_boundaries L bx by_) ->
  evec (cut_boundaries L bx by_) i = evec L (nth i (cut_kept L bx by_) 0).
Proof. exact cut_evec. Qed.
Print Assumptions C12_cut_vectors.

(* quantifier "repeated application: cut after cut" — cut after cut = cut of the union; idempotence *)
Theorem C12_cut_cut : forall (L : lattice) (bx by_ bx' by' : bool),
  cut_boundaries (cut_boundaries L bx by_) bx' by' = cut_boundaries L (bx || bx') (by_ || by').
Proof. exact cut_cut. Qed.
Print Assumptions C12_cut_cut.

Theorem C12_cut_idempotent : forall (L : lattice) (bx by_ : bool),
  cut_boundaries (cut_boundaries L bx by_) bx by_ = cut_boundaries L bx by_.
Proof. exact cut_idempotent. Qed.
Print Assumptions C12_cut_idempotent.

(* ------------------------------------------------------------------ removing vertices *)
(* clause "removing vertices removes exactly those vertices and the edges touching them (reported as
   such), renumbers the rest in order and keeps positions, crossings and edge order": for every
   well-formed lattice and every in-range index list (any order, repetitions allowed) the result is the
   sub-lattice on kept_vertices (the vertices not listed, ascending) and kept_edges (the edges with both
   ends not listed, ascending), new index = rank among the kept vertices, positions and crossings
   carried over; the reported edges are, as a set, exactly the other edges. *)
Theorem C12_remove_vertices_spec : forall (L : lattice) (idx : list nat),
  wf_lattice L = true -> Forall (fun i => i < nV L) idx ->
  exists rep,
    remove_vertices L idx = Some (sub_lattice L (kept_vertices L idx) (kept_edges L idx), rep) /\
    (forall e, In e rep <-> (e < nE L /\ both_ends L (fun v => negb (memb v idx)) e = false)).
Proof. exact remove_vertices_spec. Qed.
Print Assumptions C12_remove_vertices_spec.

(* what kept_vertices / kept_edges are: ascending, exactly the unlisted vertices / the edges with both
   ends unlisted, and a valid sub-lattice datum *)
Theorem C12_kept_reading : forall (L : lattice) (idx : list nat), wf_lattice L = true ->
  valid_sub L (kept_vertices L idx) (kept_edges L idx) /\
  StronglySorted lt (kept_vertices L idx) /\ StronglySorted lt (kept_edges L idx) /\
  (forall v, In v (kept_vertices L idx) <-> (v < nV L /\ ~ In v idx)) /\
  (forall e, In e (kept_edges L idx) <->
             (e < nE L /\ ~ In (fst (edge_at L e)) idx /\ ~ In (snd (edge_at L e)) idx)).
Proof. exact kept_reading. Qed.
Print Assumptions C12_kept_reading.

(* what sub_lattice L kv ke is (for valid data: kv, ke duplicate-free lists of vertex / edge indices, every
   kept edge has both ends kept): vertex i is old vertex kv[i] at the same position; edge i is old edge
   ke[i] with ends renamed by rank (rank kv (kv[i]) = i, kv[rank v] = v), same crossing, same vector *)
Theorem C12_sub_lattice_reading : forall (L : lattice) (kv ke : list nat), valid_sub L kv ke ->
  nV (sub_lattice L kv ke) = length kv /\ nE (sub_lattice L kv ke) = length ke /\
  scale (sub_lattice L kv ke) = scale L /\
  (forall i, i < length kv ->
     pos_at (sub_lattice L kv ke) i = pos_at L (nth i kv 0) /\ rank kv (nth i kv 0) = i) /\
  (forall i, i < length ke ->
     edge_at (sub_lattice L kv ke) i
       = (rank kv (fst (edge_at L (nth i ke 0))), rank kv (snd (edge_at L (nth i ke 0)))) /\
     nth (rank kv (fst (edge_at L (nth i ke 0)))) kv 0 = fst (edge_at L (nth i ke 0)) /\
     nth (rank kv (snd (edge_at L (nth i ke 0)))) kv 0 = snd (edge_at L (nth i ke 0)) /\
     cross_at (sub_lattice L kv ke) i = cross_at L (nth i ke 0) /\
     evec (sub_lattice L kv ke) i = evec L (nth i ke 0)).
Proof. exact sub_lattice_reading. Qed.
Print Assumptions C12_sub_lattice_reading.

(* quantifier "vertex subsets ... including none, all" *)
Theorem C12_remove_vertices_none : forall (L : lattice), wf_lattice L = true ->
  remove_vertices L [] = Some (L, []).
Proof. exact remove_vertices_none. Qed.
Print Assumptions C12_remove_vertices_none.

Theorem C12_remove_vertices_all : forall (L : lattice) (idx : list nat),
  wf_lattice L = true -> Forall (fun i => i < nV L) idx -> (forall v, v < nV L -> In v idx) ->
  exists rep, remove_vertices L idx = Some (mkLattice (scale L) [] [] [], rep) /\
              (forall e, In e rep <-> e < nE L).
Proof. exact remove_vertices_all. Qed.
Print Assumptions C12_remove_vertices_all.

(* ------------------------------------------------------------------ trailing edges *)
(* clause "removing trailing edges yields the largest sub-lattice without degree-one vertices".  For
   every well-formed lattice: the while loop ends within the fuel nV+1 of the model (never OutOfFuel,
   never BadIndex); the result is the sub-lattice on an ascending list kv of kept vertices and an
   ascending list ke of kept edges (so order, positions, crossings, vectors are kept — see
   C12_sub_lattice_reading); the result has no vertex with exactly one incident edge; inside the input,
   the kept edge set has no degree-one vertex and CONTAINS EVERY set K of edges of the input in which no
   vertex has degree one (it is the greatest such set = the edges of the 2-core).  Degree = number of
   incident edges (deg_in), which is the graph degree when there are no self-loops. *)
Theorem C12_trailing_spec : forall (L : lattice), wf_lattice L = true ->
  exists kv ke,
    remove_trailing_edges L = TrailDone (sub_lattice L kv ke) /\
    trailing_survivors L = Some (kv, ke) /\
    valid_sub L kv ke /\ StronglySorted lt kv /\ StronglySorted lt ke /\
    (forall v, length (incident (sub_lattice L kv ke) v) <> 1) /\
    no_degree_one L (fun e => memb e ke) /\
    (forall K, ((forall e, K e = true -> e < nE L) /\ no_degree_one L K) ->
               forall e, K e = true -> In e ke).
Proof. exact trailing_spec. Qed.
Print Assumptions C12_trailing_spec.

(* quantifier "idempotence of trailing-edge removal" *)
Theorem C12_trailing_idempotent : forall (L L' : lattice), wf_lattice L = true ->
  remove_trailing_edges L = TrailDone L' -> remove_trailing_edges L' = TrailDone L'.
Proof. exact trailing_idempotent. Qed.
Print Assumptions C12_trailing_idempotent.

(* clause "trailing-edge removal creates no new plaquettes" is FALSE of the faithful model (and of the
   implementation: known finding trail:new-plaquette-from-face-with-dangling-tree): a triangle with a
   dangling edge inside has no plaquette (the inner face walk uses the dangling edge twice), its
   pruned version has one. *)
Definition C12_witness : lattice :=
  mkLattice 8 [(2, 2); (6, 2); (4, 6); (4, 3)]%Z [(0, 1); (1, 2); (2, 0); (0, 3)] [(0, 0); (0, 0); (0, 0); (0, 0)]%Z.
Theorem C12_trailing_no_new_plaquettes_refuted :
  exists L L' p, wf_lattice L = true /\ no_self_loops L = true /\
    find_all_plaquettes L = Some [] /\
    remove_trailing_edges L = TrailDone L' /\ find_all_plaquettes L' = Some [p].
Proof.
  exists C12_witness. eexists. eexists.
  split; [vm_compute; reflexivity|]. split; [vm_compute; reflexivity|].
  split; [vm_compute; reflexivity|]. split; vm_compute; reflexivity.
Qed.
Print Assumptions C12_trailing_no_new_plaquettes_refuted.

(* ------------------------------------------------------------------ relabelling *)
(* clause "permuting ... yields an isomorphic lattice with new position i equal to old position
   ordering[i] ..., identical edge order": for every well-formed lattice and every permutation `ord` of
   range(nV) (is_perm: length nV, duplicate-free, entries < nV) the result is L relabelled by
   ren = inv_of (nV L) ord, where ord[ren v] = v: same scale, same crossing list, edge i = (ren j, ren k)
   for old edge i = (j, k), position of ren v = old position of v, ren injective *)
Theorem C12_permute_spec : forall (L : lattice) (ord : list nat),
  wf_lattice L = true -> is_perm ord (nV L) ->
  exists L', permute_vertices L ord = Some L' /\
    relabelled L L' (inv_of (nV L) ord) /\
    (forall i, i < nV L -> pos_at L' i = pos_at L (nth i ord 0)) /\
    (forall v, v < nV L -> inv_of (nV L) ord v < nV L /\ nth (inv_of (nV L) ord v) ord 0 = v).
Proof. exact permute_spec. Qed.
Print Assumptions C12_permute_spec.

(* clause "... or reordering vertices ... (resp. permutation applied to indices)": the result is L
   relabelled by ren v = permutation[v] (np.argsort of a permutation is proved to be its inverse) *)
Theorem C12_reorder_spec : forall (L : lattice) (perm : list nat),
  wf_lattice L = true -> is_perm perm (nV L) ->
  exists L', reorder_vertices L perm = Some L' /\ relabelled L L' (fun v => nth v perm 0).
Proof. exact reorder_spec. Qed.
Print Assumptions C12_reorder_spec.

(* clause "identical ... edge vectors": for every relabelling, every edge index *)
Theorem C12_relabelled_vectors : forall (L L' : lattice) (ren : nat -> nat),
  wf_lattice L = true -> relabelled L L' ren -> forall e, evec L' e = evec L e.
Proof. exact relabelled_evec. Qed.
Print Assumptions C12_relabelled_vectors.

(* clause "identical ... plaquettes": the plaquette list of the relabelled lattice is the original list
   in the same order with the same edges, directions, centres, areas, winding numbers and with the
   vertices renamed (ren_plaq); the plaquette finder raises on one iff on the other.  Applies to
   permute_vertices and reorder_vertices through the two theorems above. *)
Theorem C12_plaquettes_equivariant : forall (L L' : lattice) (ren : nat -> nat),
  wf_lattice L = true -> relabelled L L' ren ->
  find_all_plaquettes L' = option_map (map (ren_plaq ren)) (find_all_plaquettes L).
Proof. exact plaquettes_equivariant. Qed.
Print Assumptions C12_plaquettes_equivariant.

Theorem C12_relabelled_wf : forall (L L' : lattice) (ren : nat -> nat),
  wf_lattice L = true -> relabelled L L' ren -> wf_lattice L' = true.
Proof. exact relabelled_wf. Qed.
Print Assumptions C12_relabelled_wf.

(* ------------------------------------------------------------------ non-vacuity *)
Example C12_wf_nonvacuous : wf_lattice C12_witness = true /\ is_perm [2; 0; 3; 1] (nV C12_witness) /\
  valid_sub C12_witness (kept_vertices C12_witness [3]) (kept_edges C12_witness [3]).
Proof.
  split; [vm_compute; reflexivity|]. split.
  - repeat split; [repeat constructor; simpl; intuition discriminate | vm_compute; intros x Hx; intuition (subst; repeat constructor)].
  - apply valid_sub_removed. vm_compute. reflexivity.
Qed.

Example C12_permute_nonvacuous :
  option_map pos (permute_vertices C12_witness [2; 0; 3; 1]) = Some [(4, 6); (2, 2); (4, 3); (6, 2)]%Z /\
  option_map edges (permute_vertices C12_witness [2; 0; 3; 1]) = Some [(1, 3); (3, 0); (0, 1); (1, 2)].
Proof. split; vm_compute; reflexivity. Qed.

(* ------------------------------------------------------------------ plaquettes persist *)
(* (appended; supersedes the header remark that persistence is only spec-checked.)
   Clause "in all three cases every plaquette of the input none of whose edges was removed is a plaquette
   of the output with the same geometry".  Proofs: Proofs/SurgeryPersist{Lists,Geom,}.v.

   Hypotheses: `good L` (indices in range, one crossing per edge, positive scale, no self-loops — C01's
   input space) and `no_zero_vectors L = true` (no edge has the zero vector, i.e. no two distinct vertices
   at the same place joined by a non-crossing edge).  The second one is the genericity that makes the
   comparator ang_lt of the rotation system a strict weak order (exactly: co-transitive through a
   non-zero vector, SurgeryPersistLists.ang_lt_cotrans), so that the stable insertion sort of a filtered
   row is the filtered sort (sort_desc_filter); ties (parallel edges leaving in the same direction) are
   allowed because the kept edge list is ascending.

   Conclusion `persists_as L L' re rv p p' k` (Proofs/SurgeryPersist.v) says, for p' in the output's list:
     k < n_sides p';  the cycle of p' rotated left by k places (rotk k) is the cycle of p renamed:
     rotk k (p_edges p') = map re (p_edges p), rotk k (p_verts p') = map rv (p_verts p),
     rotk k (p_dirs p') = p_dirs p, and the directed edge vectors agree place by place
     (rotk k (plaq_vectors L' p') = plaq_vectors L p);  n_sides, p_winding and p_area2 are equal;
     p_cnum p = p_cnum p' + 3 * p_area2 p' * scale * t for an integer vector t, i.e. the centre
     p_cnum/(3 p_area2) is the same up to the lattice translation scale*t (the periodic image in which the
     polygon is drawn is fixed by the start vertex; the sweep of the output may start the same cycle at
     another dart).  re = rank in the ascending list of kept edge ids, rv = rank among kept vertices
     (identity for cut_boundaries).
   NOT covered: "cutting creates no new plaquettes" (still spec-checked only). *)
From Koala Require Import Proofs.LatticeFacts Proofs.SurgeryPersistLists Proofs.SurgeryPersist.

(* the general form: sub-lattice on any duplicate-free vertex list kv and any ascending edge list ke *)
Theorem C12_plaquette_persists_sub : forall (L : lattice) (kv ke : list nat) (ps : list plaquette) (p : plaquette),
  good L -> no_zero_vectors L = true -> valid_sub L kv ke -> StronglySorted lt ke ->
  find_all_plaquettes L = Some ps -> In p ps -> (forall e, In e (p_edges p) -> In e ke) ->
  exists ps' p' k,
    find_all_plaquettes (sub_lattice L kv ke) = Some ps' /\ In p' ps' /\
    persists_as L (sub_lattice L kv ke) (rank ke) (rank kv) p p' k.
Proof. exact plaquette_persists_sub. Qed.
Print Assumptions C12_plaquette_persists_sub.

(* Lattice(vertices, edges[idx], crossing[idx]) for an ascending duplicate-free index list idx (what
   cut_boundaries builds): positions unchanged, vertices not renumbered, edge e -> rank idx e *)
Theorem C12_plaquette_persists_select : forall (L : lattice) (idx : list nat) (ps : list plaquette) (p : plaquette),
  good L -> no_zero_vectors L = true -> StronglySorted lt idx -> (forall e, In e idx -> e < nE L) ->
  find_all_plaquettes L = Some ps -> In p ps -> (forall e, In e (p_edges p) -> In e idx) ->
  exists ps' p' k,
    find_all_plaquettes (select_edges L idx) = Some ps' /\ In p' ps' /\
    persists_as L (select_edges L idx) (rank idx) (fun v => v) p p' k.
Proof. exact plaquette_persists_select. Qed.
Print Assumptions C12_plaquette_persists_select.

(* cut_boundaries: every plaquette none of whose edges crosses a selected boundary *)
Theorem C12_plaquette_persists_cut : forall (L : lattice) (bx by_ : bool) (ps : list plaquette) (p : plaquette),
  good L -> no_zero_vectors L = true -> find_all_plaquettes L = Some ps -> In p ps ->
  (forall e, In e (p_edges p) -> crosses_selected bx by_ (cross_at L e) = false) ->
  exists ps' p' k,
    find_all_plaquettes (cut_boundaries L bx by_) = Some ps' /\ In p' ps' /\
    persists_as L (cut_boundaries L bx by_) (rank (cut_kept L bx by_)) (fun v => v) p p' k.
Proof. exact plaquette_persists_cut. Qed.
Print Assumptions C12_plaquette_persists_cut.

(* remove_vertices: every plaquette none of whose edges is in the reported list of removed edges *)
Theorem C12_plaquette_persists_remove_vertices :
  forall (L : lattice) (idx : list nat) (L' : lattice) (rep : list nat) (ps : list plaquette) (p : plaquette),
  good L -> no_zero_vectors L = true -> Forall (fun i => i < nV L) idx ->
  remove_vertices L idx = Some (L', rep) ->
  find_all_plaquettes L = Some ps -> In p ps -> (forall e, In e (p_edges p) -> ~ In e rep) ->
  exists ps' p' k,
    find_all_plaquettes L' = Some ps' /\ In p' ps' /\
    persists_as L L' (rank (kept_edges L idx)) (rank (kept_vertices L idx)) p p' k.
Proof. exact plaquette_persists_remove_vertices. Qed.
Print Assumptions C12_plaquette_persists_remove_vertices.

(* remove_trailing_edges: EVERY plaquette of the input survives: none of its edges is removed (the edges of
   a plaquette form a set without degree-one vertex, hence lie in the kept set by C12_trailing_spec) and it
   is a plaquette of the pruned lattice.  (kv, ke) are the surviving original vertex / edge ids. *)
Theorem C12_plaquette_persists_trailing : forall (L : lattice) (ps : list plaquette) (p : plaquette),
  good L -> no_zero_vectors L = true -> find_all_plaquettes L = Some ps -> In p ps ->
  exists kv ke ps' p' k,
    remove_trailing_edges L = TrailDone (sub_lattice L kv ke) /\ trailing_survivors L = Some (kv, ke) /\
    (forall e, In e (p_edges p) -> In e ke) /\
    find_all_plaquettes (sub_lattice L kv ke) = Some ps' /\ In p' ps' /\
    persists_as L (sub_lattice L kv ke) (rank ke) (rank kv) p p' k.
Proof. exact plaquette_persists_trailing. Qed.
Print Assumptions C12_plaquette_persists_trailing.

(* the comparator fact behind the genericity hypothesis *)
Theorem C12_ang_lt_cotransitive : forall y w x : vec,
  w <> vzero -> ang_lt y x = true -> ang_lt y w = false -> ang_lt w x = true.
Proof. exact ang_lt_cotrans. Qed.
Print Assumptions C12_ang_lt_cotransitive.

(* non-vacuity: a unit square with a diagonal and one boundary-crossing edge (id 1).  Both triangles are
   plaquettes; none of their edges crosses the x boundary; cutting x removes edge 1, renumbers edges
   2..5 to 1..4 and the two triangles are the plaquettes of the output (here with k = 0); removing vertex 3
   reports edges 1,3,4 and keeps the first triangle *)
Definition C12_persist_witness : lattice :=
  mkLattice 8 [(0, 0); (4, 0); (4, 4); (0, 4)]%Z [(0, 1); (1, 3); (1, 2); (2, 3); (3, 0); (0, 2)]
            [(0, 0); (1, 0); (0, 0); (0, 0); (0, 0); (0, 0)]%Z.
Example C12_plaquette_persists_nonvacuous :
  let L := C12_persist_witness in
  good L /\ no_zero_vectors L = true /\
  (exists p q, find_all_plaquettes L = Some [p; q] /\ p_edges p = [0; 2; 5] /\ p_edges q = [3; 4; 5] /\
     (forall e, In e (p_edges p ++ p_edges q) -> crosses_selected true false (cross_at L e) = false) /\
     cut_kept L true false = [0; 2; 3; 4; 5] /\
     (exists p' q', find_all_plaquettes (cut_boundaries L true false) = Some [p'; q'] /\
        persists_as L (cut_boundaries L true false) (rank (cut_kept L true false)) (fun v => v) p p' 0 /\
        p_edges p' = [0; 1; 4] /\ p_edges q' = [2; 3; 4]) /\
     (exists L' , remove_vertices L [3] = Some (L', [1; 3; 4]) /\
        (forall e, In e (p_edges p) -> ~ In e [1; 3; 4]) /\ length (edges L') = 3)).
Proof.
  cbv zeta. split; [split; vm_compute; reflexivity|]. split; [vm_compute; reflexivity|].
  eexists. eexists. split; [vm_compute; reflexivity|]. cbn [p_edges].
  split; [reflexivity|]. split; [reflexivity|].
  split; [intros e He; cbn in He; repeat (destruct He as [<-|He]; [vm_compute; reflexivity|]); destruct He|].
  split; [vm_compute; reflexivity|]. split.
  - eexists. eexists. split; [vm_compute; reflexivity|]. split; [|split; reflexivity].
    unfold persists_as. repeat split; try (vm_compute; reflexivity).
    + apply Nat.ltb_lt. vm_compute. reflexivity.
    + exists (0, 0)%Z. vm_compute. reflexivity.
  - eexists. split; [vm_compute; reflexivity|]. split; [|vm_compute; reflexivity].
    intros e He Hr. cbn in He, Hr. repeat (destruct He as [<-|He]; [repeat (destruct Hr as [Hr|Hr]; [discriminate|]); destruct Hr|]).
    destruct He.
Qed.

(* the genericity hypothesis cannot be dropped for the MODEL: with a zero-length edge (vertices 0 and 1 at the
   same place, joined by edge 2) the model's comparator treats the zero vector as tied with every vector of
   its half-plane, and deleting the dangling edge 0 reorders the row of vertex 0 ([5;0;2;1] becomes, in old
   ids, [2;5;1]): the only plaquette (edges 1,5,4, none removed, not even touching the zero edge) is lost.
   (In the implementation the zero vector has the numeric key alpha = 0, so its argsort is consistent; the
   model is not faithful on such degenerate inputs, which the generators never produce.) *)
Definition C12_zero_edge_witness : lattice :=
  mkLattice 1 [(-1, -2); (-1, -2); (2, -1); (-2, -2); (2, 1)]%Z [(2, 0); (3, 0); (0, 1); (1, 4); (3, 4); (4, 0)]
            [(0, 0); (0, 0); (0, 0); (0, 0); (0, 0); (0, 0)]%Z.
Theorem C12_plaquette_persists_needs_no_zero_vectors :
  exists L idx ps p,
    good L /\ no_zero_vectors L = false /\ StronglySorted lt idx /\ (forall e, In e idx -> e < nE L) /\
    find_all_plaquettes L = Some ps /\ In p ps /\ (forall e, In e (p_edges p) -> In e idx) /\
    find_all_plaquettes (select_edges L idx) = Some [].
Proof.
  exists C12_zero_edge_witness, [1; 2; 3; 4; 5]. eexists. eexists.
  split; [split; vm_compute; reflexivity|]. split; [vm_compute; reflexivity|].
  split; [repeat constructor|].
  split; [intros e He; cbn in He; repeat (destruct He as [<-|He]; [vm_compute; repeat constructor|]); destruct He|].
  split; [vm_compute; reflexivity|]. split; [left; reflexivity|].
  split; [|vm_compute; reflexivity].
  intros e He. cbn in He. destruct He as [<-|[<-|[<-|[]]]]; cbn; auto 10.
Qed.
Print Assumptions C12_plaquette_persists_needs_no_zero_vectors.
