(* C15 — no koala operation modifies the lattice or arrays passed to it; results do not depend
   on earlier calls.

   Formal object: the effect IR of Model/Effects.v, its concrete store semantics [exec]
   (abstract locations; Write changes the contents of the locations a value OWNS; View / Box /
   Alias / Extend relate own and reach sets; Seq is prefix-closed = exceptions, return, break)
   and the abstract may-alias/may-write analysis [no_arg_write].  Gen/EffectsIR.v is the IR of
   today's koala source (translate/effects_ir.py; the Python -> IR step and its
   View/Fresh/Write table are the trusted part, validated by the dynamic run of harness/c15.py).

   NOT covered by a theorem: that the IR over-approximates Python's aliasing (trusted table);
   numerical determinism of a call given unchanged inputs (observed by S only). *)
From Coq Require Import List Bool Arith Lia.
Import ListNotations.
From Koala Require Import Model.Effects Gen.EffectsIR Proofs.EffectsFacts Proofs.EffectsKoala.

(* ★ analysis_sound — clause "leaves them bit-for-bit unchanged": if the analysis accepts f with
   every formal tainted then in EVERY execution of f's body every location owned by or reachable
   from the actual arguments at entry holds the same contents at exit.  Unbounded: all programs,
   all executions (any branch, any number of loop iterations, any call depth, any aliasing
   between the arguments). *)
Theorem C15_analysis_sound : forall p f fd argvals st0 st',
  no_arg_write p f = true ->
  nth_error p f = Some fd ->
  length argvals = f_nparams fd ->
  (forall x, env st0 x = call_env (f_nparams fd) argvals x) ->
  (forall l, In l (flat_map (fun v => own v ++ reach v) argvals) -> l < next st0) ->
  exec p (f_body fd) st0 st' ->
  forall l, In l (flat_map (fun v => own v ++ reach v) argvals) -> heap st' l = heap st0 l.
Proof. exact analysis_sound. Qed.
Print Assumptions C15_analysis_sound.

(* the same with a taint mask: formals outside the mask (the output sink `ax`, the `self` under
   construction in __init__) may be written, provided they share no location with the tainted ones *)
Theorem C15_analysis_sound_mask : forall p f mask fd argvals st0 st',
  no_arg_write_mask p f mask = true ->
  nth_error p f = Some fd ->
  (forall x, env st0 x = call_env (f_nparams fd) argvals x) ->
  separated (args_locs mask argvals) mask argvals ->
  (forall l, In l (args_locs mask argvals) -> l < next st0) ->
  exec p (f_body fd) st0 st' ->
  forall l, In l (args_locs mask argvals) -> heap st' l = heap st0 l.
Proof. exact analysis_sound_mask. Qed.
Print Assumptions C15_analysis_sound_mask.

(* ★ koala_pure — the analysis accepts every public function (68 entries) of lattice, graph_utils,
   graph_color, flux_finder, pathfinding, hamiltonian, phase_space, chern_number, voronization,
   plotting in the IR regenerated from today's source; all formals and the module state tainted,
   except sinks.  Bounded only by "today's source" (kernel vm_compute on the generated file). *)
Theorem C15_koala_pure : forallb (no_arg_write_entry prog) public_functions = true.
Proof. exact koala_public_pure. Qed.
Print Assumptions C15_koala_pure.

(* the remaining modules (pointsets, phase_diagrams, quasicrystals, example_graphs) *)
Theorem C15_koala_extra_pure : forallb (no_arg_write_entry prog) public_extra = true.
Proof. exact koala_extra_pure. Qed.
Print Assumptions C15_koala_extra_pure.

(* koala's closures that are passed around as values (A* heuristics / adjacency, the Bloch
   Hamiltonian closure, callbacks) write nothing they are given or have captured: this is what
   justifies treating calls of callable arguments as effect-free in the translator *)
Theorem C15_koala_closures_pure : forallb (no_arg_write_entry prog) escaping_functions = true.
Proof. exact koala_escaping_pure. Qed.
Print Assumptions C15_koala_closures_pure.

(* corollary history_independent — clause "the result does not depend on which other operations
   were called before on the same objects": the universal client (a loop that calls ANY public
   function, any number of times, in any order, on objects that may alias any shared object,
   feeding results back) leaves every location that existed before it started unchanged; a later
   operation therefore reads exactly the store it would have read on fresh copies. *)
Theorem C15_history_independent : forall st st',
  (forall x, client_nvars <= x -> env st x = empty_val) ->
  exec prog koala_client st st' ->
  forall l, l < next st -> heap st' l = heap st l.
Proof.
  intros st st' Hemp Hex. destruct koala_client_accepted as [a' Ha].
  exact (client_sound prog koala_client client_nvars st st' a' Hemp Ha Hex).
Qed.
Print Assumptions C15_history_independent.

(* ---- non-vacuity: the semantics does express mutation, and an accepted function may write *)
Definition demo_prog : program :=
  [ Fun 1 (Seq (Bind 9 Fresh) (Seq (Write 9) (Bind 0 (Alias 9))));     (* y = x.copy(); y[0] = 1; return y *)
    Fun 1 (Write 8) ].                                                 (* x[0] = 1 *)
Definition demo_st0 : cstate := CS (call_env 1 [CV [0] [0]]) (fun _ => 0) 1.

Example C15_analysis_sound_nonvacuous :
  no_arg_write demo_prog 0 = true /\
  exists st', exec demo_prog (Seq (Bind 9 Fresh) (Seq (Write 9) (Bind 0 (Alias 9)))) demo_st0 st' /\
              heap st' 1 = 7 /\ heap st' 0 = heap demo_st0 0.
Proof.
  split; [vm_compute; reflexivity|].
  eexists. split.
  - eapply E_Seq.
    + apply (E_Bind demo_prog 9 Fresh demo_st0 (CV [1] [1]) (fun _ => 0)).
      * split; simpl; intros l H; exact H.
      * intros; reflexivity.
    + eapply E_Seq.
      * apply (E_Write demo_prog 9 _ (fun l => if Nat.eqb l 1 then 7 else 0)).
        simpl. intros l H. destruct (Nat.eqb l 1) eqn:E; [|reflexivity].
        apply Nat.eqb_eq in E. exfalso. apply H. left. symmetry. exact E.
      * apply (E_Bind demo_prog 0 (Alias 9) _ (CV [1] [1]) (fun l => if Nat.eqb l 1 then 7 else 0)).
        -- split; simpl; intros l H; exact H.
        -- intros; reflexivity.
  - split; reflexivity.
Qed.

Example C15_semantics_expresses_mutation_nonvacuous :
  no_arg_write demo_prog 1 = false /\
  exists st', exec demo_prog (Write 8) demo_st0 st' /\ heap st' 0 <> heap demo_st0 0.
Proof.
  split; [vm_compute; reflexivity|].
  exists (CS (env demo_st0) (fun l => if Nat.eqb l 0 then 5 else 0) 1). split.
  - apply (E_Write demo_prog 8 demo_st0 (fun l => if Nat.eqb l 0 then 5 else 0)).
    simpl. intros l H. destruct (Nat.eqb l 0) eqn:E; [|reflexivity].
    apply Nat.eqb_eq in E. exfalso. apply H. left. symmetry. exact E.
  - simpl. discriminate.
Qed.
