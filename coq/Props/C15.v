(* C15 — no koala operation modifies the lattice or arrays passed to it; results do not depend
   on earlier calls.

   Formal object: the effect IR of Model/Effects.v, its concrete store semantics [exec]
   (abstract locations; Write changes the contents of the locations a value OWNS; View / Box /
   Alias / Extend relate own and reach sets; Seq is prefix-closed = exceptions, return, break;
   CallDyn = call of a run-time callable: ANY koala function that is ever used as a first-class
   value, on ARBITRARY argument values, or a foreign effect-free callable returning anything)
   and the abstract may-alias/may-write analysis [no_arg_write].  Gen/EffectsIR.v is the IR of
   today's koala source (translate/effects_ir.py; the Python -> IR step and its
   View/Fresh/Write table are the trusted part, validated by the dynamic run of harness/c15.py).

   NOT covered by a theorem: that the IR over-approximates Python's aliasing (trusted table);
   numerical determinism of a call given unchanged inputs (observed by S only). *)
From Coq Require Import List Bool Arith Lia.
Import ListNotations.
From Koala Require Import Model.Effects Gen.EffectsIR Proofs.EffectsFacts Proofs.EffectsKoala Proofs.EffectsMono.

(* ★ analysis_sound — clause "leaves them bit-for-bit unchanged": if the analysis accepts f with
   every formal tainted then in EVERY execution of f's body every location owned by or reachable
   from the actual arguments at entry holds the same contents at exit.  Unbounded: all programs,
   all executions (any branch, any number of loop iterations, any call depth, any aliasing
   between the arguments). *)
Theorem C15_analysis_sound : forall p f fd argvals st0 st',
  no_arg_write p f = true ->
  nth_error p f = Some fd ->
  length argvals = f_nparams fd ->
  (forall x, env st0 x = call_env (f_nparams fd) argvals x) ->
  (forall l, In l (flat_map (fun v => own v ++ reach v) argvals) -> l < next st0) ->
  exec p (f_body fd) st0 st' ->
  forall l, In l (flat_map (fun v => own v ++ reach v) argvals) -> heap st' l = heap st0 l.
Proof. exact analysis_sound. Qed.
Print Assumptions C15_analysis_sound.

(* the same with a taint mask: formals outside the mask (the output sink `ax`, the `self` under
   construction in __init__) may be written, provided they share no location with the tainted ones *)
Theorem C15_analysis_sound_mask : forall p f mask fd argvals st0 st',
  no_arg_write_mask p f mask = true ->
  nth_error p f = Some fd ->
  (forall x, env st0 x = call_env (f_nparams fd) argvals x) ->
  separated (args_locs mask argvals) mask argvals ->
  (forall l, In l (args_locs mask argvals) -> l < next st0) ->
  exec p (f_body fd) st0 st' ->
  forall l, In l (args_locs mask argvals) -> heap st' l = heap st0 l.
Proof. exact analysis_sound_mask. Qed.
Print Assumptions C15_analysis_sound_mask.

(* ★ koala_pure — the analysis accepts every public function (68 entries) of lattice, graph_utils,
   graph_color, flux_finder, pathfinding, hamiltonian, phase_space, chern_number, voronization,
   plotting in the IR regenerated from today's source; all formals and the module state tainted,
   except sinks.  Bounded only by "today's source" (kernel vm_compute on the generated file). *)
Theorem C15_koala_pure : forallb (no_arg_write_entry prog) public_functions = true.
Proof. exact koala_public_pure. Qed.
Print Assumptions C15_koala_pure.

(* the remaining modules (pointsets, phase_diagrams, quasicrystals, example_graphs) *)
Theorem C15_koala_extra_pure : forallb (no_arg_write_entry prog) public_extra = true.
Proof. exact koala_extra_pure. Qed.
Print Assumptions C15_koala_extra_pure.

(* koala's closures that are passed around as values (A* heuristics / adjacency, the Bloch
   Hamiltonian closure, callbacks) write nothing they are given or have captured: this is what
   justifies treating calls of callable arguments as effect-free in the translator *)
Theorem C15_koala_closures_pure : forallb (no_arg_write_entry prog) escaping_functions = true.
Proof. exact koala_escaping_pure. Qed.
Print Assumptions C15_koala_closures_pure.

(* corollary history_independent — clause "the result does not depend on which other operations
   were called before on the same objects": the universal client (a loop that calls ANY public
   function, any number of times, in any order, on objects that may alias any shared object,
   feeding results back) leaves every location that existed before it started unchanged; a later
   operation therefore reads exactly the store it would have read on fresh copies. *)
Theorem C15_history_independent : forall st st',
  (forall x, client_nvars <= x -> env st x = empty_val) ->
  exec prog koala_client st st' ->
  forall l, l < next st -> heap st' l = heap st l.
Proof.
  intros st st' Hemp Hex. destruct koala_client_accepted as [a' Ha].
  exact (client_sound prog koala_client client_nvars st st' a' Hemp Ha Hex).
Qed.
Print Assumptions C15_history_independent.

(* ---- end-to-end: analysis_sound instantiated with koala_pure.  For EVERY entry (f, mask) of the
   generated list of public functions, for all argument values, all stores and all executions of f's IR
   body: every location owned by / reachable from the tainted arguments is unchanged at exit.
   [pure_on_args] (Proofs/EffectsKoala.v) is exactly the conclusion of C15_analysis_sound_mask for prog. *)
Theorem C15_each_public_function_pure : forall e, In e public_functions ->
  forall fd argvals st0 st',
    nth_error prog (fst e) = Some fd ->
    (forall x, env st0 x = call_env (f_nparams fd) argvals x) ->
    separated (args_locs (snd e) argvals) (snd e) argvals ->
    (forall l, In l (args_locs (snd e) argvals) -> l < next st0) ->
    exec prog (f_body fd) st0 st' ->
    forall l, In l (args_locs (snd e) argvals) -> heap st' l = heap st0 l.
Proof. exact koala_public_each_pure. Qed.
Print Assumptions C15_each_public_function_pure.

(* public functions without an output sink (mask all true): no side condition at all — whatever the
   aliasing between the arguments, every location reachable from ANY argument is unchanged *)
Theorem C15_each_public_function_pure_all_args : forall e, In e public_functions ->
  forallb (fun b : bool => b) (snd e) = true ->
  forall fd argvals st0 st',
    nth_error prog (fst e) = Some fd ->
    length argvals = f_nparams fd ->
    (forall x, env st0 x = call_env (f_nparams fd) argvals x) ->
    (forall l, In l (flat_map (fun v => own v ++ reach v) argvals) -> l < next st0) ->
    exec prog (f_body fd) st0 st' ->
    forall l, In l (flat_map (fun v => own v ++ reach v) argvals) -> heap st' l = heap st0 l.
Proof. exact koala_public_each_pure_all_args. Qed.
Print Assumptions C15_each_public_function_pure_all_args.

Theorem C15_each_extra_function_pure : forall e, In e public_extra -> pure_on_args (fst e) (snd e).
Proof. exact koala_extra_each_pure. Qed.
Print Assumptions C15_each_extra_function_pure.

Theorem C15_each_closure_pure : forall e, In e escaping_functions -> pure_on_args (fst e) (snd e).
Proof. exact koala_escaping_each_pure. Qed.
Print Assumptions C15_each_closure_pure.

(* the three generated lists are well formed (each entry names an IR function, one mask bit per formal):
   the hypothesis [nth_error prog (fst e) = Some fd] above is satisfiable for every entry *)
Theorem C15_entries_wellformed :
  forallb entry_wf public_functions && forallb entry_wf public_extra && forallb entry_wf escaping_functions = true.
Proof. exact koala_entries_wf. Qed.
Print Assumptions C15_entries_wellformed.

(* the same, spelled out for the operations the property's statement names: for each qualified name in
   [named_operations] (fluxes_from_bonds, find_flux_sector, majorana_hamiltonian, make_dual, cut_boundaries,
   plot_edges, ... 37 in all) the generated tables contain an entry e = (IR index, taint mask) and
   [pure_on_args (fst e) (snd e)]: for all argument values, stores and executions of that function's IR body,
   every location owned by / reachable from its (non-sink) arguments is unchanged.  Names are resolved through
   the generated table [fnames] by vm_compute, so a renamed or removed operation breaks this theorem. *)
Theorem C15_named_operations_pure : Forall named_pure named_operations.
Proof. exact koala_named_operations_pure. Qed.
Print Assumptions C15_named_operations_pure.

(* ---- meta-theory of the analysis (Proofs/EffectsMono.v) *)
(* fuel: once the analysis accepts, every larger loop fuel / call-depth fuel gives the SAME answer *)
Theorem C15_fuel_stable : forall p dynok lf d f avs r,
  afun p dynok lf d f avs = Some r ->
  forall lf' d', lf <= lf' -> d <= d' -> afun p dynok lf' d' f avs = Some r.
Proof. exact afun_fuel_stable. Qed.
Print Assumptions C15_fuel_stable.

(* ... and less fuel can only fail closed (reject), never give a different answer *)
Theorem C15_fuel_fail_closed : forall p dynok lf d lf' d' f avs,
  lf <= lf' -> d <= d' ->
  afun p dynok lf d f avs = None \/ afun p dynok lf d f avs = afun p dynok lf' d' f avs.
Proof. exact afun_fuel_fail_closed. Qed.
Print Assumptions C15_fuel_fail_closed.

(* instance: koala's verdicts (C15_koala_pure, _extra_, _closures_) hold for every loop fuel >= 64 and every
   call-depth fuel >= |prog|+1, with the same abstract answers: the constants are not tuned to the result *)
Theorem C15_koala_pure_any_larger_fuel : forall lf d, LOOP_FUEL <= lf -> S (length prog) <= d ->
  forall e, In e (public_functions ++ public_extra ++ escaping_functions) ->
    verdict_with_fuel prog lf d (fst e) (snd e) = true.
Proof. exact koala_pure_any_larger_fuel. Qed.
Print Assumptions C15_koala_pure_any_larger_fuel.

(* soundness holds for ANY pair of fuels with which the analysis accepts (the constants 64 and |p|+1 of
   no_arg_write_mask are not part of the trusted base) *)
Theorem C15_analysis_sound_any_fuel : forall p lf d f mask fd argvals st0 st',
  verdict_with_fuel p lf d f mask = true ->
  nth_error p f = Some fd ->
  (forall x, env st0 x = call_env (f_nparams fd) argvals x) ->
  separated (args_locs mask argvals) mask argvals ->
  (forall l, In l (args_locs mask argvals) -> l < next st0) ->
  exec p (f_body fd) st0 st' ->
  forall l, In l (args_locs mask argvals) -> heap st' l = heap st0 l.
Proof. exact analysis_sound_any_fuel. Qed.
Print Assumptions C15_analysis_sound_any_fuel.

(* monotone in the abstract state: accepted from argument values avs_b => for every sufficiently large
   loop fuel accepted from all pointwise smaller argument values, with a pointwise smaller answer *)
Theorem C15_analysis_monotone : forall p dynok d lfb f avs_b rb, afun p dynok lfb d f avs_b = Some rb ->
  exists N, forall lfa, N <= lfa -> forall avs_a, avs_le avs_a avs_b ->
    exists ra, afun p dynok lfa d f avs_a = Some ra /\ ple ra rb.
Proof. exact afun_mono. Qed.
Print Assumptions C15_analysis_monotone.

Theorem C15_verdict_mask_monotone : forall p lf d f mb,
  verdict_with_fuel p lf d f mb = true ->
  exists N, forall lf', N <= lf' -> forall ma, mask_le ma mb -> verdict_with_fuel p lf' d f ma = true.
Proof. exact verdict_mask_monotone. Qed.
Print Assumptions C15_verdict_mask_monotone.

(* the quantifier over the fuel is necessary: with the same loop fuel monotonicity in the state is false *)
Theorem C15_same_fuel_monotonicity_refuted :
  mask_le [true; false] [true; true] /\
  verdict_with_fuel mono_cex_prog 0 1 0 [true; true] = true /\
  verdict_with_fuel mono_cex_prog 0 1 0 [true; false] = false /\
  verdict_with_fuel mono_cex_prog 1 1 0 [true; false] = true.
Proof. exact same_fuel_monotonicity_refuted. Qed.
Print Assumptions C15_same_fuel_monotonicity_refuted.

Example C15_verdict_mask_monotone_nonvacuous :
  verdict_with_fuel mono_cex_prog LOOP_FUEL 1 0 [true; true] = true /\
  forall lf', 1 <= lf' -> verdict_with_fuel mono_cex_prog lf' 1 0 [true; false] = true.
Proof. exact verdict_mask_monotone_nonvacuous. Qed.

(* ---- run-time callables (CallDyn).  The candidate callees of koala's run-time callables (every koala
   function / closure used as a first-class value: A* heuristics and adjacency closures, the Bloch
   Hamiltonian closure, distance functions, the phase-diagram computation) have all been verified with
   every formal and every captured variable tainted, so [dyn_ok prog] is the membership test of that
   set and not the fail-closed constant false; the theorems above (C15_koala_pure, C15_each_...,
   C15_history_independent) therefore cover executions in which a run-time callable IS any of these
   closures applied to anything. *)
Theorem C15_koala_dyn_targets_verified :
  prog_targets prog <> [] /\
  forallb (target_verified prog (prog_targets prog)) (prog_targets prog) = true.
Proof. exact koala_dyn_targets_verified. Qed.
Print Assumptions C15_koala_dyn_targets_verified.

(* ---- non-vacuity: the semantics does express mutation, and an accepted function may write *)
Definition demo_prog : program :=
  [ Fun 1 (Seq (Bind 9 Fresh) (Seq (Write 9) (Bind 0 (Alias 9))));     (* y = x.copy(); y[0] = 1; return y *)
    Fun 1 (Write 8) ].                                                 (* x[0] = 1 *)
Definition demo_st0 : cstate := CS (call_env 1 [CV [0] [0]]) (fun _ => 0) 1.

Example C15_analysis_sound_nonvacuous :
  no_arg_write demo_prog 0 = true /\
  exists st', exec demo_prog (Seq (Bind 9 Fresh) (Seq (Write 9) (Bind 0 (Alias 9)))) demo_st0 st' /\
              heap st' 1 = 7 /\ heap st' 0 = heap demo_st0 0.
Proof.
  split; [vm_compute; reflexivity|].
  eexists. split.
  - eapply E_Seq.
    + apply (E_Bind demo_prog 9 Fresh demo_st0 (CV [1] [1]) (fun _ => 0)).
      * split; simpl; intros l H; exact H.
      * intros; reflexivity.
    + eapply E_Seq.
      * apply (E_Write demo_prog 9 _ (fun l => if Nat.eqb l 1 then 7 else 0)).
        simpl. intros l H. destruct (Nat.eqb l 1) eqn:E; [|reflexivity].
        apply Nat.eqb_eq in E. exfalso. apply H. left. symmetry. exact E.
      * apply (E_Bind demo_prog 0 (Alias 9) _ (CV [1] [1]) (fun l => if Nat.eqb l 1 then 7 else 0)).
        -- split; simpl; intros l H; exact H.
        -- intros; reflexivity.
  - split; reflexivity.
Qed.

Example C15_semantics_expresses_mutation_nonvacuous :
  no_arg_write demo_prog 1 = false /\
  exists st', exec demo_prog (Write 8) demo_st0 st' /\ heap st' 0 <> heap demo_st0 0.
Proof.
  split; [vm_compute; reflexivity|].
  exists (CS (env demo_st0) (fun l => if Nat.eqb l 0 then 5 else 0) 1). split.
  - apply (E_Write demo_prog 8 demo_st0 (fun l => if Nat.eqb l 0 then 5 else 0)).
    simpl. intros l H. destruct (Nat.eqb l 0) eqn:E; [|reflexivity].
    apply Nat.eqb_eq in E. exfalso. apply H. left. symmetry. exact E.
  - simpl. discriminate.
Qed.

(* CallDyn: a run-time callable whose candidate callee writes its formal is rejected (fail closed), and the
   semantics does contain the execution in which the caller's argument is mutated through it *)
Definition dyn_demo_prog : program :=
  [ Fun 1 (CallDyn [9] [1] [8]);      (* def f(x): return h(x)   with h possibly g *)
    Fun 1 (Write 8) ].                 (* def g(x): x[0] = 1 *)
Definition dyn_demo_ok : program :=
  [ Fun 1 (CallDyn [9] [1] [8]);
    Fun 1 (Seq (Bind 9 Fresh) (Seq (Write 9) (Bind 0 (Alias 9)))) ].

Example C15_calldyn_nonvacuous :
  no_arg_write dyn_demo_prog 0 = false /\ no_arg_write dyn_demo_ok 0 = true /\
  exists st', exec dyn_demo_prog (CallDyn [9] [1] [8]) demo_st0 st' /\ heap st' 0 <> heap demo_st0 0.
Proof.
  split; [vm_compute; reflexivity|]. split; [vm_compute; reflexivity|].
  exists (CS (upd_list (env demo_st0) [9] [empty_val]) (fun l => if Nat.eqb l 0 then 5 else 0) 1). split.
  - apply (E_CallDyn dyn_demo_prog [9] [1] [8] 1 (Fun 1 (Write 8)) demo_st0
             (CS (call_env 1 [CV [0] [0]]) (fun l => if Nat.eqb l 0 then 5 else 0) 1) [CV [0] [0]] [empty_val]).
    + left; reflexivity.
    + reflexivity.
    + simpl.
      apply (E_Write dyn_demo_prog 8 (CS (call_env 1 [CV [0] [0]]) (fun _ => 0) 1) (fun l => if Nat.eqb l 0 then 5 else 0)).
      simpl. intros l H. destruct (Nat.eqb l 0) eqn:E; [|reflexivity].
      apply Nat.eqb_eq in E. exfalso. apply H. left. symmetry. exact E.
    + constructor; [|constructor]. split; intros l H; inversion H.
  - simpl. discriminate.
Qed.
