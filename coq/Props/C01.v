(* Props/C01.v — property C01: plaquettes are exactly the legitimate faces of the embedded graph.
   Only statements; every proof is `exact <lemma of Proofs/LatticeFacts.v>`.

   Model: coq/Model/Lattice.v (lattice.py on exact dyadic coordinates).  `good L` = indices in range,
   one crossing per edge, positive scale, no self-loops (the property's "any lattice without self-loops").
   nd L = next_dart L (adj_table L): the "arrive at the head, take the next edge clockwise" successor of a
   directed edge; its orbits are the faces of the embedding given by the rotation system (geometry fact G2).

   NOT proved here (DESIGN section 2): that the coded orientation filter `winding = -1` is the same as
   "positive area" (Hopf's Umlaufsatz, G1 — compared on every generated input by the harness), and the float
   arithmetic of arctan2 / the centroid division (tied by the correspondence run). *)
From Coq Require Import List ZArith Bool Arith Permutation.
From Koala Require Import Model.Lattice Proofs.LatticeFacts.
Import ListNotations.

(* the rotation system at every vertex lists each incident edge exactly once *)
Theorem C01_rotation_system_complete : forall L v,
  Permutation (sorted_adj L v) (incident L v) /\ NoDup (sorted_adj L v).
Proof. exact (fun L v => conj (sorted_adj_perm L v) (sorted_adj_NoDup L v)). Qed.
Print Assumptions C01_rotation_system_complete.

(* the boundary-walk successor is injective on directed edges: no two directed edges continue into the same one *)
Theorem C01_next_dart_injective : forall L d1 d2 d',
  good L -> valid_dart L d1 -> valid_dart L d2 ->
  nd L d1 = Some d' -> nd L d2 = Some d' -> d1 = d2.
Proof. exact nd_injective. Qed.
Print Assumptions C01_next_dart_injective.

(* ... and onto: every directed edge is the continuation of one; with injectivity, the successor is a
   permutation of the 2E directed edges *)
Theorem C01_next_dart_surjective : forall L d,
  good L -> valid_dart L d -> exists d0, valid_dart L d0 /\ nd L d0 = Some d.
Proof. exact nd_surjective. Qed.
Print Assumptions C01_next_dart_surjective.

(* the always-turn-left walk from ANY directed edge closes: the stuck-loop LatticeException, fuel exhaustion and
   index errors are unreachable without self-loops; the walk is a duplicate-free closed orbit of nd starting at
   the requested directed edge *)
Theorem C01_walk_closes : forall L se sd,
  good L -> valid_dart L (se, sd) ->
  exists w, trace L (adj_table L) se sd = Closed w /\ orbit_walk L w /\
            hd (0%nat, 0%nat, true) w = (se, dtail L (se, sd), sd).
Proof. exact trace_closes. Qed.
Print Assumptions C01_walk_closes.

(* the sweep finds every face exactly once: every directed edge lies on exactly one listed walk *)
Theorem C01_faces_partition : forall L,
  good L ->
  exists fs, all_faces L = Some fs /\
             (forall f, In f fs -> orbit_walk L (f_walk f) /\ f = mk_face L (f_walk f)) /\
             NoDup (face_darts fs) /\
             (forall d, valid_dart L d <-> In d (face_darts fs)).
Proof. exact all_faces_spec. Qed.
Print Assumptions C01_faces_partition.

(* the reported plaquettes are exactly - each one once - the faces that pass the three filters (no edge
   twice, no net boundary crossing, winding number -1), and no directed edge belongs to two plaquettes *)
Theorem C01_plaquettes_exact : forall L,
  good L ->
  exists fs, all_faces L = Some fs /\
    find_all_plaquettes L = Some (plaq_of_faces L fs) /\
    NoDup (flat_map plaq_darts (plaq_of_faces L fs)) /\
    (forall p, In p (plaq_of_faces L fs) <->
       exists f, In f fs /\ walk_valid L (f_walk f) = true /\ p = mk_plaquette L (f_walk f)).
Proof. exact plaquettes_spec. Qed.
Print Assumptions C01_plaquettes_exact.

(* every plaquette is a consistent closed walk: i-th edge in i-th direction leads from the i-th vertex to the
   (i+1)-th (cyclically), n_sides is the walk length, it uses no edge twice, has no net crossing, and its
   directed edge vectors sum to zero *)
Theorem C01_plaquette_closed_walk : forall L fs p,
  good L -> all_faces L = Some fs -> In p (plaq_of_faces L fs) ->
  exists w, p = mk_plaquette L w /\ orbit_walk L w /\
    walk_ok L w (snd (fst (hd (0%nat, 0%nat, true) w))) /\
    p_verts p = walk_verts w /\ p_edges p = walk_edges w /\ p_dirs p = walk_dirs w /\
    n_sides p = length w /\ length (p_verts p) = length w /\ length (p_dirs p) = length w /\
    NoDup (p_edges p) /\ net_crossing L w = vzero /\ vsum (map (dvec L) w) = vzero /\
    p_winding p = (-1)%Z.
Proof. exact plaquette_closed_walk. Qed.
Print Assumptions C01_plaquette_closed_walk.

(* for ANY face walk the directed edge vectors sum to scale * (net boundary crossing) *)
Theorem C01_vectors_sum_net_crossing : forall L w,
  good L -> orbit_walk L w -> vsum (map (dvec L) w) = vscale (scale L) (net_crossing L w).
Proof. exact orbit_vectors_sum. Qed.
Print Assumptions C01_vectors_sum_net_crossing.

(* centre = area centroid of the unwrapped polygon (shoelace formula), by construction of the record *)
Theorem C01_center_is_shoelace_centroid : forall L w,
  p_cnum (mk_plaquette L w) = centroid_num (poly_points L w) /\
  p_area2 (mk_plaquette L w) = area2 (poly_points L w).
Proof. exact (fun L w => conj eq_refl eq_refl). Qed.
Print Assumptions C01_center_is_shoelace_centroid.

(* non-vacuity: a concrete good lattice (two triangles sharing an edge, exact dyadic coordinates, one edge
   crossing the cell boundary is NOT needed here) with its plaquettes computed by the model *)
Definition ex_two_triangles : lattice :=
  mkLattice 4 [(1, 1); (3, 1); (3, 3); (1, 3)]%Z
            [(0, 1); (1, 2); (2, 0); (2, 3); (3, 0)]%nat
            [(0, 0); (0, 0); (0, 0); (0, 0); (0, 0)]%Z.
Example C01_nonvacuous :
  good ex_two_triangles /\
  option_map (map (fun p => (p_verts p, p_edges p, p_dirs p))) (find_all_plaquettes ex_two_triangles)
  = Some [([0; 1; 2], [0; 1; 2], [true; true; true]); ([0; 2; 3], [2; 3; 4], [false; true; true])]%nat.
Proof. split; [split; reflexivity|vm_compute; reflexivity]. Qed.

(* converse half of "stuck is unreachable": WITH a self-loop the model's walk does get stuck *)
Definition ex_self_loop : lattice :=
  mkLattice 4 [(1, 1); (3, 1)]%Z [(0, 1); (1, 1)]%nat [(0, 0); (1, 0)]%Z.
Example C01_self_loop_can_fail : no_self_loops ex_self_loop = false.
Proof. reflexivity. Qed.

(* ---------------------------------------------------------------------------------------------------------
   Geometry fact G1 ("winding = -1" is "traversed anticlockwise, positive area"), PROVED for triangles and for
   convex polygons with any number of sides (Proofs/WindingConvexTri.v, Proofs/WindingConvex.v).  Edge vectors
   are the scaled integer vectors of the model; p is the arbitrary start point of the unwrapped polygon.
   NOT covered: non-convex simple polygons (the general Umlaufsatz) - still compared per input by the harness. *)
From Koala Require Import Proofs.WindingConvexTri Proofs.WindingConvex.

(* n = 3: any non-degenerate closed triangle, no other hypothesis *)
Theorem C01_G1_triangle : forall p v0 v1 v2,
  vsum [v0; v1; v2] = vzero -> vcross v0 v1 <> 0%Z ->
  (winding [v0; v1; v2] = (-1)%Z <-> (0 < area2 (cumsum_from p [v0; v1; v2]))%Z).
Proof. exact G1_triangle. Qed.
Print Assumptions C01_G1_triangle.

(* every n: convex_ccw vs  =  vs <> [], the vectors sum to zero, every vertex is a strict left turn
   (vcross v_{i-1} v_i > 0 cyclically, [left_turns]) and the directions, read cyclically from a suitable edge,
   are strictly increasing in angle within ONE revolution (angle measured anticlockwise from (0,-1), [ang_lt]);
   convex_cw vs = the reversed walk (rv vs = map vneg (rev vs)) is convex_ccw.
   Such a walk has >= 3 sides (convex_length).  Without "one revolution" the statement is false: the
   pentagram [(4,0);(-3,2);(1,-4);(1,4);(-3,-2)] has only left turns and winding -2. *)
Theorem C01_G1_convex : forall vs p,
  (convex_ccw vs -> winding vs = (-1)%Z /\ (0 < area2 (cumsum_from p vs))%Z) /\
  (convex_cw vs -> winding vs = 1%Z /\ (area2 (cumsum_from p vs) < 0)%Z).
Proof. exact G1_convex. Qed.
Print Assumptions C01_G1_convex.

(* ... hence on the model's plaquette record of a convex walk (either way round) the coded filter
   "winding number = -1" and the property's "positive area" are the same test *)
Theorem C01_G1_convex_plaquette : forall L w,
  convex_ccw (map (dvec L) w) \/ convex_cw (map (dvec L) w) ->
  (p_winding (mk_plaquette L w) = (-1)%Z <-> (0 < p_area2 (mk_plaquette L w))%Z).
Proof. exact G1_convex_plaquette. Qed.
Print Assumptions C01_G1_convex_plaquette.

Example C01_G1_triangle_nonvacuous :
  vsum [(3, 1); (-2, 2); (-1, -3)]%Z = vzero /\ vcross (3, 1)%Z (-2, 2)%Z <> 0%Z /\
  winding [(3, 1); (-2, 2); (-1, -3)]%Z = (-1)%Z /\ winding [(-2, 2); (3, 1); (-1, -3)]%Z = 1%Z.
Proof. repeat split; vm_compute; congruence. Qed.

(* a hexagon with two edges exactly on the branch cut's axis, listed from an edge that is NOT the angularly
   first one; its reversal; and the pentagram (all left turns, two revolutions) *)
Definition ex_hexagon : list vec := [(0, 2); (-2, 1); (-2, -1); (0, -2); (2, -1); (2, 1)]%Z.
Example C01_G1_convex_nonvacuous :
  convex_ccw ex_hexagon /\ convex_cw (rv ex_hexagon) /\
  winding ex_hexagon = (-1)%Z /\ winding (rv ex_hexagon) = 1%Z /\
  winding [(4, 0); (-3, 2); (1, -4); (1, 4); (-3, -2)]%Z = (-2)%Z.
Proof.
  assert (H : convex_ccw ex_hexagon).
  { split; [discriminate|]. split; [reflexivity|]. split.
    - unfold left_turns. vm_compute. repeat constructor.
    - exists [(0, 2); (-2, 1); (-2, -1)]%Z, [(0, -2); (2, -1); (2, 1)]%Z. split; [reflexivity|].
      unfold ang_sorted. repeat constructor. }
  split; [exact H|]. split; [unfold convex_cw; rewrite rv_involutive; exact H|].
  repeat split; vm_compute; reflexivity.
Qed.

(* ====================================================================================================
   S as a PROVED spec checker (DESIGN section 0).  Model/SpecC01.v: spec_c01 L P takes the IMPLEMENTATION's
   reported plaquettes P as (vertices, edges, directions) triples; Proofs/SpecC01Facts.v: it accepts exactly
   the lists that enumerate the legitimate faces.  The extracted checker (driver c01s) is run by
   harness/c01.py on lattice.plaquettes of every generated lattice.

   legit_enumeration L P  (stated on closed orbits of the dart successor nd, not on the model's face list):
     le_len      the three arrays of every plaquette have the same length (= n_sides, see spec_c01n)
     le_walk     every plaquette is a consistent closed walk (edge ids exist; i-th edge in i-th direction leads
                 from the i-th vertex to the (i+1)-th, cyclically: C01_closed_walk_by_position)
     le_sound    every plaquette is, as a cyclic sequence of directed edges, a closed orbit of nd that uses no
                 edge twice, has zero net crossing and POSITIVE AREA (the property's wording, not winding = -1)
     le_once     no two entries are the same cyclic sequence ("each one once": C01_each_face_exactly_once)
     le_complete every such orbit is reported
     le_darts    no directed edge belongs to two plaquettes
   NOT covered by the checker: the float clause "center is the area centroid" (stays in the Python S, with a
   tolerance), and G2 (orbits of nd are the faces of the drawing). *)
From Koala Require Import Model.SpecC01 Proofs.SpecC01Facts.

(* soundness AND completeness of the extracted checker *)
Theorem C01_spec_checker_correct : forall L P,
  good L -> (spec_c01 L P = true <-> legit_enumeration L P).
Proof. exact spec_c01_correct. Qed.
Print Assumptions C01_spec_checker_correct.

(* the form the driver runs: each plaquette with its reported n_sides *)
Theorem C01_spec_checker_n_sides_correct : forall L (P : list (nat * triple)),
  good L ->
  (spec_c01n L P = true <->
   (forall nt, In nt P -> fst nt = length (t_edges (snd nt))) /\ legit_enumeration L (map snd P)).
Proof. exact spec_c01n_correct. Qed.
Print Assumptions C01_spec_checker_n_sides_correct.

(* the sub-check index printed in a replay message is None exactly when the checker accepts *)
Theorem C01_spec_first_fail_iff : forall L P, spec_c01_first_fail L P = None <-> spec_c01 L P = true.
Proof. exact spec_c01_first_fail_None. Qed.
Print Assumptions C01_spec_first_fail_iff.

(* relation to the CODED filter: if on L every face walk that uses no edge twice and has no net crossing
   satisfies  winding = -1 <-> area2 > 0  (geometry fact G1, evaluated per input: g1_holds L, printed by the
   driver), then the checker accepts the model's own plaquette list (so, with the correspondence run K, a
   rejection of the implementation's list is a defect of the implementation, not of the winding filter) *)
Theorem C01_spec_accepts_model_under_G1 : forall L,
  good L -> g1_holds L = true ->
  exists ps, find_all_plaquettes L = Some ps /\
             spec_c01 L (map triple_of ps) = true /\
             spec_c01n L (map (fun p => (n_sides p, triple_of p)) ps) = true.
Proof. exact spec_accepts_model_under_G1. Qed.
Print Assumptions C01_spec_accepts_model_under_G1.

(* what makes le_sound / le_complete well defined: "no edge twice, zero net crossing, positive area" does not
   depend on the directed edge a face walk is started on (shoelace area of the unwrapped closed polygon is
   invariant under rotation of the walk and under the change of periodic image that comes with it) *)
Theorem C01_legit_rotation_invariant : forall L w w',
  good L -> orbit_walk L w -> rot w w' -> legit_walk L w -> legit_walk L w'.
Proof. exact legit_rot. Qed.
Print Assumptions C01_legit_rotation_invariant.

(* two closed orbits of nd through a common directed edge are rotations of each other (faces are well defined) *)
Theorem C01_orbit_unique_up_to_rotation : forall L w1 w2 s1 s2,
  orbit_walk L w1 -> orbit_walk L w2 -> In s1 w1 -> In s2 w2 -> sdart s1 = sdart s2 -> rot w1 w2.
Proof. exact orbit_rot_common. Qed.
Print Assumptions C01_orbit_unique_up_to_rotation.

(* reading of le_complete + le_once: every legitimate face sits at exactly one position of the list *)
Theorem C01_each_face_exactly_once : forall L P w,
  legit_enumeration L P -> orbit_walk L w -> legit_walk L w ->
  exists i, (i < length P)%nat /\ rot (walk_darts w) (tdarts (nth i P tnil)) /\
            forall j, (j < length P)%nat -> rot (walk_darts w) (tdarts (nth j P tnil)) -> j = i.
Proof. exact enumeration_exactly_once. Qed.
Print Assumptions C01_each_face_exactly_once.

(* reading of le_len + le_walk by position, in the property's words *)
Theorem C01_closed_walk_by_position : forall L t,
  tlen_ok t -> closed_walk L (tsteps t) ->
  let n := length (t_edges t) in
  forall i, (i < n)%nat ->
    let e := nth i (t_edges t) 0%nat in let d := nth i (t_dirs t) true in
    (e < nE L)%nat /\
    dtail L (e, d) = nth i (t_verts t) 0%nat /\
    dhead L (e, d) = nth (S i mod n) (t_verts t) 0%nat.
Proof. exact closed_walk_indexed. Qed.
Print Assumptions C01_closed_walk_by_position.

(* non-vacuity on a periodic instance: the 2x2 square torus (every face crosses the cell boundary or touches
   it; four squares).  Accepted: the four squares in another order and started on other edges than the model's
   sweep.  Rejected, with the sub-check that says why: one square missing (9 missing-face); one square
   reported twice from two start edges (8 duplicate); a square traversed clockwise (3 not-a-face: the reversed
   sequence is no orbit of nd); a walk that is not closed (2 closed-walk). *)
Definition ex_torus_2x2 : lattice :=
  mkLattice 4 [(1, 1); (3, 1); (1, 3); (3, 3)]%Z
            [(0, 1); (1, 0); (2, 3); (3, 2); (0, 2); (2, 0); (1, 3); (3, 1)]%nat
            [(0, 0); (1, 0); (0, 0); (1, 0); (0, 0); (0, 1); (0, 0); (0, 1)]%Z.
Definition sqA : triple := ([3; 2; 0; 1], [2; 4; 0; 6], [false; false; true; true])%nat.
Definition sqA' : triple := ([0; 1; 3; 2], [0; 6; 2; 4], [true; true; false; false])%nat.
Definition sqB : triple := ([1; 0; 2; 3], [0; 5; 2; 7], [false; false; true; true])%nat.
Definition sqC : triple := ([0; 2; 3; 1], [4; 3; 6; 1], [true; false; false; true])%nat.
Definition sqD : triple := ([0; 1; 3; 2], [1; 7; 3; 5], [false; false; true; true])%nat.
Definition sqA_clockwise : triple := ([0; 2; 3; 1], [4; 2; 6; 0], [true; true; false; false])%nat.
Definition sqA_open : triple := ([3; 2; 0; 3], [2; 4; 0; 6], [false; false; true; true])%nat.
Example C01_spec_checker_correct_nonvacuous :
  good ex_torus_2x2 /\
  spec_c01 ex_torus_2x2 [sqD; sqA; sqC; sqB] = true /\
  legit_enumeration ex_torus_2x2 [sqD; sqA; sqC; sqB] /\
  spec_c01_first_fail ex_torus_2x2 [sqD; sqA; sqC] = Some 9%nat /\
  spec_c01_first_fail ex_torus_2x2 [sqD; sqA; sqC; sqB; sqA'] = Some 8%nat /\
  spec_c01_first_fail ex_torus_2x2 [sqD; sqA_clockwise; sqC; sqB] = Some 3%nat /\
  spec_c01_first_fail ex_torus_2x2 [sqD; sqA_open; sqC; sqB] = Some 2%nat /\
  ~ legit_enumeration ex_torus_2x2 [sqD; sqA; sqC].
Proof.
  assert (HG : good ex_torus_2x2) by (split; reflexivity).
  split; [exact HG|]. split; [vm_compute; reflexivity|].
  split; [apply (C01_spec_checker_correct _ _ HG); vm_compute; reflexivity|].
  repeat (split; [vm_compute; reflexivity|]).
  intros H. apply (C01_spec_checker_correct _ _ HG) in H. vm_compute in H. discriminate.
Qed.

Example C01_spec_accepts_model_under_G1_nonvacuous :
  good ex_torus_2x2 /\ g1_holds ex_torus_2x2 = true /\
  option_map (@length _) (model_triples ex_torus_2x2) = Some 4%nat /\
  good ex_two_triangles /\ g1_holds ex_two_triangles = true.
Proof. repeat split; vm_compute; reflexivity. Qed.

(* G1, convex case, as an executable test (Proofs/WindingConvexDec.v): convex_ccwb / convex_cwb decide the
   hypotheses of C01_G1_convex, so whether a given walk is covered by the proved case of G1 is a computation *)
From Koala Require Import Proofs.WindingConvexDec.
Theorem C01_G1_convex_decidable : forall vs,
  (convex_ccwb vs = true <-> convex_ccw vs) /\ (convex_cwb vs = true <-> convex_cw vs).
Proof. exact (fun vs => conj (convex_ccwb_spec vs) (convex_cwb_spec vs)). Qed.
Print Assumptions C01_G1_convex_decidable.

(* all three faces of ex_two_triangles are covered: the two triangles are convex anticlockwise (kept), the outer
   face is the square walked clockwise (rejected), and on each the two tests agree by C01_G1_convex_plaquette *)
Example C01_G1_convex_faces_nonvacuous :
  option_map (map (fun f => (convex_ccwb (map (dvec ex_two_triangles) (f_walk f)),
                             convex_cwb (map (dvec ex_two_triangles) (f_walk f)), f_winding f, f_area2 f)))
             (all_faces ex_two_triangles)
  = Some [(true, false, -1, 4); (false, true, 1, -8); (true, false, -1, 4)]%Z.
Proof. vm_compute. reflexivity. Qed.

(* the hypothesis  g1_holds L  of C01_spec_accepts_model_under_G1 (G1 on every face of L that uses no edge twice
   and has no net crossing) is PROVED, not only evaluated, for every lattice all of whose such faces are convex
   polygons - e.g. the faces of a Voronoi tessellation, square / honeycomb / triangular tilings; faces_convexb
   is the executable test (Proofs/WindingConvexG1.v).  Not covered: lattices with a non-convex face, such as
   the outer face of most open-boundary cuts or merged cells after edge deletion. *)
From Koala Require Import Proofs.WindingConvexG1.
Theorem C01_G1_convex_lattice : forall L,
  good L -> faces_convexb L = true -> g1_holds L = true.
Proof. exact g1_holds_convex. Qed.
Print Assumptions C01_G1_convex_lattice.

Example C01_G1_convex_lattice_nonvacuous :
  good ex_two_triangles /\ faces_convexb ex_two_triangles = true /\
  good ex_torus_2x2 /\ faces_convexb ex_torus_2x2 = true.
Proof. repeat split; vm_compute; reflexivity. Qed.

(* the convexity hypothesis does not depend on the reference direction or on the edge the walk starts with:
   convex_ccw_ref r vs  =  r <> 0, vs <> [], the vectors sum to zero, every vertex is a strict left turn, and the
   directions of vs AS LISTED are strictly increasing in angle measured anticlockwise from r within [0, 2 pi)
   ([alt r]; e.g. r = the first edge itself).  Any such walk is convex_ccw (Proofs/WindingConvexRef.v). *)
From Koala Require Import Proofs.WindingConvexRef.
Theorem C01_G1_convex_any_reference : forall r vs p,
  (convex_ccw_ref r vs -> winding vs = (-1)%Z /\ (0 < area2 (cumsum_from p vs))%Z) /\
  (convex_ccw_ref r (rv vs) -> winding vs = 1%Z /\ (area2 (cumsum_from p vs) < 0)%Z).
Proof. exact G1_convex_ref. Qed.
Print Assumptions C01_G1_convex_any_reference.

(* the hexagon, measured from its own first edge, and from an unrelated direction after starting at another edge *)
Example C01_G1_convex_any_reference_nonvacuous :
  convex_ccw_ref (hd vzero ex_hexagon) ex_hexagon /\
  convex_ccw_ref (-3, -1)%Z [(-2, -1); (0, -2); (2, -1); (2, 1); (0, 2); (-2, 1)]%Z.
Proof.
  split; (split; [discriminate|]; split; [discriminate|]; split; [reflexivity|]; split;
    [unfold left_turns; vm_compute; repeat constructor|unfold ref_sorted; repeat constructor]).
Qed.
