From Koala Require Import Model.Lattice.
