(* Props/C01.v — property C01: plaquettes are exactly the legitimate faces of the embedded graph.
   Only statements; every proof is `exact <lemma of Proofs/LatticeFacts.v>`.

   Model: coq/Model/Lattice.v (lattice.py on exact dyadic coordinates).  `good L` = indices in range,
   one crossing per edge, positive scale, no self-loops (the property's "any lattice without self-loops").
   nd L = next_dart L (adj_table L): the "arrive at the head, take the next edge clockwise" successor of a
   directed edge; its orbits are the faces of the embedding given by the rotation system (geometry fact G2).

   NOT proved here (DESIGN section 2): that the coded orientation filter `winding = -1` is the same as
   "positive area" (Hopf's Umlaufsatz, G1 — compared on every generated input by the harness), and the float
   arithmetic of arctan2 / the centroid division (tied by the correspondence run). *)
From Coq Require Import List ZArith Bool Arith Permutation.
From Koala Require Import Model.Lattice Proofs.LatticeFacts.
Import ListNotations.

(* the rotation system at every vertex lists each incident edge exactly once *)
Theorem C01_rotation_system_complete : forall L v,
  Permutation (sorted_adj L v) (incident L v) /\ NoDup (sorted_adj L v).
Proof. exact (fun L v => conj (sorted_adj_perm L v) (sorted_adj_NoDup L v)). Qed.
Print Assumptions C01_rotation_system_complete.

(* the boundary-walk successor is injective on directed edges: no two directed edges continue into the same one *)
Theorem C01_next_dart_injective : forall L d1 d2 d',
  good L -> valid_dart L d1 -> valid_dart L d2 ->
  nd L d1 = Some d' -> nd L d2 = Some d' -> d1 = d2.
Proof. exact nd_injective. Qed.
Print Assumptions C01_next_dart_injective.

(* ... and onto: every directed edge is the continuation of one; with injectivity, the successor is a
   permutation of the 2E directed edges *)
Theorem C01_next_dart_surjective : forall L d,
  good L -> valid_dart L d -> exists d0, valid_dart L d0 /\ nd L d0 = Some d.
Proof. exact nd_surjective. Qed.
Print Assumptions C01_next_dart_surjective.

(* the always-turn-left walk from ANY directed edge closes: the stuck-loop LatticeException, fuel exhaustion and
   index errors are unreachable without self-loops; the walk is a duplicate-free closed orbit of nd starting at
   the requested directed edge *)
Theorem C01_walk_closes : forall L se sd,
  good L -> valid_dart L (se, sd) ->
  exists w, trace L (adj_table L) se sd = Closed w /\ orbit_walk L w /\
            hd (0%nat, 0%nat, true) w = (se, dtail L (se, sd), sd).
Proof. exact trace_closes. Qed.
Print Assumptions C01_walk_closes.

(* the sweep finds every face exactly once: every directed edge lies on exactly one listed walk *)
Theorem C01_faces_partition : forall L,
  good L ->
  exists fs, all_faces L = Some fs /\
             (forall f, In f fs -> orbit_walk L (f_walk f) /\ f = mk_face L (f_walk f)) /\
             NoDup (face_darts fs) /\
             (forall d, valid_dart L d <-> In d (face_darts fs)).
Proof. exact all_faces_spec. Qed.
Print Assumptions C01_faces_partition.

(* the reported plaquettes are exactly - each one once - the faces that pass the three filters (no edge
   twice, no net boundary crossing, winding number -1), and no directed edge belongs to two plaquettes *)
Theorem C01_plaquettes_exact : forall L,
  good L ->
  exists fs, all_faces L = Some fs /\
    find_all_plaquettes L = Some (plaq_of_faces L fs) /\
    NoDup (flat_map plaq_darts (plaq_of_faces L fs)) /\
    (forall p, In p (plaq_of_faces L fs) <->
       exists f, In f fs /\ walk_valid L (f_walk f) = true /\ p = mk_plaquette L (f_walk f)).
Proof. exact plaquettes_spec. Qed.
Print Assumptions C01_plaquettes_exact.

(* every plaquette is a consistent closed walk: i-th edge in i-th direction leads from the i-th vertex to the
   (i+1)-th (cyclically), n_sides is the walk length, it uses no edge twice, has no net crossing, and its
   directed edge vectors sum to zero *)
Theorem C01_plaquette_closed_walk : forall L fs p,
  good L -> all_faces L = Some fs -> In p (plaq_of_faces L fs) ->
  exists w, p = mk_plaquette L w /\ orbit_walk L w /\
    walk_ok L w (snd (fst (hd (0%nat, 0%nat, true) w))) /\
    p_verts p = walk_verts w /\ p_edges p = walk_edges w /\ p_dirs p = walk_dirs w /\
    n_sides p = length w /\ length (p_verts p) = length w /\ length (p_dirs p) = length w /\
    NoDup (p_edges p) /\ net_crossing L w = vzero /\ vsum (map (dvec L) w) = vzero /\
    p_winding p = (-1)%Z.
Proof. exact plaquette_closed_walk. Qed.
Print Assumptions C01_plaquette_closed_walk.

(* for ANY face walk the directed edge vectors sum to scale * (net boundary crossing) *)
Theorem C01_vectors_sum_net_crossing : forall L w,
  good L -> orbit_walk L w -> vsum (map (dvec L) w) = vscale (scale L) (net_crossing L w).
Proof. exact orbit_vectors_sum. Qed.
Print Assumptions C01_vectors_sum_net_crossing.

(* centre = area centroid of the unwrapped polygon (shoelace formula), by construction of the record *)
Theorem C01_center_is_shoelace_centroid : forall L w,
  p_cnum (mk_plaquette L w) = centroid_num (poly_points L w) /\
  p_area2 (mk_plaquette L w) = area2 (poly_points L w).
Proof. exact (fun L w => conj eq_refl eq_refl). Qed.
Print Assumptions C01_center_is_shoelace_centroid.

(* non-vacuity: a concrete good lattice (two triangles sharing an edge, exact dyadic coordinates, one edge
   crossing the cell boundary is NOT needed here) with its plaquettes computed by the model *)
Definition ex_two_triangles : lattice :=
  mkLattice 4 [(1, 1); (3, 1); (3, 3); (1, 3)]%Z
            [(0, 1); (1, 2); (2, 0); (2, 3); (3, 0)]%nat
            [(0, 0); (0, 0); (0, 0); (0, 0); (0, 0)]%Z.
Example C01_nonvacuous :
  good ex_two_triangles /\
  option_map (map (fun p => (p_verts p, p_edges p, p_dirs p))) (find_all_plaquettes ex_two_triangles)
  = Some [([0; 1; 2], [0; 1; 2], [true; true; true]); ([0; 2; 3], [2; 3; 4], [false; true; true])]%nat.
Proof. split; [split; reflexivity|vm_compute; reflexivity]. Qed.

(* converse half of "stuck is unreachable": WITH a self-loop the model's walk does get stuck *)
Definition ex_self_loop : lattice :=
  mkLattice 4 [(1, 1); (3, 1)]%Z [(0, 1); (1, 1)]%nat [(0, 0); (1, 0)]%Z.
Example C01_self_loop_can_fail : no_self_loops ex_self_loop = false.
Proof. reflexivity. Qed.
