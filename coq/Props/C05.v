(* Props/C05.v — plaquette fluxes are the oriented gauge-invariant product of bond variables.
   Model: coq/Model/Flux.v (fluxes_from_ujk, fluxes_to_labels of flux_finder.py) over the
   plaquettes of coq/Model/Lattice.v.  Only the property theorems; proofs in Proofs/FluxFacts.v.

   Theorems named *_model are about the plaquettes computed by the C01 model (find_all_plaquettes)
   and use C01's lemmas (Proofs/LatticeFacts.v, via Proofs/FluxLattice.v); the others hold for any
   plaquette record / closed walk satisfying the stated boolean side condition, which the harness
   evaluates (extracted) on every plaquette the implementation returns.

   NOT covered here (see harness/c05.py, checked on the implementation by S/K):
   * "taken anticlockwise": orientation of the face walk is C01's clause (winding filter, G1);
   * for the IMPLEMENTATION's tables, "the plaquettes adjacent to that edge" = the non-INVALID
     entries of edges.adjacent_plaquettes[e] is checked by S on every bond flip (for the model's
     tables it is C05_single_flip_adjacent_model);
   * that a periodic lattice is closed (every directed edge in a plaquette) is a hypothesis of
     the parity theorems (it fails e.g. when a face winds around the torus and is filtered). *)
From Coq Require Import List ZArith Bool Arith Permutation.
From Koala Require Import Model.Lattice Model.Flux Proofs.FluxFacts Proofs.FluxLattice Proofs.FluxAdjacent
     Proofs.FluxGaugeGroup.
Import ListNotations.
Open Scope Z_scope.

(* clause 1: "the flux of each plaquette equals the product over its boundary of minus the bond
   variable read along the direction of travel (a bond traversed against its stored orientation
   counts with opposite sign)"; flux_spec / bond_along are that wording, fluxes_from_ujk the code *)
Theorem C05_flux_def : forall (L : lattice) (u : list Z),
  fluxes_from_ujk L u =
  option_map (map (fun p => zprod (map (fun ed : dart =>
      - (if snd ed then bond u (fst ed) else - bond u (fst ed))) (plaq_darts p))))
    (find_all_plaquettes L).
Proof. exact C05_flux_def_lemma. Qed.
Print Assumptions C05_flux_def.

(* clause 1, range: for bonds +-1 on the plaquette's edges the flux is +1 or -1 *)
Theorem C05_flux_pm1 : forall (u : list Z) (p : plaquette),
  (forall e, In e (p_edges p) -> bond u e = 1 \/ bond u e = -1) ->
  flux_real u p = 1 \/ flux_real u p = -1.
Proof. exact flux_real_pm1. Qed.
Print Assumptions C05_flux_pm1.

(* ... in particular for u in {-1,+1}^E given as an array covering the plaquette's edges *)
Theorem C05_flux_pm1_array : forall (u : list Z) (p : plaquette),
  all_pm1 u = true -> (forall e, In e (p_edges p) -> (e < length u)%nat) ->
  flux_real u p = 1 \/ flux_real u p = -1.
Proof. exact flux_real_pm1_array. Qed.
Print Assumptions C05_flux_pm1_array.

(* clause 2: "the complex variant equals the real flux times i to the number of sides"
   (Gaussian integers as pairs; i^n also in closed form by n mod 4) *)
Theorem C05_flux_cplx_eq : forall (u : list Z) (p : plaquette),
  length (p_dirs p) = length (p_edges p) ->
  flux_cplx u p = gscale (flux_real u p) (gpow gi (n_sides p))
  /\ gpow gi (n_sides p) =
     match (n_sides p mod 4)%nat with
     | 0%nat => (1, 0) | 1%nat => (0, 1) | 2%nat => (-1, 0) | _ => (0, -1)
     end.
Proof. exact flux_cplx_eq_closed. Qed.
Print Assumptions C05_flux_cplx_eq.

(* the side condition holds for every plaquette of the C01 model, which moreover uses no edge twice *)
Theorem C05_model_plaquette_shape : forall (L : lattice) (ps : list plaquette) (p : plaquette),
  find_all_plaquettes L = Some ps -> In p ps ->
  length (p_verts p) = length (p_edges p) /\ length (p_dirs p) = length (p_edges p)
  /\ NoDup (p_edges p).
Proof. exact model_plaquette_shape. Qed.
Print Assumptions C05_model_plaquette_shape.

(* clause 3: "fluxes_to_labels maps +1 to 0 and -1 to 1" *)
Theorem C05_labels_map :
  flux_label 1 = 0 /\ flux_label (-1) = 1 /\
  forall fs, Forall (fun f => f = 1 \/ f = -1) fs ->
    fluxes_to_labels fs = map (fun f => if f =? 1 then 0 else 1) fs
    /\ length (fluxes_to_labels fs) = length fs.
Proof. exact labels_map_lemma. Qed.
Print Assumptions C05_labels_map.

(* clause 4: "fluxes are unchanged by a gauge transformation (flipping all bonds at any vertex)":
   [gauge L v u] flips exactly the bonds on the edges incident on v ... *)
Theorem C05_gauge_spec : forall (L : lattice) (v : nat) (u : list Z) (e : nat),
  bond (gauge L v u) e = (if incident_b L v e then - bond u e else bond u e)
  /\ length (gauge L v u) = length u.
Proof. exact gauge_spec_lemma. Qed.
Print Assumptions C05_gauge_spec.

(* ... and leaves the flux of every consistent closed walk without self-loop edges unchanged,
   for ANY bond values (not only +-1), any lattice, any vertex *)
Theorem C05_gauge_invariant : forall (L : lattice) (v : nat) (u : list Z) (w : list step),
  walk_consistent L w = true ->
  flux_darts (gauge L v u) (walk_darts w) = flux_darts u (walk_darts w).
Proof. exact walk_gauge_invariant. Qed.
Print Assumptions C05_gauge_invariant.

(* the same for a plaquette record (real and complex variant) *)
Theorem C05_gauge_invariant_plaquette : forall (L : lattice) (v : nat) (u : list Z) (p : plaquette),
  plaq_consistent L p = true ->
  flux_real (gauge L v u) p = flux_real u p /\ flux_cplx (gauge L v u) p = flux_cplx u p.
Proof. exact plaq_gauge_invariant_both. Qed.
Print Assumptions C05_gauge_invariant_plaquette.

(* clause 5: "flipping one bond flips exactly the fluxes of the plaquettes adjacent to that edge":
   for a plaquette that uses no edge twice and bonds +-1 on its edges, flipping u[e] negates the
   flux iff e is one of its edges, and leaves it unchanged otherwise *)
Theorem C05_single_flip_local : forall (u : list Z) (e : nat) (p : plaquette),
  length (p_dirs p) = length (p_edges p) -> NoDup (p_edges p) ->
  (forall f, In f (p_edges p) -> bond u f = 1 \/ bond u f = -1) ->
  (flux_real (flip_at e u) p = - flux_real u p <-> In e (p_edges p))
  /\ (~ In e (p_edges p) -> flux_real (flip_at e u) p = flux_real u p).
Proof. exact flux_real_flip. Qed.
Print Assumptions C05_single_flip_local.

(* ... unconditionally for the plaquettes of the C01 model *)
Theorem C05_single_flip_local_model :
  forall (L : lattice) (ps : list plaquette) (p : plaquette) (u : list Z) (e : nat),
  find_all_plaquettes L = Some ps -> In p ps ->
  (forall f, In f (p_edges p) -> bond u f = 1 \/ bond u f = -1) ->
  (flux_real (flip_at e u) p = - flux_real u p <-> In e (p_edges p))
  /\ (~ In e (p_edges p) -> flux_real (flip_at e u) p = flux_real u p).
Proof. exact flux_real_flip_model. Qed.
Print Assumptions C05_single_flip_local_model.

(* clause 5 with adjacency read off the table edges.adjacent_plaquettes of the lattice model: on every
   well-formed lattice without self-loops, flipping u[e] negates the flux of plaquette q iff q is one
   of the two (non-INVALID) entries of edges_plaquettes[e], and leaves it unchanged otherwise
   (C02's edge_sides lemma ties the table to the plaquettes' edge lists) *)
Theorem C05_single_flip_adjacent_model :
  forall (L : lattice) (ps : list plaquette) (u : list Z) (e q : nat),
  wf_lattice L = true -> no_self_loops L = true -> find_all_plaquettes L = Some ps ->
  (forall f, (f < nE L)%nat -> bond u f = 1 \/ bond u f = -1) -> (q < length ps)%nat ->
  (nth q (fluxes_real (flip_at e u) ps) 0 = - nth q (fluxes_real u ps) 0
     <-> (fst (nth e (edges_plaquettes L ps) (None, None)) = Some q
          \/ snd (nth e (edges_plaquettes L ps) (None, None)) = Some q))
  /\ (~ (fst (nth e (edges_plaquettes L ps) (None, None)) = Some q
         \/ snd (nth e (edges_plaquettes L ps) (None, None)) = Some q) ->
      nth q (fluxes_real (flip_at e u) ps) 0 = nth q (fluxes_real u ps) 0).
Proof. exact single_flip_adjacent_model. Qed.
Print Assumptions C05_single_flip_adjacent_model.

(* [flip_at e u] changes the sign of u[e] and nothing else *)
Theorem C05_flip_spec : forall (u : list Z) (e f : nat),
  bond (flip_at e u) f = (if (f =? e)%nat then - bond u f else bond u f)
  /\ length (flip_at e u) = length u.
Proof. exact flip_spec_lemma. Qed.
Print Assumptions C05_flip_spec.

(* clause 6: "on a closed periodic lattice the product of all fluxes is (-1)^(number of edges)":
   closed = every directed edge (e,+-) of the lattice occurs in exactly one plaquette of the list
   and the plaquettes use only directed edges of the lattice *)
Theorem C05_global_parity : forall (L : lattice) (u : list Z) (ps : list plaquette),
  (forall d, In d (all_darts L) -> count_dart d (flat_map plaq_darts ps) = 1%nat) ->
  (forall d, In d (flat_map plaq_darts ps) -> In d (all_darts L)) ->
  (forall e, (e < nE L)%nat -> bond u e = 1 \/ bond u e = -1) ->
  zprod (fluxes_real u ps) = (-1) ^ Z.of_nat (nE L).
Proof. exact global_parity_exactly_one. Qed.
Print Assumptions C05_global_parity.

(* the boolean test of closedness run by the harness on the implementation's plaquettes is sound *)
Theorem C05_global_parity_checked : forall (L : lattice) (u : list Z) (ps : list plaquette),
  darts_cover L ps = true ->
  (forall e, (e < nE L)%nat -> bond u e = 1 \/ bond u e = -1) ->
  zprod (fluxes_real u ps) = (-1) ^ Z.of_nat (nE L).
Proof. exact global_parity_cover. Qed.
Print Assumptions C05_global_parity_checked.

(* clause 4 for the model end to end: on every well-formed lattice without self-loops, every vertex,
   every bond array, the whole flux vector (real and complex) is gauge invariant — the closed-walk
   side condition is discharged by C01's walk lemmas *)
Theorem C05_gauge_invariant_model : forall (L : lattice) (v : nat) (u : list Z),
  wf_lattice L = true -> no_self_loops L = true ->
  fluxes_from_ujk L (gauge L v u) = fluxes_from_ujk L u
  /\ fluxes_from_ujk_cplx L (gauge L v u) = fluxes_from_ujk_cplx L u.
Proof. exact model_fluxes_gauge_invariant. Qed.
Print Assumptions C05_gauge_invariant_model.

(* clause 4 for the whole gauge group: ANY finite composition of vertex gauge flips (any vertices, any order, repeats
   allowed) leaves the whole flux vector unchanged; the composition acts on each bond by the parity of the number of
   listed vertices incident on its edge; each flip is an involution and flips commute *)
Theorem C05_gauge_group_invariant_model : forall (L : lattice) (vs : list nat) (u : list Z),
  wf_lattice L = true -> no_self_loops L = true ->
  fluxes_from_ujk L (gauge_many L vs u) = fluxes_from_ujk L u
  /\ fluxes_from_ujk_cplx L (gauge_many L vs u) = fluxes_from_ujk_cplx L u.
Proof. exact model_fluxes_gauge_many_invariant. Qed.
Print Assumptions C05_gauge_group_invariant_model.
Theorem C05_gauge_group_action : forall (L : lattice) (vs : list nat) (u : list Z) (e : nat),
  bond (gauge_many L vs u) e =
  (if Nat.even (length (filter (fun v => incident_b L v e) vs)) then bond u e else - bond u e)
  /\ length (gauge_many L vs u) = length u.
Proof. intros L vs u e. split; [exact (gauge_many_bond L vs u e) | exact (gauge_many_length L vs u)]. Qed.
Print Assumptions C05_gauge_group_action.
Theorem C05_gauge_involutive_commutative : forall (L : lattice) (v w : nat) (u : list Z) (e : nat),
  bond (gauge L v (gauge L v u)) e = bond u e
  /\ bond (gauge L v (gauge L w u)) e = bond (gauge L w (gauge L v u)) e.
Proof. intros L v w u e. split; [exact (gauge_involutive_bond L v u e) | exact (gauge_commute_bond L v w u e)]. Qed.
Print Assumptions C05_gauge_involutive_commutative.

(* every plaquette of the model satisfies the boolean side condition of C05_gauge_invariant_plaquette *)
Theorem C05_model_plaquette_consistent : forall (L : lattice) (ps : list plaquette) (p : plaquette),
  wf_lattice L = true /\ no_self_loops L = true ->
  find_all_plaquettes L = Some ps -> In p ps -> plaq_consistent L p = true.
Proof. exact model_plaquette_consistent. Qed.
Print Assumptions C05_model_plaquette_consistent.

(* clause 6 for the model: C01 gives "no directed edge in two plaquettes", so closedness is just
   "every directed edge lies in some plaquette" *)
Theorem C05_global_parity_model : forall (L : lattice) (ps : list plaquette) (u : list Z),
  wf_lattice L = true -> no_self_loops L = true ->
  find_all_plaquettes L = Some ps ->
  (forall d, In d (all_darts L) -> In d (flat_map plaq_darts ps)) ->
  (forall e, (e < nE L)%nat -> bond u e = 1 \/ bond u e = -1) ->
  zprod (fluxes_real u ps) = (-1) ^ Z.of_nat (nE L).
Proof. exact model_global_parity. Qed.
Print Assumptions C05_global_parity_model.

(* non-vacuity: on the 2x2 torus grid (4 plaquettes, 8 edges, parallel and boundary-crossing
   edges) the plaquette finder succeeds, every plaquette is a consistent closed walk, the lattice
   is closed, and the bond configuration has fluxes of both signs *)
Example C05_hypotheses_nonvacuous :
  exists ps, find_all_plaquettes torus22 = Some ps
    /\ length ps = 4%nat
    /\ forallb (plaq_consistent torus22) ps = true
    /\ darts_cover torus22 ps = true
    /\ wf_lattice torus22 = true /\ no_self_loops torus22 = true
    /\ all_pm1 torus22_u = true /\ length torus22_u = nE torus22
    /\ fluxes_real torus22_u ps = [-1; 1; 1; -1]
    /\ fluxes_real (gauge torus22 2 torus22_u) ps = [-1; 1; 1; -1]
    /\ fluxes_real (flip_at 5 torus22_u) ps = [-1; -1; 1; 1].
Proof. eexists. repeat split; vm_compute; reflexivity. Qed.
