(* Props/C08.v — property C08: the Bloch Hamiltonian of a unit cell reproduces the spectrum of the
   nx x ny periodic tiling of that cell; it is Hermitian, 2*pi-periodic, equals the real-space Hamiltonian
   at k = 0; the analysis helpers are the stated functionals of the eigenvalue lists.

   Models: Model/Bloch.v (bond sums with FORMAL phases w = e^{ik} over any commutative ring; parallel edges
   ACCUMULATE, as in the code after fix b8fbd8d), Model/Tiling.v (tile_unit_cell over the helpers GENERATED
   from example_graphs.py).  NOT covered by a theorem (numerical, checked by S on the implementation,
   harness/c08.py): LAPACK's eigvalsh and float exp.  (The step from the intertwining relation to equality of
   spectra — formerly listed here — is now PROVED at the end of this file over any field with primitive roots
   of unity and nx*ny invertible: C08_bloch_invertible, C08_bloch_similar, C08_bloch_complete
   (char_poly A_tiled = prod_k char_poly H(k)), C08_bloch_spectrum_union.) *)
From Coq Require Import List ZArith Bool Arith QArith Qabs Ring.
From Koala Require Import Gen.TilingGen Model.Lattice Model.Tiling Model.Examples Model.Bloch
     Proofs.TilingFacts Proofs.BlochFacts.
Import ListNotations.
Open Scope Z_scope.

(* Clause "union over the allowed momenta of the Bloch spectra = spectrum of the tiling", algebraic core.
   For EVERY commutative ring R, every well-formed unit cell (crossings in {-1,0,1}^2; multi-edges and
   self-loops allowed), all nx, ny >= 1, all bond weights t (at [k_e,j_e]) and tb (at [j_e,k_e]), and every
   pair (wx, wy) of an nx-th and an ny-th root of unity with inverses wxi, wyi:
        A_tiled . Phi  =  Phi . H(wx, wy)
   where A_tiled is the real-space bond-sum Hamiltonian of tile_unit_cell(cell, nx, ny) with the weights
   repeated per cell, H(w) the Bloch matrix in the code's convention (t_e w^{c_e} at [k_e,j_e], tb_e w^{-c_e}
   at [j_e,k_e]) and Phi[(m,s),s'] = delta_{s s'} wx^{-mx} wy^{-my} (m = my*nx + mx).  Every column of Phi is
   thus mapped by A_tiled into the column space of Phi with matrix H(w): H(w)'s eigenvalues are eigenvalues
   of the tiling. *)
Theorem C08_bloch_intertwines :
  forall (R : Type) (rO rI : R) (radd rmul rsub : R -> R -> R) (ropp : R -> R),
  ring_theory rO rI radd rmul rsub ropp eq ->
  forall (c : unit_cell) (nx ny : Z) (t tb : list R) (wx wxi wy wyi : R),
  wf_cell c = true -> 1 <= nx -> 1 <= ny ->
  zlen t = n_uedges c -> zlen tb = n_uedges c ->
  rmul wx wxi = rI -> rmul wy wyi = rI ->
  rpow R rI rmul wx (Z.to_nat nx) = rI -> rpow R rI rmul wy (Z.to_nat ny) = rI ->
  forall row s' : Z, 0 <= row < nx * ny * n_sites c -> 0 <= s' < n_sites c ->
  mat_mul R rO radd rmul (nx * ny * n_sites c)
          (ham_entry R rO radd (tile_edges c nx ny) (tile_weights R t nx ny) (tile_weights R tb nx ny))
          (bloch_phi R rO rI rmul nx (n_sites c) wxi wyi) row s'
  = mat_mul R rO radd rmul (n_sites c)
          (bloch_phi R rO rI rmul nx (n_sites c) wxi wyi)
          (hk_entry R rO rI radd rmul (uc_edges c) (uc_crossing c) t tb wx wxi wy wyi) row s'.
Proof. exact bloch_intertwines. Qed.
Print Assumptions C08_bloch_intertwines.

(* The tiling that A_tiled refers to is the one tile_unit_cell builds (shared with C10): copy (mx,my) of
   edge e = (j,k), crossing (cx,cy), joins site j of cell (mx,my) to site k of cell
   ((mx+cx) mod nx, (my+cy) mod ny); its crossing is the wrap indicator; exactly nx*ny copies. *)
Theorem C08_tile_structure :
  forall (c : unit_cell) (nx ny : Z), 1 <= nx -> 1 <= ny -> wf_cell c = true ->
  let T := tile_unit_cell c nx ny in
  let ns := n_sites c in
  let ne := n_uedges c in
  z_scale T = uc_scale c * nx * ny /\
  zlen (z_pos T) = nx * ny * ns /\ zlen (z_edges T) = nx * ny * ne /\ zlen (z_crossing T) = nx * ny * ne /\
  (forall mx my s, 0 <= mx < nx -> 0 <= my < ny -> 0 <= s < ns ->
     znth ((my * nx + mx) * ns + s) (z_pos T) (0,0)
     = ((fst (znth s (uc_points c) (0,0)) + mx * uc_scale c) * ny,
        (snd (znth s (uc_points c) (0,0)) + my * uc_scale c) * nx)) /\
  (forall mx my e, 0 <= mx < nx -> 0 <= my < ny -> 0 <= e < ne ->
     let j := fst (znth e (uc_edges c) (0,0)) in
     let k := snd (znth e (uc_edges c) (0,0)) in
     let cx := fst (znth e (uc_crossing c) (0,0)) in
     let cy := snd (znth e (uc_crossing c) (0,0)) in
     znth ((my * nx + mx) * ne + e) (z_edges T) (0,0)
       = (j + (my * nx + mx) * ns, k + (((my + cy) mod ny) * nx + (mx + cx) mod nx) * ns) /\
     znth ((my * nx + mx) * ne + e) (z_crossing T) (0,0) = ((mx + cx) / nx, (my + cy) / ny)).
Proof. exact tile_structure. Qed.
Print Assumptions C08_tile_structure.

(* Clause "the Bloch Hamiltonian is Hermitian": for any ring involution conj with conj w = w^-1 (|w| = 1)
   and tb = conj t (the code's hoppings.conj()):  conj (H(w)[b,a]) = H(w)[a,b]. *)
Theorem C08_hk_hermitian :
  forall (R : Type) (rO rI : R) (radd rmul rsub : R -> R -> R) (ropp : R -> R),
  ring_theory rO rI radd rmul rsub ropp eq ->
  forall conj : R -> R,
  (forall x y, conj (radd x y) = radd (conj x) (conj y)) ->
  (forall x y, conj (rmul x y) = rmul (conj x) (conj y)) ->
  conj rO = rO -> conj rI = rI -> (forall x, conj (conj x) = x) ->
  forall wx wxi wy wyi : R, conj wx = wxi -> conj wy = wyi ->
  forall (es cr : list (Z * Z)) (t : list R) (a b : Z),
  conj (hk_entry R rO rI radd rmul es cr t (map conj t) wx wxi wy wyi b a)
  = hk_entry R rO rI radd rmul es cr t (map conj t) wx wxi wy wyi a b.
Proof. exact hk_hermitian. Qed.
Print Assumptions C08_hk_hermitian.

(* Clause "equals the real-space Hamiltonian at k = 0": H(1,1) = bond-sum Hamiltonian of the cell. *)
Theorem C08_hk_gamma :
  forall (R : Type) (rO rI : R) (radd rmul rsub : R -> R -> R) (ropp : R -> R),
  ring_theory rO rI radd rmul rsub ropp eq ->
  forall (es cr : list (Z * Z)) (t tb : list R) (a b : Z),
  (Nat.min (length es) (Nat.min (length t) (length tb)) <= length cr)%nat ->
  hk_entry R rO rI radd rmul es cr t tb rI rI rI rI a b = ham_entry R rO radd es t tb a b.
Proof. exact hk_gamma. Qed.
Print Assumptions C08_hk_gamma.

(* Clause "2*pi-periodic in each momentum component".  In the model H depends on k only through
   (wx, wy) = (e^{i kx}, e^{i ky}) BY CONSTRUCTION (hk_entry takes w, not k).  For the executable instance that
   is compared entry by entry with the implementation (w = i^q, k = q*pi/2) periodicity reads: *)
Theorem C08_hk_periodic :
  forall (es cr : list (Z * Z)) (J : list Z) (col : option (list Z)) (u : list Z) (qa qb a b : Z),
  hk_gauss es cr J col u (qa + 4) qb a b = hk_gauss es cr J col u qa qb a b /\
  hk_gauss es cr J col u qa (qb + 4) a b = hk_gauss es cr J col u qa qb a b.
Proof. exact hk_periodic_claim. Qed.
Print Assumptions C08_hk_periodic.

(* the same instance is Hermitian and equals the model of majorana_hamiltonian at k = 0 *)
Theorem C08_hk_gauss_hermitian_gamma :
  forall (es cr : list (Z * Z)) (J : list Z) (col : option (list Z)) (u : list Z) (qa qb a b : Z),
  gconj (hk_gauss es cr J col u qa qb b a) = hk_gauss es cr J col u qa qb a b /\
  ((length es <= length cr)%nat -> hk_gauss es cr J col u 0 0 a b = ham_gauss es J col u a b).
Proof. exact hk_gauss_hermitian_gamma_claim. Qed.
Print Assumptions C08_hk_gauss_hermitian_gamma.

(* Clause "the analysis helpers report the mean of the lower half of the eigenvalues over the sampled grid,
   the smallest absolute eigenvalue on it, and the per-momentum minimum absolute eigenvalue" — the
   functionals of Model/Bloch.v (tied to analyse_hk / gap_over_phase_space by K) are exactly these: *)
Theorem C08_k_grid :
  forall nkx nky : Z, 1 <= nkx -> 1 <= nky ->
  length (k_grid nkx nky) = Z.to_nat (nkx * nky) /\
  (forall mx my, 0 <= mx < nkx -> 0 <= my < nky ->
     znth (my * nkx + mx) (k_grid nkx nky) (0%Q, 0%Q) = (mx # Z.to_pos nkx, my # Z.to_pos nky)) /\
  (forall p, In p (k_grid nkx nky) -> (0 <= fst p < 1)%Q /\ (0 <= snd p < 1)%Q).
Proof. exact k_grid_spec. Qed.
Print Assumptions C08_k_grid.

Theorem C08_analyse_mean :
  forall (spectra : list (list Q)) (n : Z), spectra <> [] -> 0 < n ->
  (ground_state_per_site spectra n * (inject_Z (Z.of_nat (length spectra)) * inject_Z n)
   == 2 * qsum (flat_map lower_half spectra))%Q.
Proof. exact ground_state_per_site_spec. Qed.
Print Assumptions C08_analyse_mean.

Theorem C08_lower_half :
  forall es : list Q, length (lower_half es) = Nat.div (length es) 2 /\
                      es = lower_half es ++ skipn (Nat.div (length es) 2) es.
Proof. exact lower_half_claim. Qed.
Print Assumptions C08_lower_half.

Theorem C08_analyse_gap :
  forall (spectra : list (list Q)) (m : Q), gap_size spectra = Some m ->
  (forall x, In x (flat_map lower_half spectra) -> (m <= Qabs x)%Q) /\
  (exists x, In x (flat_map lower_half spectra) /\ (m == Qabs x)%Q).
Proof. exact gap_size_spec. Qed.
Print Assumptions C08_analyse_gap.

Theorem C08_gap_grid :
  forall spectra : list (list Q),
  length (gaps spectra) = length spectra /\
  (forall i, nth i (gaps spectra) None = qabs_min (nth i spectra [])) /\
  (forall l m, qabs_min l = Some m ->
     (forall x, In x l -> (m <= Qabs x)%Q) /\ (exists x, In x l /\ (m == Qabs x)%Q)).
Proof. exact gap_grid_claim. Qed.
Print Assumptions C08_gap_grid.

(* Non-vacuity: the hypotheses of C08_bloch_intertwines hold for the 4-site honeycomb cell
   honeycomb_lattice(1) — which has PARALLEL edges (2,1),(2,1) and (0,3),(0,3) — over the Gaussian integers with
   wx = i (nx = 4), wy = -1 (ny = 2), weights t_e = i and tb_e = conj t_e = -i; the Bloch matrix has the
   accumulated entry H[1,2] = t*w^0 + t*wx = i + i*i = -1 + i there. *)
Definition hc_cell : unit_cell :=
  let L := honeycomb 1 in mkCell (z_scale L) (z_pos L) (z_edges L) (z_crossing L).
Example C08_bloch_nonvacuous :
  ring_theory g0 g1 gadd gmul gsub gopp eq /\
  wf_cell hc_cell = true /\ n_sites hc_cell = 4 /\ n_uedges hc_cell = 6 /\
  znth 1 (uc_edges hc_cell) (0,0) = (2, 1) /\ znth 3 (uc_edges hc_cell) (0,0) = (2, 1) /\
  znth 1 (uc_crossing hc_cell) (0,0) = (0, 0) /\ znth 3 (uc_crossing hc_cell) (0,0) = (1, 0) /\
  let t := repeat (0, 1) 6 in let tb := map gconj t in
  zlen t = n_uedges hc_cell /\ zlen tb = n_uedges hc_cell /\
  gmul (0, 1) (0, -1) = g1 /\ gmul (-1, 0) (-1, 0) = g1 /\
  rpow gz g1 gmul (0, 1) (Z.to_nat 4) = g1 /\ rpow gz g1 gmul (-1, 0) (Z.to_nat 2) = g1 /\
  hk_entry gz g0 g1 gadd gmul (uc_edges hc_cell) (uc_crossing hc_cell) t tb (0, 1) (0, -1) (-1, 0) (-1, 0) 1 2 = (-1, 1).
Proof. split; [exact gz_ring|]. vm_compute. repeat split; reflexivity. Qed.

(* ====================================================================================================
   bloch_complete — the step from the intertwining relation to EQUALITY OF SPECTRA (main clause:
   "the union over the nx x ny allowed momenta of the eigenvalues of the Bloch Hamiltonian equals the
   spectrum of the real-space Hamiltonian of the nx x ny periodic tiling"), machine-checked in MathComp.

   Setting: ANY field F (MathComp fieldType) that contains a primitive nx-th root of unity zx and a
   primitive ny-th root zy, and in which nx*ny is invertible (char F does not divide nx*ny; automatic in
   characteristic 0, e.g. F = algC, zx = e^{2 pi i/nx}).  The allowed momentum k = 2 pi (kx/nx, ky/ny)
   is the pair of phases (zx^kx, zy^ky).  The matrices are TABULATED from the executable entry functions
   of Model/Bloch.v at the ring (F, 0, 1, +, * ) — C08_bloch_matrices states their entries:
     tiled_mx c nx ny t tb          'M[F]_(nx*ny*ns)  = ham_entry of tile_unit_cell(c, nx, ny), weights repeated
     hk_mx c t tb wx wy             'M[F]_ns          = hk_entry at phases (wx, wx^-1, wy, wy^-1)
     bloch_mx c nx ny zx zy         all nx*ny Bloch-wave blocks Phi_k of C08_bloch_intertwines side by side
     bloch_mx' c nx ny zx zy        the conjugate phases, transposed
     hk_diag_mx c nx ny t tb zx zy  the direct sum of the H(k) over the grid.
   NOT covered: that the float eigvalsh/exp of the implementation compute these spectra (checked by S). *)
From mathcomp Require Import all_ssreflect all_algebra all_field.
From Koala Require Import Proofs.BlochCompleteAlg Proofs.BlochComplete.
Import GRing.Theory Num.Theory.
Close Scope Z_scope.
Local Open Scope ring_scope.

(* the entries of the tabulated matrices, in terms of Model/Bloch.v *)
Theorem C08_bloch_matrices :
  forall (F : fieldType) (c : unit_cell) (nx ny : nat) (t tb : list F) (zx zy wx wy : F),
  let ns := n_sites_nat c in
  n_sites c = Z.of_nat ns /\
  (forall i j : 'I_(nx * ny * ns),
     tiled_mx c nx ny t tb i j
     = ham_entry F 0 +%R (tile_edges c (Z.of_nat nx) (Z.of_nat ny))
         (tile_weights F t (Z.of_nat nx) (Z.of_nat ny)) (tile_weights F tb (Z.of_nat nx) (Z.of_nat ny))
         (Z.of_nat i) (Z.of_nat j)) /\
  (forall a b : 'I_ns,
     hk_mx c t tb wx wy a b
     = hk_entry F 0 1 +%R *%R (uc_edges c) (uc_crossing c) t tb wx wx^-1 wy wy^-1 (Z.of_nat a) (Z.of_nat b)) /\
  ((0 < nx)%N -> forall r j : 'I_(nx * ny * ns),
     bloch_mx c nx ny zx zy r j
     = (if (r %% ns == j %% ns)%N
        then ((zx ^+ ((j %/ ns) %% nx))^-1) ^+ ((r %/ ns) %% nx) * ((zy ^+ ((j %/ ns) %/ nx))^-1) ^+ ((r %/ ns) %/ nx)
        else 0) /\
     bloch_mx' c nx ny zx zy j r
     = (if (r %% ns == j %% ns)%N
        then (zx ^+ ((j %/ ns) %% nx)) ^+ ((r %/ ns) %% nx) * (zy ^+ ((j %/ ns) %/ nx)) ^+ ((r %/ ns) %/ nx)
        else 0)) /\
  (forall i j : 'I_(nx * ny * ns),
     hk_diag_mx c nx ny t tb zx zy i j
     = (if (i %/ ns == j %/ ns)%N
        then hk_mx c t tb (zx ^+ ((i %/ ns) %% nx)) (zy ^+ ((i %/ ns) %/ nx))
                   (Ordinal (ltn_pmod i (ord_ns_gt0 i))) (Ordinal (ltn_pmod j (ord_ns_gt0 i)))
        else 0)).
Proof. exact bloch_matrices_entries. Qed.
Print Assumptions C08_bloch_matrices.

(* Discrete Fourier orthogonality: for a primitive n-th root of unity z in a field and a, b < n,
   sum_{k<n} (z^k)^{-a} (z^k)^{b} = n * delta_{ab}  (DFT matrix times its conjugate = n * 1). *)
Theorem C08_fourier_orthogonality :
  forall (F : fieldType) (n : nat) (z : F) (a b : nat),
  n.-primitive_root z -> (a < n)%N -> (b < n)%N ->
  \sum_(k < n) ((z ^+ k)^-1) ^+ a * (z ^+ k) ^+ b = if a == b then n%:R else 0.
Proof. exact fourier_orthogonality. Qed.
Print Assumptions C08_fourier_orthogonality.

(* Explicit invertibility of the full Bloch-wave matrix and the similarity (for EVERY unit cell — no
   well-formedness needed for Phi . Phi' = (nx*ny) . 1):
     Phi . Phi' = (nx*ny) . 1 ;   and for well-formed cells, if nx*ny is invertible in F,
     Phi is a unit and   A_tiled = Phi . (direct sum over the grid of H(k)) . ((nx*ny)^-1 Phi'). *)
Theorem C08_bloch_invertible :
  forall (F : fieldType) (nx ny : nat) (zx zy : F),
  nx.-primitive_root zx -> ny.-primitive_root zy ->
  forall c : unit_cell,
  bloch_mx c nx ny zx zy *m bloch_mx' c nx ny zx zy = ((nx * ny)%:R)%:M.
Proof. exact bloch_mx_orthogonal. Qed.
Print Assumptions C08_bloch_invertible.

Theorem C08_bloch_similar :
  forall (F : fieldType) (nx ny : nat) (zx zy : F),
  nx.-primitive_root zx -> ny.-primitive_root zy ->
  forall (c : unit_cell) (t tb : list F),
  wf_cell c = true -> zlen t = n_uedges c -> zlen tb = n_uedges c ->
  (nx * ny)%:R != 0 :> F ->
  bloch_mx c nx ny zx zy \in unitmx /\
  bloch_mx c nx ny zx zy *m (((nx * ny)%:R)^-1 *: bloch_mx' c nx ny zx zy) = 1%:M /\
  tiled_mx c nx ny t tb *m bloch_mx c nx ny zx zy
    = bloch_mx c nx ny zx zy *m hk_diag_mx c nx ny t tb zx zy /\
  tiled_mx c nx ny t tb
    = bloch_mx c nx ny zx zy *m hk_diag_mx c nx ny t tb zx zy *m (((nx * ny)%:R)^-1 *: bloch_mx' c nx ny zx zy).
Proof.
move=> F nx ny zx zy Hzx Hzy c t tb Hwf Ht Htb HN; split; first exact: bloch_mx_unit.
split; first exact: bloch_mx_inverse.
split; [exact: bloch_mx_intertwines | exact: tiled_similar].
Qed.
Print Assumptions C08_bloch_similar.

(* MAIN CLAUSE, with multiplicities: the characteristic polynomial of the real-space Hamiltonian of the
   nx x ny tiling is the product over the nx*ny allowed momenta of the characteristic polynomials of
   the Bloch Hamiltonians — i.e. the spectrum of the tiling is the multiset union of the Bloch spectra. *)
Theorem C08_bloch_complete :
  forall (F : fieldType) (nx ny : nat) (zx zy : F),
  nx.-primitive_root zx -> ny.-primitive_root zy ->
  forall (c : unit_cell) (t tb : list F),
  wf_cell c = true -> zlen t = n_uedges c -> zlen tb = n_uedges c ->
  (nx * ny)%:R != 0 :> F ->
  char_poly (tiled_mx c nx ny t tb)
  = \prod_(kx < nx) \prod_(ky < ny) char_poly (hk_mx c t tb (zx ^+ kx) (zy ^+ ky)).
Proof. exact bloch_complete_grid. Qed.
Print Assumptions C08_bloch_complete.

(* MAIN CLAUSE, as sets: lam is an eigenvalue of the tiled Hamiltonian iff it is an eigenvalue of the
   Bloch Hamiltonian at some allowed momentum. *)
Theorem C08_bloch_spectrum_union :
  forall (F : fieldType) (nx ny : nat) (zx zy : F),
  nx.-primitive_root zx -> ny.-primitive_root zy ->
  forall (c : unit_cell) (t tb : list F),
  wf_cell c = true -> zlen t = n_uedges c -> zlen tb = n_uedges c ->
  (nx * ny)%:R != 0 :> F ->
  forall lam : F,
  eigenvalue (tiled_mx c nx ny t tb) lam
  = [exists kx : 'I_nx, exists ky : 'I_ny, eigenvalue (hk_mx c t tb (zx ^+ kx) (zy ^+ ky)) lam].
Proof. exact bloch_complete_eigenvalue. Qed.
Print Assumptions C08_bloch_spectrum_union.

(* Non-vacuity: the hypotheses hold over F = algC (the algebraic numbers) for the 4-site honeycomb cell
   with PARALLEL edges, nx = 4 with zx = i, ny = 2 with zy = -1, hoppings t_e = i, tb_e = -i; the
   conclusion of C08_bloch_complete is then the 32 x 32 statement below. *)
Example C08_bloch_complete_nonvacuous :
  let t : list algC := nseq 6 'i in let tb : list algC := nseq 6 (- 'i) in
  4.-primitive_root ('i : algC) /\ 2.-primitive_root (-1 : algC) /\ (4 * 2)%:R != 0 :> algC /\
  wf_cell hc_cell = true /\ zlen t = n_uedges hc_cell /\ zlen tb = n_uedges hc_cell /\
  n_sites_nat hc_cell = 4%N /\
  char_poly (tiled_mx hc_cell 4 2 t tb)
  = \prod_(kx < 4) \prod_(ky < 2) char_poly (hk_mx hc_cell t tb ('i ^+ kx) ((-1) ^+ ky)).
Proof.
move=> t tb.
have h1 : wf_cell hc_cell = true by vm_compute.
have [ht htb] : zlen t = n_uedges hc_cell /\ zlen tb = n_uedges hc_cell.
  by rewrite /t /tb; move: ('i : algC) (- 'i : algC) => x y; vm_compute.
have h3 : (4 * 2)%:R != 0 :> algC by rewrite pnatr_eq0.
do ![split=> //]; [exact: prim_root_i | exact: prim_root_neg1 |].
exact: (@C08_bloch_complete [fieldType of algC] 4 2 'i (-1) (prim_root_i _) (prim_root_neg1 _)).
Qed.
Print Assumptions C08_bloch_complete_nonvacuous.
