(* Props/C08.v — property C08: Bloch Hamiltonian reproduces the tiled spectrum. *)
From Coq Require Import List ZArith Bool Arith.
From Koala Require Import Gen.TilingGen Model.Lattice Model.Tiling Model.Bloch Proofs.BlochFacts.
Import ListNotations.
Open Scope Z_scope.

Theorem C08_gi_pow_periodic : forall a, gi_pow (a + 4) = gi_pow a.
Proof. exact gi_pow_periodic. Qed.
Print Assumptions C08_gi_pow_periodic.
