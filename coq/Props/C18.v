From Coq Require Import List ZArith Bool Arith.
From Koala Require Import Model.Marker Proofs.MarkerFacts.
Import ListNotations.
Open Scope Z_scope.

(* clause "theta the indicator of positions STRICTLY below the crosshair coordinate":
   a site whose coordinate equals the crosshair coordinate has theta = 0 *)
Theorem C18_crosshair_strict : forall xs X j, (j < length xs)%nat -> nth j xs 0 = X ->
  nth j (theta xs X) gz0 = gz0.
Proof. exact theta_on_vertex_is_zero. Qed.
Print Assumptions C18_crosshair_strict.
