(* Props/C18.v — C18: Chern and crosshair markers implement their defining formula and symmetries.

   Setting: an arbitrary numClosedFieldType C (MathComp 1.15), every size n, P : 'M[C]_n,
     hermitian P  :=  (map_mx conjC P)^T = P          idempotent P := P *m P = P
     realv a      :=  forall j, a 0 j \is Num.real    signv d := forall j, d 0 j * d 0 j = 1
     marker P a b i     := 'Im ((P *m diag_mx a *m P *m diag_mx b *m P) i i)      (prefactor 4 pi symbolic)
     crosshair P x y X Y := marker P (stepv x X) (stepv y Y),  stepv x X j = (x_j < X)%:R   (STRICT)
     chern P x y         := marker P x y
   The executable model (Model/Marker.v; extracted and compared with koala/chern_number.py by
   harness/c18.py) is tied to these definitions by the *_def theorems below.
   NOT covered by a theorem: the float matrix products of numpy and the value of 4*pi (shell; K/S only). *)
From Coq Require Import ZArith.
From Coq Require List.
From mathcomp Require Import all_ssreflect all_algebra.
From mathcomp Require Import fingroup perm ssrZ.
From Koala Require Import Model.Marker Proofs.MarkerFacts Proofs.MarkerMx Proofs.MarkerBridge.
Set Implicit Arguments. Unset Strict Implicit. Unset Printing Implicit Defensive.
Import GRing.Theory Num.Theory.
Local Open Scope ring_scope.

(* ---- clause "equals 4 pi times Im of the diagonal of P theta_x P theta_y P" (operator order, Im, diagonal) ---- *)

(* the generic list program of chern_number.py:26-27/48-49 (left-associated @, np.diag both ways, .imag), run
   on lists over C, computes the property's formula of the matrices the lists denote *)
Theorem C18_marker_def : forall (C : numClosedFieldType) (n : nat) (P : list (list C)) (a b : list C),
  wf_shape C n P a b = true ->
  size (lmarkerC n P a b) = n /\
  forall i : 'I_n, nth 0 (lmarkerC n P a b) i = marker (mx_of n P) (rv_of n a) (rv_of n b) i.
Proof. exact lmarker_correct. Qed.
Print Assumptions C18_marker_def.

(* the extracted instance (Gaussian integers), embedded by gzC (a,b) = a + i b *)
Theorem C18_marker_def_extracted : forall (C : numClosedFieldType) (n : nat) (P : list (list gz)) (a b : list gz) (l : list Z),
  gz_marker n P a b = Some l ->
  size l = n /\ forall i : 'I_n, zC C (nth Z0 l i) = marker (gzmx C n P) (gzrv C n a) (gzrv C n b) i.
Proof. exact gz_marker_correct. Qed.
Print Assumptions C18_marker_def_extracted.

(* crosshair_marker (chern_number.py:5-29): strict step functions of the positions *)
Theorem C18_crosshair_def : forall (C : numClosedFieldType) (n : nat) (P : list (list gz)) (xs ys : list Z) (X Y : Z) (l : list Z),
  size xs = n -> crosshair_num P xs ys X Y = Some l ->
  size l = n /\
  forall i : 'I_n, zC C (nth Z0 l i) = crosshair (gzmx C n P) (zrv C n xs) (zrv C n ys) (zC C X) (zC C Y) i.
Proof. exact crosshair_num_correct. Qed.
Print Assumptions C18_crosshair_def.

(* chern_marker (chern_number.py:32-51): the position operators themselves *)
Theorem C18_chern_def : forall (C : numClosedFieldType) (n : nat) (P : list (list gz)) (xs ys : list Z) (l : list Z),
  size xs = n -> chern_num P xs ys = Some l ->
  size l = n /\ forall i : 'I_n, zC C (nth Z0 l i) = chern (gzmx C n P) (zrv C n xs) (zrv C n ys) i.
Proof. exact chern_num_correct. Qed.
Print Assumptions C18_chern_def.

(* the decidable hypothesis check run by the harness on every exact input is sound *)
Theorem C18_projector_check_sound : forall (C : numClosedFieldType) (n : nat) (D : Z) (P : list (list gz)),
  gz_projb n D P = true ->
  hermitian (gzmx C n P) /\ gzmx C n P *m gzmx C n P = zC C D *: gzmx C n P.
Proof. exact gz_projb_sound. Qed.
Print Assumptions C18_projector_check_sound.

(* common denominators: P = Pz / D, positions = xs / S  ==>  marker = numerator / (D^3 S^2) *)
Theorem C18_marker_scaleP : forall (C : numClosedFieldType) (n : nat) (c : C) (P : 'M[C]_n) (a b : 'rV[C]_n) (i : 'I_n),
  c \is Num.real -> marker (c *: P) a b i = c ^+ 3 * marker P a b i.
Proof. exact marker_scaleP. Qed.
Print Assumptions C18_marker_scaleP.

Theorem C18_marker_scale_ab : forall (C : numClosedFieldType) (n : nat) (s t : C) (P : 'M[C]_n) (a b : 'rV[C]_n) (i : 'I_n),
  s \is Num.real -> t \is Num.real -> marker P (s *: a) (t *: b) i = s * t * marker P a b i.
Proof. exact marker_scale_ab. Qed.
Print Assumptions C18_marker_scale_ab.

(* ---- clause "strictly below": a site exactly on the crosshair coordinate has theta = 0 ---- *)
Theorem C18_crosshair_strict : forall (C : numClosedFieldType) (n : nat) (x : 'rV[C]_n) (X : C) (j : 'I_n),
  x 0 j = X -> stepv x X 0 j = 0.
Proof. exact stepv_on_vertex. Qed.
Print Assumptions C18_crosshair_strict.

Theorem C18_crosshair_strict_model : forall (xs : list Z) (X : Z) (j : nat), (j < length xs)%coq_nat -> List.nth j xs Z0 = X ->
  List.nth j (theta xs X) gz0 = gz0.
Proof. exact theta_on_vertex_is_zero. Qed.
Print Assumptions C18_crosshair_strict_model.

Theorem C18_crosshair_below : forall (C : numClosedFieldType) (n : nat) (x : 'rV[C]_n) (X : C) (j : 'I_n),
  (x 0 j < X)%R -> stepv x X 0 j = 1.
Proof. exact stepv_below. Qed.
Print Assumptions C18_crosshair_below.

(* ---- clause "both are real" ---- *)
Theorem C18_marker_real : forall (C : numClosedFieldType) (n : nat) (P : 'M[C]_n) (a b : 'rV[C]_n) (i : 'I_n),
  marker P a b i \is Num.real.
Proof. exact marker_real. Qed.
Print Assumptions C18_marker_real.

(* ---- clause "sum to zero over all sites" ---- *)
Theorem C18_marker_sum_zero : forall (C : numClosedFieldType) (n : nat) (P : 'M[C]_n) (a b : 'rV[C]_n),
  hermitian P -> idempotent P -> realv a -> realv b -> \sum_i marker P a b i = 0.
Proof. exact marker_sum_zero. Qed.
Print Assumptions C18_marker_sum_zero.

Theorem C18_crosshair_sum_zero : forall (C : numClosedFieldType) (n : nat) (P : 'M[C]_n) (x y : 'rV[C]_n) (X Y : C),
  hermitian P -> idempotent P -> \sum_i crosshair P x y X Y i = 0.
Proof. exact crosshair_sum_zero. Qed.
Print Assumptions C18_crosshair_sum_zero.

Theorem C18_chern_sum_zero : forall (C : numClosedFieldType) (n : nat) (P : 'M[C]_n) (x y : 'rV[C]_n),
  hermitian P -> idempotent P -> realv x -> realv y -> \sum_i chern P x y i = 0.
Proof. exact chern_sum_zero. Qed.
Print Assumptions C18_chern_sum_zero.

(* the integer numerators printed by the extracted model sum to zero whenever the projector check accepts *)
Theorem C18_model_sum_zero : forall (C : numClosedFieldType) (n : nat) (D : Z) (P : list (list gz)) (a b : list gz) (l : list Z),
  gz_projb n D P = true ->
  (forall g, List.In g a -> g.2 = Z0) -> (forall g, List.In g b -> g.2 = Z0) ->
  gz_marker n P a b = Some l -> \sum_(i < n) zC C (nth Z0 l i) = 0.
Proof. exact gz_marker_sum_zero. Qed.
Print Assumptions C18_model_sum_zero.

(* ---- clause "change sign when the x and y coordinates are exchanged" ---- *)
Theorem C18_marker_swap : forall (C : numClosedFieldType) (n : nat) (P : 'M[C]_n) (a b : 'rV[C]_n) (i : 'I_n),
  hermitian P -> realv a -> realv b -> marker P b a i = - marker P a b i.
Proof. exact marker_swap. Qed.
Print Assumptions C18_marker_swap.

Theorem C18_crosshair_swap : forall (C : numClosedFieldType) (n : nat) (P : 'M[C]_n) (x y : 'rV[C]_n) (X Y : C) (i : 'I_n),
  hermitian P -> crosshair P y x Y X i = - crosshair P x y X Y i.
Proof. exact crosshair_swap. Qed.
Print Assumptions C18_crosshair_swap.

Theorem C18_chern_swap : forall (C : numClosedFieldType) (n : nat) (P : 'M[C]_n) (x y : 'rV[C]_n) (i : 'I_n),
  hermitian P -> realv x -> realv y -> chern P y x i = - chern P x y i.
Proof. exact chern_swap. Qed.
Print Assumptions C18_chern_swap.

(* ---- clause "follow the sites under vertex relabelling" ----
   relab s P i j = P (s i) (s j), relabv s a j = a (s j)  (permute_vertices: new site i = old site ordering[i]);
   relab s P is the conjugation by the permutation matrix of s *)
Theorem C18_relabel_is_permutation_conjugation : forall (C : numClosedFieldType) (n : nat) (s : 'S_n) (M : 'M[C]_n),
  relab s M = perm_mx s *m M *m (perm_mx s)^T.
Proof. exact relab_perm_mx. Qed.
Print Assumptions C18_relabel_is_permutation_conjugation.

Theorem C18_marker_relabel : forall (C : numClosedFieldType) (n : nat) (s : 'S_n) (P : 'M[C]_n) (a b : 'rV[C]_n) (i : 'I_n),
  marker (relab s P) (relabv s a) (relabv s b) i = marker P a b (s i).
Proof. exact marker_relabel. Qed.
Print Assumptions C18_marker_relabel.

Theorem C18_crosshair_relabel : forall (C : numClosedFieldType) (n : nat) (s : 'S_n) (P : 'M[C]_n) (x y : 'rV[C]_n) (X Y : C) (i : 'I_n),
  crosshair (relab s P) (relabv s x) (relabv s y) X Y i = crosshair P x y X Y (s i).
Proof. exact crosshair_relabel. Qed.
Print Assumptions C18_crosshair_relabel.

Theorem C18_chern_relabel : forall (C : numClosedFieldType) (n : nat) (s : 'S_n) (P : 'M[C]_n) (x y : 'rV[C]_n) (i : 'I_n),
  chern (relab s P) (relabv s x) (relabv s y) i = chern P x y (s i).
Proof. exact chern_relabel. Qed.
Print Assumptions C18_chern_relabel.

Theorem C18_relabel_keeps_projector : forall (C : numClosedFieldType) (n : nat) (s : 'S_n) (P : 'M[C]_n),
  (hermitian P -> hermitian (relab s P)) /\ (idempotent P -> idempotent (relab s P)).
Proof. exact (fun C n s P => conj (@relab_hermitian C n s P) (@relab_idempotent C n s P)). Qed.
Print Assumptions C18_relabel_keeps_projector.

(* ---- clause "unchanged by site-wise sign (gauge) changes of the states spanning P": P -> D P D ---- *)
Theorem C18_marker_gauge : forall (C : numClosedFieldType) (n : nat) (d : 'rV[C]_n) (P : 'M[C]_n) (a b : 'rV[C]_n) (i : 'I_n),
  signv d -> marker (gaugeP d P) a b i = marker P a b i.
Proof. exact marker_gauge. Qed.
Print Assumptions C18_marker_gauge.

Theorem C18_crosshair_gauge : forall (C : numClosedFieldType) (n : nat) (d : 'rV[C]_n) (P : 'M[C]_n) (x y : 'rV[C]_n) (X Y : C) (i : 'I_n),
  signv d -> crosshair (gaugeP d P) x y X Y i = crosshair P x y X Y i.
Proof. exact crosshair_gauge. Qed.
Print Assumptions C18_crosshair_gauge.

Theorem C18_chern_gauge : forall (C : numClosedFieldType) (n : nat) (d : 'rV[C]_n) (P : 'M[C]_n) (x y : 'rV[C]_n) (i : 'I_n),
  signv d -> chern (gaugeP d P) x y i = chern P x y i.
Proof. exact chern_gauge. Qed.
Print Assumptions C18_chern_gauge.

Theorem C18_gauge_keeps_projector : forall (C : numClosedFieldType) (n : nat) (d : 'rV[C]_n) (P : 'M[C]_n),
  (realv d -> hermitian P -> hermitian (gaugeP d P)) /\ (signv d -> idempotent P -> idempotent (gaugeP d P)).
Proof. exact (fun C n d P => conj (@gauge_hermitian C n d P) (@gauge_idempotent C n d P)). Qed.
Print Assumptions C18_gauge_keeps_projector.

(* ---- non-vacuity ---- *)
(* a rank-2 projector in dimension 4 (P4z / 4): accepted by the check, non-zero markers, sign flip under
   x <-> y, and the crosshair exactly on x_1 does not count site 1 *)
Example C18_model_nonvacuous :
  gz_projb 4 (Zpos 4) P4z = true /\
  crosshair_num P4z xs4 ys4 (Zpos 2) (Zpos 2) = Some [:: Zpos 1; Zneg 1; Zneg 1; Zpos 1] /\
  crosshair_num P4z ys4 xs4 (Zpos 2) (Zpos 2) = Some [:: Zneg 1; Zpos 1; Zpos 1; Zneg 1] /\
  crosshair_num P4z xs4 ys4 (Zpos 1) (Zpos 2) = Some [:: Z0; Zneg 1; Z0; Zpos 1] /\
  chern_num P4z xs4 ys4 = Some [:: Zpos 3; Zneg 3; Zneg 3; Zpos 3] /\
  chern_num P4z ys4 xs4 = Some [:: Zneg 3; Zpos 3; Zpos 3; Zneg 3].
Proof. exact P4z_example. Qed.

(* over every numClosedFieldType there is a Hermitian idempotent P with real positions and a non-zero crosshair marker *)
Example C18_hypotheses_nonvacuous : forall C : numClosedFieldType,
  exists (P : 'M[C]_4) (x y : 'rV[C]_4) (X Y : C) (i : 'I_4),
    [/\ hermitian P, idempotent P, realv x, realv y & crosshair P x y X Y i != 0].
Proof. exact marker_hyps_nonvacuous. Qed.
Print Assumptions C18_hypotheses_nonvacuous.
