From Coq Require Import List ZArith Bool Arith QArith.
From Koala Require Import Model.Lattice Model.Delaunay Proofs.DelaunayFacts.
Import ListNotations.
Open Scope Z_scope.

(* algebraic core of "incircle decides the circumdisc": 4 o incircle = R^2-term minus distance-term *)
Theorem C03_incircle_identity : forall a b c d : pt,
  4 * orient2d a b c * incircle a b c d =
  cc_r2num a b c
  - (2 * orient2d a b c * (fst d - fst a) - fst (cc_off a b c)) * (2 * orient2d a b c * (fst d - fst a) - fst (cc_off a b c))
  - (2 * orient2d a b c * (snd d - snd a) - snd (cc_off a b c)) * (2 * orient2d a b c * (snd d - snd a) - snd (cc_off a b c)).
Proof. exact incircle_identity. Qed.
Print Assumptions C03_incircle_identity.
