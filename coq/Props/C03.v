(* Props/C03.v — C03: the Voronoi generator returns the periodic Voronoi tessellation of its points.
   PARTIAL, checker-level.  Qhull is not modelled: the theorems below say what the exact predicates mean
   and what the certificate checkers establish when they answer [true]; the harness runs the extracted
   checkers on every generated input (certificate built independently of koala) and on koala's lattice.
   NOT covered by a theorem (S only, exact rational arithmetic in the harness): one plaquette per seed,
   containment, area sum, two different plaquettes per edge, Lloyd; the post-processing code itself
   (no VoronoiPost model); geometry fact G3 (empty circumdiscs + side pairing + area = Delaunay, dual = Voronoi). *)
From Coq Require Import List ZArith Bool Arith QArith.
From Koala Require Import Model.Lattice Model.Delaunay Proofs.DelaunayFacts.
Import ListNotations.
Open Scope Z_scope.

(* clause "circumcentres": the in-circle determinant decides the open circumdisc, exactly (over Q) *)
Theorem C03_incircle_correct : forall a b c d : pt, 0 < orient2d a b c ->
  (0 < incircle a b c d <->
   (qdist2 (qpt d) (circumcentre a b c) < qdist2 (qpt a) (circumcentre a b c))%Q).
Proof. exact incircle_correct. Qed.
Print Assumptions C03_incircle_correct.

(* clause "circumcentres": [circumcentre] is equidistant from the three corners *)
Theorem C03_circumcentre_equidistant : forall a b c : pt, 0 < orient2d a b c ->
  (qdist2 (qpt b) (circumcentre a b c) == qdist2 (qpt a) (circumcentre a b c))%Q /\
  (qdist2 (qpt c) (circumcentre a b c) == qdist2 (qpt a) (circumcentre a b c))%Q.
Proof. exact circumcentre_equidistant. Qed.
Print Assumptions C03_circumcentre_equidistant.

(* clause "periodic Delaunay triangles": a validated certificate consists of positively oriented
   triangles of seeds of [0,S)^2 whose open circumdisc contains NO periodic image of ANY seed (all
   integer offsets, not only a window), glued side to side (every directed side occurs once and its
   reverse occurs too), 2N triangles, total area = area of the torus *)
Theorem C03_check_delaunay_sound : forall S w pts C,
  check_delaunay S w pts C = true ->
  0 < S /\
  (forall p, In p pts -> 0 <= fst p < S /\ 0 <= snd p < S) /\
  (forall t bx, In (t, bx) C -> tri_delaunay S pts t) /\
  NoDup (all_sides C) /\
  (forall k, In k (all_sides C) -> In (skey_rev k) (all_sides C)) /\
  length C = (2 * length pts)%nat /\
  area2_sum S pts C = 2 * S * S.
Proof. exact check_delaunay_sound. Qed.
Print Assumptions C03_check_delaunay_sound.

(* clauses "vertices are the circumcentres / centroids of the triangles in (0,1]^2", "edges join exactly
   the pairs of triangles sharing a side, crossing = cell offset", "trivalent": the lattice's vertices are
   in bijection with the certificate's triangles, each sitting (within tolS) at its triangle's reference
   point, which lies in (0,S]^2; every edge is dual to a side shared by the triangles of its ends with
   translation = crossing; the 2E edge ends use every one of the 3|C| (triangle, side) slots exactly once *)
Theorem C03_check_dual_sound : forall S tolS shift pts C L vt,
  check_dual S tolS shift pts C L vt = true ->
  wf_lattice L = true /\ scale L = S /\
  length vt = nV L /\ nV L = length C /\ NoDup vt /\ (forall i, In i vt -> (i < length C)%nat) /\
  (forall t bx, In (t, bx) C ->
     0 < orient2d (site_pos S pts (t_a t)) (site_pos S pts (t_b t)) (site_pos S pts (t_c t)) /\
     in_cell_P S (tri_ref S shift pts t)) /\
  (forall v, (v < nV L)%nat -> pos_close_P tolS (pos_at L v) (tri_ref S shift pts (tri_of C vt v))) /\
  (2 * nE L = 3 * length C)%nat /\
  exists us, used_sides C vt (edges L) (crossing L) = Some us /\ NoDup us /\
    (forall e, (e < nE L)%nat ->
       exists s s', (s < 3)%nat /\ (s' < 3)%nat /\
         nth (2 * e) us (0, 0)%nat = (nth (fst (edge_at L e)) vt 0%nat, s) /\
         nth (2 * e + 1) us (0, 0)%nat = (nth (snd (edge_at L e)) vt 0%nat, s') /\
         side_shared (tri_of C vt (fst (edge_at L e))) (tri_of C vt (snd (edge_at L e))) (cross_at L e) s s') /\
    (forall t s, (t < length C)%nat -> (s < 3)%nat -> In (t, s) us).
Proof. exact check_dual_sound. Qed.
Print Assumptions C03_check_dual_sound.

(* [side_shared] is geometric: the two sites coincide after translating by S * crossing *)
Theorem C03_site_shift_pos : forall S pts p p' cr, site_shift p p' cr ->
  site_pos S pts p = (fst (site_pos S pts p') + S * fst cr, snd (site_pos S pts p') + S * snd cr).
Proof. exact site_shift_pos. Qed.
Print Assumptions C03_site_shift_pos.

(* clause "2N vertices and 3N edges" and the tiling arithmetic V - E + F = 0 with F = N *)
Theorem C03_dual_counts : forall S w tolS shift pts C L vt,
  check_delaunay S w pts C = true -> check_dual S tolS shift pts C L vt = true ->
  nV L = (2 * length pts)%nat /\ nE L = (3 * length pts)%nat /\
  Z.of_nat (nV L) - Z.of_nat (nE L) + Z.of_nat (length pts) = 0.
Proof. exact dual_counts. Qed.
Print Assumptions C03_dual_counts.

(* the (0,1] cell convention: [cell_of n m] is the integer k with k < n/m <= k+1 *)
Theorem C03_cell_of_spec : forall n m k : Z, 0 < m -> (cell_of n m = k <-> k * m < n <= (k + 1) * m).
Proof. exact cell_of_spec. Qed.
Print Assumptions C03_cell_of_spec.

(* clause "crossing flag equal to the cell offset between them": the reference point of the neighbouring
   triangle, translated by the edge's crossing (cx,cy) (side_shared in C03_check_dual_sound), lies in the
   cell (cx,cy), while the vertex's own reference point lies in the cell (0,0) *)
Theorem C03_crossing_is_cell_offset : forall S (r : pt * Z) (cx cy : Z),
  0 < S -> in_cell_P S r ->
  cell_of (fst (fst r) + cx * (snd r * S)) (snd r * S) = cx /\
  cell_of (snd (fst r) + cy * (snd r * S)) (snd r * S) = cy.
Proof. exact crossing_is_cell_offset. Qed.
Print Assumptions C03_crossing_is_cell_offset.

(* clause "so the lattice is trivalent": every vertex of an accepted lattice has exactly three edge ends *)
Theorem C03_dual_trivalent : forall S tolS shift pts C L vt,
  check_dual S tolS shift pts C L vt = true ->
  forall v, (v < nV L)%nat -> count_ends L v = 3%nat.
Proof. exact dual_trivalent. Qed.
Print Assumptions C03_dual_trivalent.

(* ---- non-vacuity: koala's actual output for 4 seeds on the 1/64 grid (float64 positions as exact
   dyadics), plain and shifted: both checkers accept *)
Definition ex_plain_S : Z := 36028797018963968.
Definition ex_plain_pts : list pt := [(20829148276588544, 5066549580791808); (6192449487634432, 29836347531329536); (2814749767106560, 15199648742375424); (26458647810801664, 24206847997116416)].
Definition ex_plain_C : list (tri * box) := [
  (((0%nat, (0, 0)), (2%nat, (0, 0)), (1%nat, (0, (-1)))), ((-2710109955677076), 20830188600819379, (-6547111804267102), 16993186752229353));
  (((3%nat, (0, 0)), (0%nat, (0, 0)), (2%nat, (1, 0))), (17055859252498881, 39001060338405684, 2374521260189776, 24319722346096579));
  (((3%nat, (0, 0)), (2%nat, (0, 0)), (0%nat, (0, 0))), (2691973199423480, 28655637456074941, 3999011577083056, 29962675833734517));
  (((0%nat, (0, 0)), (1%nat, (1, (-1))), (2%nat, (1, 0))), (20722520450340088, 46511731992715217, (-9482890947733933), 16306320594641196));
  (((1%nat, (1, 0)), (3%nat, (0, 0)), (2%nat, (1, 0))), (26442838853473187, 44630435505418682, 14577067380161701, 32764664032107196));
  (((3%nat, (0, 0)), (1%nat, (1, 0)), (0%nat, (0, 1))), (19315637155049199, 43495204456469102, 23148487901747493, 47328055203167396));
  (((1%nat, (0, 0)), (3%nat, (0, 0)), (0%nat, (0, 1))), (6170367126704166, 28433821846867095, 19405435419384807, 41668890139547736));
  (((3%nat, (0, 0)), (1%nat, (0, 0)), (2%nat, (0, 0))), (1774679355209282, 27100809821887091, 7562437912472570, 32888568379150379))].
Definition ex_plain_L : lattice := mkLattice 36028797018963968
  [(14437744588548186, 20225503145811472); (17302094486785630, 30537162779466272); (31405420805759152, 35238271552457444); (35536637179445936, 23670865706134448); (33617126221527652, 3411714823453631); (28028459795452284, 13347121803143178); (9060039322571150, 5223037473981126); (15673805327749212, 16980843705408786)]
  [(1, 2)%nat; (2, 3)%nat; (3, 5)%nat; (4, 5)%nat; (1, 0)%nat; (0, 7)%nat; (5, 7)%nat; (6, 7)%nat; (1, 6)%nat; (2, 4)%nat; (3, 0)%nat; (6, 4)%nat]
  [(0, 0); (0, 0); (0, 0); (0, 0); (0, 0); (0, 0); (0, 0); (0, 0); (0, 1); (0, 1); (1, 0); ((-1), 0)].
Definition ex_plain_vt : list nat := [7; 6; 5; 4; 3; 1; 0; 2]%nat.
Definition ex_plain_tol : Z := 7205759404.

Definition ex_shift_S : Z := 36028797018963968.
Definition ex_shift_pts : list pt := [(20829148276588544, 5066549580791808); (6192449487634432, 29836347531329536); (2814749767106560, 15199648742375424); (26458647810801664, 24206847997116416)].
Definition ex_shift_C : list (tri * box) := [
  (((0%nat, (0, 0)), (2%nat, (0, 0)), (1%nat, (0, (-1)))), ((-2710109955677076), 20830188600819379, (-6547111804267102), 16993186752229353));
  (((3%nat, (0, 0)), (0%nat, (0, 0)), (2%nat, (1, 0))), (17055859252498881, 39001060338405684, 2374521260189776, 24319722346096579));
  (((3%nat, (0, 0)), (2%nat, (0, 0)), (0%nat, (0, 0))), (2691973199423480, 28655637456074941, 3999011577083056, 29962675833734517));
  (((0%nat, (0, 0)), (1%nat, (1, (-1))), (2%nat, (1, 0))), (20722520450340088, 46511731992715217, (-9482890947733933), 16306320594641196));
  (((1%nat, (1, 0)), (3%nat, (0, 0)), (2%nat, (1, 0))), (26442838853473187, 44630435505418682, 14577067380161701, 32764664032107196));
  (((3%nat, (0, 0)), (1%nat, (1, 0)), (0%nat, (0, 1))), (19315637155049199, 43495204456469102, 23148487901747493, 47328055203167396));
  (((1%nat, (0, 0)), (3%nat, (0, 0)), (0%nat, (0, 1))), (6170367126704166, 28433821846867095, 19405435419384807, 41668890139547736));
  (((3%nat, (0, 0)), (1%nat, (0, 0)), (2%nat, (0, 0))), (1774679355209282, 27100809821887091, 7562437912472570, 32888568379150379))].
Definition ex_shift_L : lattice := mkLattice 36028797018963968
  [(11821949021847552, 23080948090273792); (17826748525008214, 31712847376067244); (29836347531329536, 31712847376067244); (35841147034490196, 23080948090273792); (33964647189752492, 4691249611844267); (28710447624486912, 14824348773427882); (9945449177109846, 4691249611844267); (16700848618165590, 14824348773427882)]
  [(1, 2)%nat; (2, 3)%nat; (3, 5)%nat; (4, 5)%nat; (1, 0)%nat; (0, 7)%nat; (5, 7)%nat; (6, 7)%nat; (1, 6)%nat; (2, 4)%nat; (3, 0)%nat; (6, 4)%nat]
  [(0, 0); (0, 0); (0, 0); (0, 0); (0, 0); (0, 0); (0, 0); (0, 0); (0, 1); (0, 1); (1, 0); ((-1), 0)].
Definition ex_shift_vt : list nat := [7; 6; 5; 4; 3; 1; 0; 2]%nat.
Definition ex_shift_tol : Z := 7205759404.

Example C03_check_delaunay_nonvacuous :
  check_delaunay ex_plain_S 2 ex_plain_pts ex_plain_C = true /\
  check_delaunay ex_shift_S 2 ex_shift_pts ex_shift_C = true.
Proof. split; vm_compute; reflexivity. Qed.
Example C03_check_dual_nonvacuous :
  check_dual ex_plain_S ex_plain_tol false ex_plain_pts ex_plain_C ex_plain_L ex_plain_vt = true /\
  check_dual ex_shift_S ex_shift_tol true ex_shift_pts ex_shift_C ex_shift_L ex_shift_vt = true.
Proof. split; vm_compute; reflexivity. Qed.
