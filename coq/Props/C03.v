(* Props/C03.v — C03: the Voronoi generator returns the periodic Voronoi tessellation of its points.
   PARTIAL, checker-level.  Qhull is not modelled: the theorems below say what the exact predicates mean
   and what the certificate checkers establish when they answer [true]; the harness runs the extracted
   checkers on every generated input (certificate built independently of koala) and on koala's lattice.
   NOT covered by a theorem (S only, exact rational arithmetic in the harness): one plaquette per seed,
   containment, area sum, two different plaquettes per edge, Lloyd; geometry fact G3 (empty circumdiscs +
   side pairing + area = Delaunay, dual = Voronoi).
   The post-processing code (voronization.py:82-204) IS modelled (Model/VoronoiPost.v, tied to the code by the
   correspondence run K of harness/c03.py on the same scipy Voronoi record); the C03_post_* theorems at the end
   of this file are about that model.  post_correct is proved: C03_post_correct_graph / _trivalent (for a record that
   is periodic near the unit cell, Model/VoronoiPeriodic.pvor_ok, the returned lattice has exactly the Voronoi vertices
   in the cell as vertices and exactly the ridges touching the cell, one per translation class, as edges, crossing =
   cell offset, degree = number of ridges, 2E = 3V) and C03_post_correct_dual (if moreover the record is dual to a
   triangle assignment, Model/VoronoiDual.dual_ok, the returned lattice PASSES check_dual for the certificate read off
   the record).  C03_post_correct_dual_t / _counts_t: the same conclusions from the INDEX-LEVEL periodicity
   (Model/VoronoiPeriodicTol.pvor_t_ok, through the nearest-vertex map koala itself uses), which does not need exact
   replication and holds for Qhull's float circumcentres too (shift_vertices=False).
   All hypotheses are booleans about scipy's record, evaluated per case by the harness.
   NOT proved: that Qhull's record satisfies them, and the plaquette clauses. *)
From Coq Require Import List ZArith Bool Arith QArith.
From Koala Require Import Model.Lattice Model.Delaunay Proofs.DelaunayFacts.
From Koala Require Import Model.VoronoiPost Proofs.VoronoiPostFacts.
From Koala Require Import Model.VoronoiPeriodic Proofs.VoronoiPostCorrect.
From Koala Require Import Model.VoronoiDual Proofs.VoronoiPostDual.
From Koala Require Import Model.VoronoiPeriodicTol Proofs.VoronoiPostTol.
From Coq Require Import Sorted.
Import ListNotations.
Open Scope Z_scope.

(* clause "circumcentres": the in-circle determinant decides the open circumdisc, exactly (over Q) *)
Theorem C03_incircle_correct : forall a b c d : pt, 0 < orient2d a b c ->
  (0 < incircle a b c d <->
   (qdist2 (qpt d) (circumcentre a b c) < qdist2 (qpt a) (circumcentre a b c))%Q).
Proof. exact incircle_correct. Qed.
Print Assumptions C03_incircle_correct.

(* clause "circumcentres": [circumcentre] is equidistant from the three corners *)
Theorem C03_circumcentre_equidistant : forall a b c : pt, 0 < orient2d a b c ->
  (qdist2 (qpt b) (circumcentre a b c) == qdist2 (qpt a) (circumcentre a b c))%Q /\
  (qdist2 (qpt c) (circumcentre a b c) == qdist2 (qpt a) (circumcentre a b c))%Q.
Proof. exact circumcentre_equidistant. Qed.
Print Assumptions C03_circumcentre_equidistant.

(* clause "periodic Delaunay triangles": a validated certificate consists of positively oriented
   triangles of seeds of [0,S)^2 whose open circumdisc contains NO periodic image of ANY seed (all
   integer offsets, not only a window), glued side to side (every directed side occurs once and its
   reverse occurs too), 2N triangles, total area = area of the torus *)
Theorem C03_check_delaunay_sound : forall S w pts C,
  check_delaunay S w pts C = true ->
  0 < S /\
  (forall p, In p pts -> 0 <= fst p < S /\ 0 <= snd p < S) /\
  (forall t bx, In (t, bx) C -> tri_delaunay S pts t) /\
  NoDup (all_sides C) /\
  (forall k, In k (all_sides C) -> In (skey_rev k) (all_sides C)) /\
  length C = (2 * length pts)%nat /\
  area2_sum S pts C = 2 * S * S.
Proof. exact check_delaunay_sound. Qed.
Print Assumptions C03_check_delaunay_sound.

(* clauses "vertices are the circumcentres / centroids of the triangles in (0,1]^2", "edges join exactly
   the pairs of triangles sharing a side, crossing = cell offset", "trivalent": the lattice's vertices are
   in bijection with the certificate's triangles, each sitting (within tolS) at its triangle's reference
   point, which lies in (0,S]^2; every edge is dual to a side shared by the triangles of its ends with
   translation = crossing; the 2E edge ends use every one of the 3|C| (triangle, side) slots exactly once *)
Theorem C03_check_dual_sound : forall S tolS shift pts C L vt,
  check_dual S tolS shift pts C L vt = true ->
  wf_lattice L = true /\ scale L = S /\
  length vt = nV L /\ nV L = length C /\ NoDup vt /\ (forall i, In i vt -> (i < length C)%nat) /\
  (forall t bx, In (t, bx) C ->
     0 < orient2d (site_pos S pts (t_a t)) (site_pos S pts (t_b t)) (site_pos S pts (t_c t)) /\
     in_cell_P S (tri_ref S shift pts t)) /\
  (forall v, (v < nV L)%nat -> pos_close_P tolS (pos_at L v) (tri_ref S shift pts (tri_of C vt v))) /\
  (2 * nE L = 3 * length C)%nat /\
  exists us, used_sides C vt (edges L) (crossing L) = Some us /\ NoDup us /\
    (forall e, (e < nE L)%nat ->
       exists s s', (s < 3)%nat /\ (s' < 3)%nat /\
         nth (2 * e) us (0, 0)%nat = (nth (fst (edge_at L e)) vt 0%nat, s) /\
         nth (2 * e + 1) us (0, 0)%nat = (nth (snd (edge_at L e)) vt 0%nat, s') /\
         side_shared (tri_of C vt (fst (edge_at L e))) (tri_of C vt (snd (edge_at L e))) (cross_at L e) s s') /\
    (forall t s, (t < length C)%nat -> (s < 3)%nat -> In (t, s) us).
Proof. exact check_dual_sound. Qed.
Print Assumptions C03_check_dual_sound.

(* [side_shared] is geometric: the two sites coincide after translating by S * crossing *)
Theorem C03_site_shift_pos : forall S pts p p' cr, site_shift p p' cr ->
  site_pos S pts p = (fst (site_pos S pts p') + S * fst cr, snd (site_pos S pts p') + S * snd cr).
Proof. exact site_shift_pos. Qed.
Print Assumptions C03_site_shift_pos.

(* clause "2N vertices and 3N edges" and the tiling arithmetic V - E + F = 0 with F = N *)
Theorem C03_dual_counts : forall S w tolS shift pts C L vt,
  check_delaunay S w pts C = true -> check_dual S tolS shift pts C L vt = true ->
  nV L = (2 * length pts)%nat /\ nE L = (3 * length pts)%nat /\
  Z.of_nat (nV L) - Z.of_nat (nE L) + Z.of_nat (length pts) = 0.
Proof. exact dual_counts. Qed.
Print Assumptions C03_dual_counts.

(* the (0,1] cell convention: [cell_of n m] is the integer k with k < n/m <= k+1 *)
Theorem C03_cell_of_spec : forall n m k : Z, 0 < m -> (cell_of n m = k <-> k * m < n <= (k + 1) * m).
Proof. exact cell_of_spec. Qed.
Print Assumptions C03_cell_of_spec.

(* clause "crossing flag equal to the cell offset between them": the reference point of the neighbouring
   triangle, translated by the edge's crossing (cx,cy) (side_shared in C03_check_dual_sound), lies in the
   cell (cx,cy), while the vertex's own reference point lies in the cell (0,0) *)
Theorem C03_crossing_is_cell_offset : forall S (r : pt * Z) (cx cy : Z),
  0 < S -> in_cell_P S r ->
  cell_of (fst (fst r) + cx * (snd r * S)) (snd r * S) = cx /\
  cell_of (snd (fst r) + cy * (snd r * S)) (snd r * S) = cy.
Proof. exact crossing_is_cell_offset. Qed.
Print Assumptions C03_crossing_is_cell_offset.

(* clause "so the lattice is trivalent": every vertex of an accepted lattice has exactly three edge ends *)
Theorem C03_dual_trivalent : forall S tolS shift pts C L vt,
  check_dual S tolS shift pts C L vt = true ->
  forall v, (v < nV L)%nat -> count_ends L v = 3%nat.
Proof. exact dual_trivalent. Qed.
Print Assumptions C03_dual_trivalent.

(* ---- non-vacuity: koala's actual output for 4 seeds on the 1/64 grid (float64 positions as exact
   dyadics), plain and shifted: both checkers accept *)
Definition ex_plain_S : Z := 36028797018963968.
Definition ex_plain_pts : list pt := [(20829148276588544, 5066549580791808); (6192449487634432, 29836347531329536); (2814749767106560, 15199648742375424); (26458647810801664, 24206847997116416)].
Definition ex_plain_C : list (tri * box) := [
  (((0%nat, (0, 0)), (2%nat, (0, 0)), (1%nat, (0, (-1)))), ((-2710109955677076), 20830188600819379, (-6547111804267102), 16993186752229353));
  (((3%nat, (0, 0)), (0%nat, (0, 0)), (2%nat, (1, 0))), (17055859252498881, 39001060338405684, 2374521260189776, 24319722346096579));
  (((3%nat, (0, 0)), (2%nat, (0, 0)), (0%nat, (0, 0))), (2691973199423480, 28655637456074941, 3999011577083056, 29962675833734517));
  (((0%nat, (0, 0)), (1%nat, (1, (-1))), (2%nat, (1, 0))), (20722520450340088, 46511731992715217, (-9482890947733933), 16306320594641196));
  (((1%nat, (1, 0)), (3%nat, (0, 0)), (2%nat, (1, 0))), (26442838853473187, 44630435505418682, 14577067380161701, 32764664032107196));
  (((3%nat, (0, 0)), (1%nat, (1, 0)), (0%nat, (0, 1))), (19315637155049199, 43495204456469102, 23148487901747493, 47328055203167396));
  (((1%nat, (0, 0)), (3%nat, (0, 0)), (0%nat, (0, 1))), (6170367126704166, 28433821846867095, 19405435419384807, 41668890139547736));
  (((3%nat, (0, 0)), (1%nat, (0, 0)), (2%nat, (0, 0))), (1774679355209282, 27100809821887091, 7562437912472570, 32888568379150379))].
Definition ex_plain_L : lattice := mkLattice 36028797018963968
  [(14437744588548186, 20225503145811472); (17302094486785630, 30537162779466272); (31405420805759152, 35238271552457444); (35536637179445936, 23670865706134448); (33617126221527652, 3411714823453631); (28028459795452284, 13347121803143178); (9060039322571150, 5223037473981126); (15673805327749212, 16980843705408786)]
  [(1, 2)%nat; (2, 3)%nat; (3, 5)%nat; (4, 5)%nat; (1, 0)%nat; (0, 7)%nat; (5, 7)%nat; (6, 7)%nat; (1, 6)%nat; (2, 4)%nat; (3, 0)%nat; (6, 4)%nat]
  [(0, 0); (0, 0); (0, 0); (0, 0); (0, 0); (0, 0); (0, 0); (0, 0); (0, 1); (0, 1); (1, 0); ((-1), 0)].
Definition ex_plain_vt : list nat := [7; 6; 5; 4; 3; 1; 0; 2]%nat.
Definition ex_plain_tol : Z := 7205759404.

Definition ex_shift_S : Z := 36028797018963968.
Definition ex_shift_pts : list pt := [(20829148276588544, 5066549580791808); (6192449487634432, 29836347531329536); (2814749767106560, 15199648742375424); (26458647810801664, 24206847997116416)].
Definition ex_shift_C : list (tri * box) := [
  (((0%nat, (0, 0)), (2%nat, (0, 0)), (1%nat, (0, (-1)))), ((-2710109955677076), 20830188600819379, (-6547111804267102), 16993186752229353));
  (((3%nat, (0, 0)), (0%nat, (0, 0)), (2%nat, (1, 0))), (17055859252498881, 39001060338405684, 2374521260189776, 24319722346096579));
  (((3%nat, (0, 0)), (2%nat, (0, 0)), (0%nat, (0, 0))), (2691973199423480, 28655637456074941, 3999011577083056, 29962675833734517));
  (((0%nat, (0, 0)), (1%nat, (1, (-1))), (2%nat, (1, 0))), (20722520450340088, 46511731992715217, (-9482890947733933), 16306320594641196));
  (((1%nat, (1, 0)), (3%nat, (0, 0)), (2%nat, (1, 0))), (26442838853473187, 44630435505418682, 14577067380161701, 32764664032107196));
  (((3%nat, (0, 0)), (1%nat, (1, 0)), (0%nat, (0, 1))), (19315637155049199, 43495204456469102, 23148487901747493, 47328055203167396));
  (((1%nat, (0, 0)), (3%nat, (0, 0)), (0%nat, (0, 1))), (6170367126704166, 28433821846867095, 19405435419384807, 41668890139547736));
  (((3%nat, (0, 0)), (1%nat, (0, 0)), (2%nat, (0, 0))), (1774679355209282, 27100809821887091, 7562437912472570, 32888568379150379))].
Definition ex_shift_L : lattice := mkLattice 36028797018963968
  [(11821949021847552, 23080948090273792); (17826748525008214, 31712847376067244); (29836347531329536, 31712847376067244); (35841147034490196, 23080948090273792); (33964647189752492, 4691249611844267); (28710447624486912, 14824348773427882); (9945449177109846, 4691249611844267); (16700848618165590, 14824348773427882)]
  [(1, 2)%nat; (2, 3)%nat; (3, 5)%nat; (4, 5)%nat; (1, 0)%nat; (0, 7)%nat; (5, 7)%nat; (6, 7)%nat; (1, 6)%nat; (2, 4)%nat; (3, 0)%nat; (6, 4)%nat]
  [(0, 0); (0, 0); (0, 0); (0, 0); (0, 0); (0, 0); (0, 0); (0, 0); (0, 1); (0, 1); (1, 0); ((-1), 0)].
Definition ex_shift_vt : list nat := [7; 6; 5; 4; 3; 1; 0; 2]%nat.
Definition ex_shift_tol : Z := 7205759404.

Example C03_check_delaunay_nonvacuous :
  check_delaunay ex_plain_S 2 ex_plain_pts ex_plain_C = true /\
  check_delaunay ex_shift_S 2 ex_shift_pts ex_shift_C = true.
Proof. split; vm_compute; reflexivity. Qed.
Example C03_check_dual_nonvacuous :
  check_dual ex_plain_S ex_plain_tol false ex_plain_pts ex_plain_C ex_plain_L ex_plain_vt = true /\
  check_dual ex_shift_S ex_shift_tol true ex_shift_pts ex_shift_C ex_shift_L ex_shift_vt = true.
Proof. split; vm_compute; reflexivity. Qed.

(* ==================================================================================================
   The post-processing of voronization.generate_lattice (Model/VoronoiPost.v), everything after
   `vor = Voronoi(points)`.  Unbounded statements about the model; the model is tied to the code by K.
   Not covered: that scipy's record IS the Voronoi diagram (Qhull), float rounding of the centroid
   (a+b+c)/3 and of the kd-tree query point (K compares to 1e-12 and skips ties within 1e-9).
   ================================================================================================== *)

(* anchor "map outer endpoint back by nearest-vertex lookup": the model of KDTree.query(k=1) returns an index
   in range of a vertex of minimal squared distance, the first such *)
Theorem C03_post_nearest_spec : forall vs q, vs <> [] ->
  (nearest vs q < length vs)%nat /\
  (forall j, (j < length vs)%nat -> dist2 (nth (nearest vs q) vs (0, 0)) q <= dist2 (nth j vs (0, 0)) q) /\
  (forall j, (j < nearest vs q)%nat -> dist2 (nth (nearest vs q) vs (0, 0)) q < dist2 (nth j vs (0, 0)) q).
Proof. exact nearest_spec. Qed.
Print Assumptions C03_post_nearest_spec.

(* the margin reported to the harness (used to skip near ties): winner's distance, and a lower bound of the
   distance of every other vertex *)
Theorem C03_post_nearest_margin : forall vs q bd s, vs <> [] ->
  margin_of (nearest_info vs q) = (bd, Some s) ->
  bd = dist2 (nth (nearest vs q) vs (0, 0)) q /\
  forall j, (j < length vs)%nat -> j <> nearest vs q -> s <= dist2 (nth j vs (0, 0)) q.
Proof. exact nearest_margin_spec. Qed.
Print Assumptions C03_post_nearest_margin.

(* anchor "classify ridges as inside / crossing / outside the unit cell (0,1]": every returned ridge is a finite
   Voronoi ridge with both ends in (0,S]^2 (returned unchanged, crossing 0) or with exactly one end there
   (returned as [cross_edge]) *)
Theorem C03_post_edges_origin : forall S vs rv e, In e (pbc_edges S vs rv) ->
  (exists r, In r rv /\ finite r = true /\ count_in S vs r = 2%nat /\ e = (to_nat_pair r, (0, 0))) \/
  (exists r, In r rv /\ finite r = true /\ count_in S vs r = 1%nat /\ e = cross_edge S vs (to_nat_pair r)).
Proof. exact pbc_edges_origin. Qed.
Print Assumptions C03_post_edges_origin.

(* ... and none is lost: inside ridges are all returned, a crossing ridge is represented by an edge of its class *)
Theorem C03_post_edges_complete : forall S vs rv r, In r rv -> finite r = true ->
  (count_in S vs r = 2%nat -> In (to_nat_pair r, (0, 0)) (pbc_edges S vs rv)) /\
  (count_in S vs r = 1%nat -> exists e, In e (pbc_edges S vs rv) /\
                                  edge_key e = edge_key (cross_edge S vs (to_nat_pair r))).
Proof. exact pbc_edges_complete. Qed.
Print Assumptions C03_post_edges_complete.

(* anchor "crossing vector from ceil of endpoints; nearest-vertex lookup": for the crossing ridge with sorted
   ends lo < hi at positions plo, phi: the returned crossing is cell(phi) - cell(plo); the two query points are
   the lattice translates of plo, phi into the cell (0,S]^2; the returned ends j, k are nearest to them; and when
   those translates are themselves vertices (replication exact: the property's premise) then j, k sit exactly
   there, both in the cell, and  pos[k] + S*crossing - pos[j] = phi - plo : the periodic edge is the ridge. *)
Theorem C03_post_cross_edge_geometry : forall S vs r, 0 < S ->
  let lo := Nat.min (fst r) (snd r) in
  let hi := Nat.max (fst r) (snd r) in
  let plo := nth lo vs (0, 0) in
  let phi := nth hi vs (0, 0) in
  let e := cross_edge S vs r in
  let j := fst (fst e) in let k := snd (fst e) in let c := snd e in
  c = (cell_of (fst phi) S - cell_of (fst plo) S, cell_of (snd phi) S - cell_of (snd plo) S) /\
  in_unit S (wrap S plo) = true /\ in_unit S (wrap S phi) = true /\
  (forall i, (i < length vs)%nat -> dist2 (nth j vs (0, 0)) (wrap S plo) <= dist2 (nth i vs (0, 0)) (wrap S plo)) /\
  (forall i, (i < length vs)%nat -> dist2 (nth k vs (0, 0)) (wrap S phi) <= dist2 (nth i vs (0, 0)) (wrap S phi)) /\
  (In (wrap S plo) vs -> In (wrap S phi) vs ->
     nth j vs (0, 0) = wrap S plo /\ nth k vs (0, 0) = wrap S phi /\
     in_unit S (nth j vs (0, 0)) = true /\ in_unit S (nth k vs (0, 0)) = true /\
     fst (nth k vs (0, 0)) + S * fst c - fst (nth j vs (0, 0)) = fst phi - fst plo /\
     snd (nth k vs (0, 0)) + S * snd c - snd (nth j vs (0, 0)) = snd phi - snd plo).
Proof. exact cross_edge_geometry. Qed.
Print Assumptions C03_post_cross_edge_geometry.

(* the end of a crossing ridge that lies in the cell is mapped to a vertex at the same position *)
Theorem C03_post_inner_end_fixed : forall S vs i, 0 < S -> (i < length vs)%nat ->
  in_unit S (nth i vs (0, 0)) = true ->
  nth (nearest vs (wrap S (nth i vs (0, 0)))) vs (0, 0) = nth i vs (0, 0).
Proof. exact cross_edge_inner_end. Qed.
Print Assumptions C03_post_inner_end_fixed.

(* anchor "orientation-aware de-duplication": np.unique(edge_key, axis=0, return_index=True) as modelled keeps
   only given edges, one for every key, exactly one, the first in ridge order, in increasing key order *)
Theorem C03_post_dedup_spec : forall es : list edge,
  let d := dedup_edges es in
  (forall e, In e d -> In e es) /\
  (forall e, In e es -> exists e', In e' d /\ edge_key e' = edge_key e) /\
  (forall e e', In e d -> In e' d -> edge_key e = edge_key e' -> e = e') /\
  (forall e, In e d -> exists l1 l2, es = l1 ++ e :: l2 /\ forall e', In e' l1 -> edge_key e' <> edge_key e) /\
  StronglySorted klt (map edge_key d).
Proof. exact dedup_edges_spec. Qed.
Print Assumptions C03_post_dedup_spec.

(* ... and the key is exactly "the unordered pair with the crossing up to the matching sign": two edges have the
   same key iff they are equal or reverse to each other ((j,k,c) ~ (k,j,-c)), for j <> k *)
Theorem C03_post_edge_key_class : forall e e', ~ is_loop e ->
  (edge_key e' = edge_key e <-> e' = e \/ e' = rev_edge e).
Proof. exact edge_key_class. Qed.
Print Assumptions C03_post_edge_key_class.

(* so: exactly one representative of each class {(j,k,c), (k,j,-c)} of crossing ridges survives (keeps parallel
   edges that wind differently: different c, different class) *)
Theorem C03_post_dedup_classes : forall (es : list edge) e, In e es -> ~ is_loop e ->
  (In e (dedup_edges es) \/ In (rev_edge e) (dedup_edges es)) /\
  (forall e', In e' (dedup_edges es) -> e' = e \/ e' = rev_edge e ->
     forall e'', In e'' (dedup_edges es) -> e'' = e \/ e'' = rev_edge e -> e'' = e').
Proof. exact dedup_edges_classes. Qed.
Print Assumptions C03_post_dedup_classes.

(* the class statement is FALSE for self-loops: (j,j,c) and (j,j,-c) get different keys, both would be kept.
   (Outside the property's domain for N >= 2: needs a Delaunay triangle adjacent to its own translate.) *)
Theorem C03_post_dedup_selfloop_refuted : exists e, is_loop e /\ edge_key (rev_edge e) <> edge_key e.
Proof. exact edge_key_loop_not_identified. Qed.
Print Assumptions C03_post_dedup_selfloop_refuted.

(* anchor "re-indexing of the surviving vertices": for ANY enumeration `order` that satisfies the contract of
   list(set(.)) (checked by the model) the enumeration has no repetition and consists exactly of the ends of the
   returned ridges; new_vertices[n] = vor.vertices[order[n]]; every new index is in range and is the position of
   the old index in the enumeration; crossings are copied *)
Theorem C03_post_reindex_spec : forall vs order (es : list edge) ps ed cr,
  reindex vs order es = Ok (ps, ed, cr) ->
  NoDup order /\ (forall x, In x (edge_ends es) <-> In x order) /\
  ps = map (fun i => nth i vs (0, 0)) order /\ length ps = length order /\
  length ed = length es /\ cr = map snd es /\
  forall i, (i < length es)%nat ->
    let e := nth i es edge0 in
    let jk := nth i ed (0%nat, 0%nat) in
    (fst jk < length ps)%nat /\ (snd jk < length ps)%nat /\
    nth (fst jk) order 0%nat = fst (fst e) /\ nth (snd jk) order 0%nat = snd (fst e) /\
    nth (fst jk) ps (0, 0) = nth (fst (fst e)) vs (0, 0) /\
    nth (snd jk) ps (0, 0) = nth (snd (fst e)) vs (0, 0).
Proof. exact reindex_spec. Qed.
Print Assumptions C03_post_reindex_spec.

(* with the increasing enumeration the re-indexing cannot fail and the new index is the RANK of the old index
   among the surviving vertices.  (CPython enumerates the set in hash order, not increasing: K feeds the model the
   enumeration CPython produces and the model checks the contract.) *)
Theorem C03_post_reindex_sorted_rank : forall vs (es : list edge),
  exists ps ed cr, reindex vs (sorted_nodup (edge_ends es)) es = Ok (ps, ed, cr) /\
  forall i, (i < length es)%nat ->
    let e := nth i es edge0 in
    nth i ed (0%nat, 0%nat) =
      (length (filter (fun y => (y <? fst (fst e))%nat) (sorted_nodup (edge_ends es))),
       length (filter (fun y => (y <? snd (fst e))%nat) (sorted_nodup (edge_ends es)))).
Proof. exact reindex_sorted. Qed.
Print Assumptions C03_post_reindex_sorted_rank.

(* anchor "optional shift of each vertex to the centroid of its three seeds": exactly three ridges touch the
   vertex, they separate exactly three seeds i < j < k of the replicated point array, and the new position is
   (p_i + p_j + p_k) / 3 (numerator here, the scale is multiplied by 3 in C03_post_shifted_vertices) *)
Theorem C03_post_centroid3_spec : forall points rv rp v c, centroid3 points rv rp v = Ok c ->
  length (adjacent_seeds (Z.of_nat v) rv rp) = 3%nat /\
  exists i j k, sorted_nodup (concat (adjacent_seeds (Z.of_nat v) rv rp)) = [i; j; k] /\
    (i < j < k)%nat /\ (k < length points)%nat /\
    (forall x, In x [i; j; k] <-> In x (concat (adjacent_seeds (Z.of_nat v) rv rp))) /\
    c = pt_add (pt_add (nth i points (0, 0)) (nth j points (0, 0))) (nth k points (0, 0)).
Proof. exact centroid3_spec. Qed.
Print Assumptions C03_post_centroid3_spec.

Theorem C03_post_shifted_vertices : forall shift S points v S' vs,
  shifted_vertices shift S points v = Ok (S', vs) ->
  length vs = length (vertices v) /\
  (shift = false -> S' = S /\ vs = vertices v) /\
  (shift = true -> S' = 3 * S /\
     forall i, (i < length vs)%nat ->
       centroid3 points (ridge_vertices v) (ridge_points v) i = Ok (nth i vs (0, 0))).
Proof. exact shifted_vertices_spec. Qed.
Print Assumptions C03_post_shifted_vertices.

(* the whole function is the composition of the pieces above *)
Theorem C03_post_process_inv : forall order_of shift S points v S' ps ed cr,
  post_process order_of shift S points v = Ok (S', (ps, ed, cr)) ->
  exists vs,
    shifted_vertices shift S points v = Ok (S', vs) /\
    (forall r, In r (ridge_vertices v) -> ridge_wf (length (vertices v)) r = true) /\
    let es := pbc_edges S' vs (ridge_vertices v) in
    reindex vs (order_of (edge_ends es)) es = Ok (ps, ed, cr).
Proof. exact post_process_inv. Qed.
Print Assumptions C03_post_process_inv.

Theorem C03_post_process_sorted_total : forall shift S points v S' vs,
  vor_wf (length points) v = Ok tt -> shifted_vertices shift S points v = Ok (S', vs) ->
  exists out, post_process_sorted shift S points v = Ok (S', out).
Proof. exact post_process_sorted_total. Qed.
Print Assumptions C03_post_process_sorted_total.

(* ---- non-vacuity: a cell of side 4 with two vertices inside, their images one cell to the right / left, an
   inside ridge, the two copies of the crossing ridge (de-duplicated to one) and a ridge to infinity *)
Definition ex_post_vor : vor := mkVor
  [(1, 1); (3, 3); (5, 1); (-1, 3)]
  [(0, 1); (1, 2); (3, 0); (-1, 2)]
  [(0, 1); (1, 2); (2, 0); (0, 2)]%nat.
Example C03_post_process_nonvacuous :
  post_process_sorted false 4 [] ex_post_vor =
    Ok (4, ([(1, 1); (3, 3)], [(0, 1); (1, 0)]%nat, [(0, 0); (1, 0)])) /\
  crossing_edges 4 (vertices ex_post_vor) (ridge_vertices ex_post_vor) =
    [((1, 0)%nat, (1, 0)); ((0, 1)%nat, (-1, 0))] /\
  In (wrap 4 (5, 1)) (vertices ex_post_vor) /\ In (wrap 4 (-1, 3)) (vertices ex_post_vor).
Proof. vm_compute. repeat split; auto. Qed.
Example C03_post_centroid3_nonvacuous :
  centroid3 [(0, 0); (3, 0); (0, 3)] [(0, 1); (0, 2); (0, -1)] [(0, 1); (1, 2); (2, 0)]%nat 0 = Ok (3, 3).
Proof. vm_compute. reflexivity. Qed.

(* ==================================================================================================
   post_correct, graph level.  Hypothesis: the Voronoi record is PERIODIC NEAR THE UNIT CELL
   (Model/VoronoiPeriodic.pvor_ok, a boolean evaluated by the harness on scipy's record, case by case):
   0 < S; ridge indices in range; finite ridges join two different vertices; no two vertices coincide; no ridge
   touching the cell is listed twice; and for every ridge crossing the cell boundary: the images of both ends in the cell
   (0,S]^2 are vertices (replication exact), they differ (no vertex adjacent to its own periodic image), and the
   ridge occurs again translated so that its OTHER end lies in the cell.  [pvor] is that statement as a Prop.
   ================================================================================================== *)
Theorem C03_post_pvor_ok_spec : forall S vs rv, pvor_ok S vs rv = true <-> pvor S vs rv.
Proof. exact pvor_ok_iff. Qed.
Print Assumptions C03_post_pvor_ok_spec.

(* "de-duplication keeps exactly one representative per translation class", part 1: the np.unique key of the
   periodic edge made from the segment p'->q' equals that of p->q  IFF  the segments are lattice translates of each
   other (as unordered segments) *)
Theorem C03_post_key_iff_translate : forall S vs p q p' q', 0 < S ->
  In (wrap S p) vs -> In (wrap S q) vs -> In (wrap S p') vs -> In (wrap S q') vs ->
  wrap S p <> wrap S q ->
  (edge_key (pedge S vs p' q') = edge_key (pedge S vs p q) <-> translate_of S p q p' q').
Proof. exact key_iff_translate. Qed.
Print Assumptions C03_post_key_iff_translate.

(* part 2: two kept crossing ridges that are translates of each other are the same edge *)
Theorem C03_post_one_per_translation_class : forall S vs rv e e' p q p' q', pvor S vs rv ->
  In e (dedup_edges (crossing_edges S vs rv)) -> In e' (dedup_edges (crossing_edges S vs rv)) ->
  edge_is_seg S vs e p q -> edge_is_seg S vs e' p' q' -> wrap S p <> wrap S q ->
  translate_of S p q p' q' -> e = e'.
Proof. exact dedup_one_per_translation_class. Qed.
Print Assumptions C03_post_one_per_translation_class.

(* "every kept ridge joins kept vertices modulo the cell; crossing vector = cell offset difference": every returned
   edge ((j,k),c) is a finite Voronoi ridge p - q touching the cell, with pos[j] = image of p in the cell, pos[k] =
   image of q, c = cell(q) - cell(p) *)
Theorem C03_post_edges_mod_cell : forall S vs rv e, pvor S vs rv -> In e (pbc_edges S vs rv) ->
  exists r, In r rv /\ finite r = true /\ (1 <= count_in S vs r)%nat /\
    (edge_is_seg S vs e (vat vs (fst r)) (vat vs (snd r)) \/
     edge_is_seg S vs e (vat vs (snd r)) (vat vs (fst r))).
Proof. exact pbc_edges_mod_cell. Qed.
Print Assumptions C03_post_edges_mod_cell.

(* ... so both ends lie in the cell and the edge vector pos[k] + S*c - pos[j] is the ridge vector q - p *)
Theorem C03_post_edge_is_seg_geometry : forall S vs e p q, 0 < S -> edge_is_seg S vs e p q ->
  let pj := nth (fst (fst e)) vs (0, 0) in
  let pk := nth (snd (fst e)) vs (0, 0) in
  in_unit S pj = true /\ in_unit S pk = true /\
  fst pk + S * fst (snd e) - fst pj = fst q - fst p /\
  snd pk + S * snd (snd e) - snd pj = snd q - snd p.
Proof. exact edge_is_seg_geometry. Qed.
Print Assumptions C03_post_edge_is_seg_geometry.

(* part 3: all returned ridges (inside and crossing) have pairwise different keys: no periodic edge is returned twice,
   not even reversed *)
Theorem C03_post_edges_keys_NoDup : forall S vs rv, pvor S vs rv ->
  NoDup (map edge_key (pbc_edges S vs rv)).
Proof. exact pbc_edges_keys_NoDup. Qed.
Print Assumptions C03_post_edges_keys_NoDup.

(* conversely every finite ridge touching the cell is represented by an edge that is this ridge modulo the cell *)
Theorem C03_post_edges_represent : forall S vs rv r, pvor S vs rv -> In r rv -> finite r = true ->
  (1 <= count_in S vs r)%nat ->
  exists e, In e (pbc_edges S vs rv) /\
    (edge_is_seg S vs e (vat vs (fst r)) (vat vs (snd r)) \/
     edge_is_seg S vs e (vat vs (snd r)) (vat vs (fst r))).
Proof. exact pbc_edges_represent. Qed.
Print Assumptions C03_post_edges_represent.

(* "each vertex has degree = number of ridges at it": a vertex in the cell has as many edge ends among the returned
   ridges as it has finite ridges in the Voronoi record (the two copies of a crossing ridge count once) *)
Theorem C03_post_degree : forall S vs rv v, pvor S vs rv -> (v < length vs)%nat ->
  in_unit S (nth v vs (0, 0)) = true ->
  deg v (pbc_edges S vs rv) = length (ridges_at (Z.of_nat v) rv).
Proof. exact pbc_degree. Qed.
Print Assumptions C03_post_degree.

(* the kept vertices are exactly the Voronoi vertices in the cell that have a finite ridge *)
Theorem C03_post_kept_vertices : forall S vs rv x, pvor S vs rv ->
  (In x (edge_ends (pbc_edges S vs rv)) <->
   (x < length vs)%nat /\ in_unit S (nth x vs (0, 0)) = true /\ ridges_at (Z.of_nat x) rv <> []).
Proof. exact pbc_kept_vertices. Qed.
Print Assumptions C03_post_kept_vertices.

(* the whole function, for ANY enumeration order of the surviving vertices accepted by the model: the returned
   arrays are a well-formed lattice whose vertices are, each once and at its position, the Voronoi vertices in the
   cell having a finite ridge, with degree = number of finite ridges; whose edges are exactly the finite ridges
   touching the cell modulo the cell (lat_is_seg: ends at the images in the cell, crossing = cell difference), and no
   two edges are the same periodic edge (j,k,c) ~ (k,j,-c) *)
Theorem C03_post_correct_graph : forall order_of shift S points v S' vs ps ed cr,
  shifted_vertices shift S points v = Ok (S', vs) ->
  pvor S' vs (ridge_vertices v) ->
  post_process order_of shift S points v = Ok (S', (ps, ed, cr)) ->
  let rv := ridge_vertices v in
  let L := mkLattice S' ps ed cr in
  let order := order_of (edge_ends (pbc_edges S' vs rv)) in
  wf_lattice L = true /\
  NoDup order /\ length order = nV L /\ NoDup (pos L) /\
  (forall n, (n < nV L)%nat ->
     (nth n order 0 < length vs)%nat /\ pos_at L n = nth (nth n order 0%nat) vs (0, 0) /\
     in_unit S' (pos_at L n) = true /\
     count_ends L n = length (ridges_at (Z.of_nat (nth n order 0%nat)) rv)) /\
  (forall x, (x < length vs)%nat -> in_unit S' (nth x vs (0, 0)) = true -> ridges_at (Z.of_nat x) rv <> [] ->
     In x order) /\
  (forall i, (i < nE L)%nat -> exists r, In r rv /\ finite r = true /\ (1 <= count_in S' vs r)%nat /\
     (lat_is_seg L i (vat vs (fst r)) (vat vs (snd r)) \/ lat_is_seg L i (vat vs (snd r)) (vat vs (fst r)))) /\
  (forall r, In r rv -> finite r = true -> (1 <= count_in S' vs r)%nat -> exists i, (i < nE L)%nat /\
     (lat_is_seg L i (vat vs (fst r)) (vat vs (snd r)) \/ lat_is_seg L i (vat vs (snd r)) (vat vs (fst r)))) /\
  (forall i i', (i < nE L)%nat -> (i' < nE L)%nat -> i <> i' ->
     ledge L i <> ledge L i' /\ ledge L i <> rev_edge (ledge L i')).
Proof. exact post_correct_graph. Qed.
Print Assumptions C03_post_correct_graph.

(* [lat_is_seg] in the lattice's own terms: Lattice.evec (pos[k] - pos[j] + scale*crossing) is the ridge vector *)
Theorem C03_post_edge_vector : forall L i p q, lat_is_seg L i p q -> evec L i = (fst q - fst p, snd q - snd p).
Proof. exact lat_is_seg_evec. Qed.
Print Assumptions C03_post_edge_vector.

(* "so the lattice is trivalent with 2N vertices and 3N edges", graph part: if moreover every Voronoi vertex in the
   cell has exactly three finite ridges (trivalent_ok, evaluated per case) then every vertex of the returned lattice
   has exactly three edge ends and 2E = 3V *)
Theorem C03_post_correct_trivalent : forall order_of shift S points v S' vs ps ed cr,
  shifted_vertices shift S points v = Ok (S', vs) ->
  pvor S' vs (ridge_vertices v) -> trivalent_ok S' vs (ridge_vertices v) = true ->
  post_process order_of shift S points v = Ok (S', (ps, ed, cr)) ->
  let L := mkLattice S' ps ed cr in
  (forall n, (n < nV L)%nat -> count_ends L n = 3%nat) /\ (2 * nE L = 3 * nV L)%nat.
Proof. exact post_correct_trivalent. Qed.
Print Assumptions C03_post_correct_trivalent.

(* clause "vertices are ... (with vertex shifting: the centroids) of the triangles that fall in the unit cell": with
   shift_vertices a vertex position is the sum of its three seeds on the scale 3S (C03_post_centroid3_spec), and the
   model's test "in the cell (0,3S]^2" is exactly check_dual's test [in_cell] of the centroid [ref_point true a b c] *)
Theorem C03_post_shifted_in_cell : forall S a b c,
  in_unit (3 * S) (pt_add (pt_add a b) c) = in_cell S (ref_point true a b c).
Proof. exact shifted_in_cell. Qed.
Print Assumptions C03_post_shifted_in_cell.

(* non-vacuity of [pvor_ok] on the toy record above (its crossing ridge (1,2) occurs again, translated, as (3,0)) *)
Example C03_post_pvor_nonvacuous :
  pvor_ok 4 (vertices ex_post_vor) (ridge_vertices ex_post_vor) = true /\
  post_hyps false 4 [] ex_post_vor = Some (true, false).
Proof. vm_compute. split; reflexivity. Qed.
(* non-vacuity of [pvor_ok] AND [trivalent_ok]: the honeycomb torus with one hexagon (cell of side 4, vertices A = (1,1),
   B = (3,3), the three A-B ridges with crossings (0,0), (-1,0), (0,-1), each crossing ridge present on both sides):
   the model returns the two vertices and the three edges, every vertex has three edge ends *)
Definition ex_post_hex : vor := mkVor
  [(1, 1); (3, 3); (-1, 3); (3, -1); (5, 1); (1, 5)]
  [(0, 1); (0, 2); (0, 3); (1, 4); (1, 5); (-1, 4)]
  [(0, 1); (0, 2); (0, 3); (1, 4); (1, 5); (4, 5)]%nat.
Example C03_post_trivalent_nonvacuous :
  post_hyps false 4 [] ex_post_hex = Some (true, true) /\
  post_process_sorted false 4 [] ex_post_hex =
    Ok (4, ([(1, 1); (3, 3)], [(0, 1); (0, 1); (0, 1)]%nat, [(0, 0); (0, -1); (-1, 0)])).
Proof. vm_compute. split; reflexivity. Qed.

(* ==================================================================================================
   post_correct, the last link: the returned lattice passes check_dual.
   Additional hypothesis (Model/VoronoiDual.dual_ok, a boolean about the RECORD and a triangle assignment T - one
   Delaunay triangle (three sites, ccw, smallest site first) per Voronoi vertex, which the harness reads off
   scipy's ridge_points - not about the returned lattice):
     D1 the triangle of the image in the cell of the outer end of a crossing ridge is the translated triangle;
     D2 the triangles of the two ends of every finite ridge touching the cell share a side (offset 0);
     D3 no directed side modulo translation belongs to two (vertex in the cell, side) slots;
     D4 every vertex in the cell: its triangle is positively oriented, its reference point (circumcentre / centroid)
        lies in the cell and the vertex sits within tolS of it.
   ================================================================================================== *)

(* "edges join exactly the pairs of triangles sharing a side, crossing = cell offset between them": every returned
   ridge ((j,k),c) joins vertices whose triangles share a side after translating the second by c *)
Theorem C03_post_edges_shared_side : forall S vs rv T e, pvor S vs rv ->
  d1_ok S vs rv T = true -> d2_ok S vs rv T = true ->
  In e (pbc_edges S vs rv) ->
  exists s s', (s < 3)%nat /\ (s' < 3)%nat /\
    side_shared (nth (fst (fst e)) T tri0) (nth (snd (fst e)) T tri0) (snd e) s s'.
Proof. exact pbc_edges_shared_side. Qed.
Print Assumptions C03_post_edges_shared_side.

(* post_correct: for every enumeration order accepted by the model, a periodic, trivalent record that is dual to T
   yields a lattice that passes the (proved sound, C03_check_dual_sound) checker check_dual, with the certificate
   [cert_of T B order] = the triangles of the kept vertices in output order (B: box hints, irrelevant here) and vt =
   the identity *)
Theorem C03_post_correct_dual : forall order_of shift S points v S' vs ps ed cr tolS pts T B,
  shifted_vertices shift S points v = Ok (S', vs) ->
  pvor S' vs (ridge_vertices v) -> trivalent_ok S' vs (ridge_vertices v) = true ->
  dual_ok S' tolS shift pts vs (ridge_vertices v) T = true ->
  post_process order_of shift S points v = Ok (S', (ps, ed, cr)) ->
  let L := mkLattice S' ps ed cr in
  let order := order_of (edge_ends (pbc_edges S' vs (ridge_vertices v))) in
  check_dual S' tolS shift pts (cert_of T B order) L (seq 0 (length order)) = true.
Proof. exact post_correct_dual. Qed.
Print Assumptions C03_post_correct_dual.

(* "... so the lattice is trivalent with 2N vertices and 3N edges": when moreover check_delaunay validates that same
   certificate (B: the box hints it needs; evaluated per case), the returned lattice has 2N vertices and 3N edges *)
Theorem C03_post_correct_counts : forall order_of shift S points v S' vs ps ed cr tolS pts T B w,
  shifted_vertices shift S points v = Ok (S', vs) ->
  pvor S' vs (ridge_vertices v) -> trivalent_ok S' vs (ridge_vertices v) = true ->
  dual_ok S' tolS shift pts vs (ridge_vertices v) T = true ->
  post_process order_of shift S points v = Ok (S', (ps, ed, cr)) ->
  let L := mkLattice S' ps ed cr in
  let order := order_of (edge_ends (pbc_edges S' vs (ridge_vertices v))) in
  check_delaunay S' w pts (cert_of T B order) = true ->
  nV L = (2 * length pts)%nat /\ nE L = (3 * length pts)%nat.
Proof. exact post_correct_counts. Qed.
Print Assumptions C03_post_correct_counts.

(* non-vacuity: the one-seed square torus (cell of side 4, seed at the origin, the two triangles of the unit square,
   Voronoi vertices A = (3,1), B = (1,3) within tolS = 1 of the common circumcentre (2,2), the three A-B ridges present
   on both sides): all hypotheses hold, and (as the theorem says) check_dual accepts the model's output *)
Definition ex_dual_vor : vor := mkVor
  [(3, 1); (1, 3); (1, -1); (5, 3); (3, 5); (-1, 1)]
  [(0, 1); (0, 2); (0, 3); (1, 4); (1, 5); (-1, 4)]
  [(0, 1); (0, 2); (0, 3); (1, 4); (1, 5); (4, 5)]%nat.
Definition ex_dual_T : list tri := [
  ((0%nat, (0, 0)), (0%nat, (1, 0)), (0%nat, (1, 1)));
  ((0%nat, (0, 0)), (0%nat, (1, 1)), (0%nat, (0, 1)));
  ((0%nat, (0, -1)), (0%nat, (1, 0)), (0%nat, (0, 0)));
  ((0%nat, (1, 0)), (0%nat, (2, 1)), (0%nat, (1, 1)));
  ((0%nat, (0, 1)), (0%nat, (1, 1)), (0%nat, (1, 2)));
  ((0%nat, (-1, 0)), (0%nat, (0, 0)), (0%nat, (0, 1)))].
Example C03_post_dual_nonvacuous :
  post_hyps false 4 [] ex_dual_vor = Some (true, true) /\
  post_dual_hyp false 4 1 [] [(0, 0)] ex_dual_vor ex_dual_T = Some true /\
  post_process_sorted false 4 [] ex_dual_vor =
    Ok (4, ([(3, 1); (1, 3)], [(0, 1); (0, 1); (0, 1)]%nat, [(0, 0); (1, 0); (0, -1)])) /\
  check_dual 4 1 false [(0, 0)] (cert_of ex_dual_T [] [0; 1]%nat)
    (mkLattice 4 [(3, 1); (1, 3)] [(0, 1); (0, 1); (0, 1)]%nat [(0, 0); (1, 0); (0, -1)]) [0; 1]%nat = true.
Proof. vm_compute. repeat split; reflexivity. Qed.

(* ==================================================================================================
   post_correct from the INDEX-LEVEL periodicity.  [pvor_ok] needs the image in the cell of a vertex to BE a vertex,
   which float circumcentres never satisfy (a triangle and its translate give circumcentres differing in the last
   bits).  koala only uses the vertex NEAREST to the image.  [pvor_t_ok] (Model/VoronoiPeriodicTol.v) states the
   periodicity through that map img(o) = nearest vertex to the image of o: for every ridge crossing the cell boundary
   with inner end i and outer end o in the cell c: img(o) lies in the cell, is not i, and a finite ridge joins img(o)
   to a vertex a' outside the cell, in the cell -c, with img(a') = i; the directed periodic edges (i, img o, c) of the
   crossing ridges are pairwise different; plus the index/duplicate conditions of pvor_ok.  [pvor_t] is the Prop.
   ================================================================================================== *)
Theorem C03_post_pvor_t_ok_sound : forall S vs rv, pvor_t_ok S vs rv = true -> pvor_t S vs rv.
Proof. exact pvor_t_ok_spec. Qed.
Print Assumptions C03_post_pvor_t_ok_sound.

(* the index-level periodicity GENERALISES the exact one: every record that is exactly periodic near the cell is
   periodic at the index level (so the _t theorems below cover both; the harness also records that no evaluated record
   satisfies pvor_ok without satisfying pvor_t_ok) *)
Theorem C03_post_pvor_implies_pvor_t : forall S vs rv, pvor S vs rv -> pvor_t S vs rv.
Proof. exact pvor_implies_pvor_t. Qed.
Print Assumptions C03_post_pvor_implies_pvor_t.

(* degree = number of finite ridges, from the index-level periodicity *)
Theorem C03_post_degree_t : forall S vs rv v, pvor_t S vs rv -> (v < length vs)%nat ->
  in_unit S (nth v vs (0, 0)) = true ->
  deg v (pbc_edges S vs rv) = length (ridges_at (Z.of_nat v) rv).
Proof. exact pbc_degree_t. Qed.
Print Assumptions C03_post_degree_t.

(* no periodic edge is returned twice, not even reversed *)
Theorem C03_post_edges_keys_NoDup_t : forall S vs rv, pvor_t S vs rv ->
  NoDup (map edge_key (pbc_edges S vs rv)).
Proof. exact pbc_edges_keys_NoDup_t. Qed.
Print Assumptions C03_post_edges_keys_NoDup_t.

(* post_correct: trivalent, 2E = 3V, and the returned lattice passes check_dual for the certificate read off the record *)
Theorem C03_post_correct_dual_t : forall order_of shift S points v S' vs ps ed cr tolS pts T B,
  shifted_vertices shift S points v = Ok (S', vs) ->
  pvor_t S' vs (ridge_vertices v) -> trivalent_ok S' vs (ridge_vertices v) = true ->
  dual_ok S' tolS shift pts vs (ridge_vertices v) T = true ->
  post_process order_of shift S points v = Ok (S', (ps, ed, cr)) ->
  let L := mkLattice S' ps ed cr in
  let order := order_of (edge_ends (pbc_edges S' vs (ridge_vertices v))) in
  (forall n, (n < nV L)%nat -> count_ends L n = 3%nat) /\ (2 * nE L = 3 * nV L)%nat /\
  check_dual S' tolS shift pts (cert_of T B order) L (seq 0 (length order)) = true.
Proof. exact post_correct_dual_t. Qed.
Print Assumptions C03_post_correct_dual_t.

(* ... and 2N vertices, 3N edges when check_delaunay validates that certificate *)
Theorem C03_post_correct_counts_t : forall order_of shift S points v S' vs ps ed cr tolS pts T B w,
  shifted_vertices shift S points v = Ok (S', vs) ->
  pvor_t S' vs (ridge_vertices v) -> trivalent_ok S' vs (ridge_vertices v) = true ->
  dual_ok S' tolS shift pts vs (ridge_vertices v) T = true ->
  post_process order_of shift S points v = Ok (S', (ps, ed, cr)) ->
  let L := mkLattice S' ps ed cr in
  let order := order_of (edge_ends (pbc_edges S' vs (ridge_vertices v))) in
  check_delaunay S' w pts (cert_of T B order) = true ->
  nV L = (2 * length pts)%nat /\ nE L = (3 * length pts)%nat.
Proof. exact post_correct_counts_t. Qed.
Print Assumptions C03_post_correct_counts_t.

(* non-vacuity: the two toy records above satisfy the index-level hypotheses too; and a record whose translated copies
   are OFF by one unit (vertex (5,2) instead of (5,1), ...: not exactly periodic, pvor_ok fails) still satisfies them *)
Definition ex_tol_vor : vor := mkVor
  [(1, 1); (3, 3); (-1, 3); (3, -1); (5, 2); (2, 5)]
  [(0, 1); (0, 2); (0, 3); (1, 4); (1, 5); (-1, 4)]
  [(0, 1); (0, 2); (0, 3); (1, 4); (1, 5); (4, 5)]%nat.
Example C03_post_pvor_t_nonvacuous :
  post_hyps_t false 4 [] ex_post_hex = Some (true, true) /\
  post_hyps_t false 4 [] ex_dual_vor = Some (true, true) /\
  post_hyps false 4 [] ex_tol_vor = Some (false, true) /\
  post_hyps_t false 4 [] ex_tol_vor = Some (true, true).
Proof. vm_compute. repeat split; reflexivity. Qed.
