(* Props/C13.v — dual and vertex-truncated lattices have the combinatorics that define them.
   Only the property theorems; proofs in Proofs/DualFacts.v, Proofs/TruncateFacts.v; models in
   Model/Dual.v (make_dual over Q) and Model/Truncate.v (vertices_to_polygon, statement by statement, in
   integer units of 1/(3*scale): the output lattice has scale 3*scale L).

   NOT covered by a theorem (checked on the implementation by harness/c13.py only): the dual plaquette
   census on closed lattices with crossing-free dual drawing; "the new polygon as an extra plaquette and
   every old plaquette enlarged by one side per truncated corner" (truncate_faces);
   plot_dual == make_dual; the half-cell precondition itself is evaluated per input by the harness. *)
From Coq Require Import List ZArith Bool Arith QArith.
From Koala Require Import Model.Lattice Model.Dual Model.Truncate Proofs.DualFacts Proofs.TruncateFacts Proofs.TruncateDegrees.
Import ListNotations.

(* ------------------------------------------------------------------ dual *)
(* core of "edge vector equal to the true centre-to-centre displacement": with the crossing computed by
   round-half-even of the position difference, any displacement t congruent to pb - pa modulo the integers
   with |t| < 1/2 is recovered exactly (half-even ties are excluded by the strict bound) *)
Theorem C13_round_recovers_displacement : forall (pa pb t : Q) (m : Z),
  (pb - pa == t + inject_Z m -> -(1 # 2) < t -> t < 1 # 2 ->
   pb - pa + inject_Z (qround_half_even (pa - pb)) == t)%Q.
Proof. exact round_recovers_displacement. Qed.
Print Assumptions C13_round_recovers_displacement.

(* clause "the dual has one vertex per plaquette at its centre (mod 1), one edge per edge that has a
   plaquette on both sides, joining those two plaquettes in edge order": whenever make_dual returns a
   lattice D (no LatticeException, duplicate-edge guard silent): one dual vertex per plaquette, at centre
   mod 1, inside [0,1)^2; the dual edge list is the list of two-sided edges of L in edge order
   (two_sided = ascending edge indices whose row of edges.adjacent_plaquettes has no INVALID), dual edge i
   = (a, b) where the dart (e,+1) of the i-th two-sided edge e lies on plaquette a and the dart (e,-1) on
   plaquette b; its crossing is round-half-even(pos[a] - pos[b]) *)
Theorem C13_dual_vertices_edges : forall (L : lattice) (D : qlattice), make_dual L = DualOk D ->
  exists ps, find_all_plaquettes L = Some ps /\
    length (qpos D) = length ps /\
    (forall n, (n < length ps)%nat ->
       nth n (qpos D) qvzero = qmod1v (centre L (nth n ps no_plaquette)) /\
       (0 <= fst (nth n (qpos D) qvzero) /\ fst (nth n (qpos D) qvzero) < 1)%Q /\
       (0 <= snd (nth n (qpos D) qvzero) /\ snd (nth n (qpos D) qvzero) < 1)%Q) /\
    let ep := edges_plaquettes L ps in
    qedges D = map (fun e => sides_of (nth e ep (None, None))) (two_sided ep) /\
    length (qcrossing D) = length (qedges D) /\
    (forall i, (i < length (qedges D))%nat ->
       let e := nth i (two_sided ep) 0%nat in
       let ab := nth i (qedges D) (0, 0)%nat in
       (fst ab < length ps)%nat /\ (snd ab < length ps)%nat /\
       In (e, true) (darts_of (nth (fst ab) ps no_plaquette)) /\
       In (e, false) (darts_of (nth (snd ab) ps no_plaquette)) /\
       nth i (qcrossing D) vzero = dual_crossing_of (qpos D) ab).
Proof. exact dual_vertices_edges. Qed.
Print Assumptions C13_dual_vertices_edges.

(* clause "with edge vector equal to the true centre-to-centre displacement" under the half-cell
   condition: for every dual edge i = (a, b) and every t congruent to centre(b) - centre(a) modulo the
   integer lattice (the displacement obtained by unwrapping both plaquettes through the shared edge is
   such a t, since two unwrappings of a plaquette differ by an integer vector) with |t_x|, |t_y| < 1/2:
   pos[b] - pos[a] + crossing = t, exactly, over Q *)
Theorem C13_dual_vector_true : forall (L : lattice) (D : qlattice) (ps : list plaquette) (i : nat)
    (t : qvec) (m : Z * Z),
  make_dual L = DualOk D -> find_all_plaquettes L = Some ps -> (i < length (qedges D))%nat ->
  let ab := nth i (qedges D) (0, 0)%nat in
  let ca := centre L (nth (fst ab) ps no_plaquette) in
  let cb := centre L (nth (snd ab) ps no_plaquette) in
  (fst cb - fst ca == fst t + inject_Z (fst m))%Q -> (snd cb - snd ca == snd t + inject_Z (snd m))%Q ->
  (-(1 # 2) < fst t)%Q -> (fst t < 1 # 2)%Q -> (-(1 # 2) < snd t)%Q -> (snd t < 1 # 2)%Q ->
  (fst (qevec D i) == fst t)%Q /\ (snd (qevec D i) == snd t)%Q.
Proof. exact dual_vector_true. Qed.
Print Assumptions C13_dual_vector_true.

(* ------------------------------------------------------------------ truncation *)
(* the whole function in closed form: on every well-formed lattice without self-loops and for every
   selection (None = all vertices, Some l = the listed ones; a scalar argument is the one-element list)
   vertices_to_polygon never raises and returns trunc_spec L vs (defined in Proofs/TruncateFacts.v:
   positions block by block, original edges renumbered by newidx, polygon edge blocks, crossings) *)
Theorem C13_vertices_to_polygon_spec : forall (L : lattice) (vs : option (list nat)),
  wf_lattice L = true /\ no_self_loops L = true -> vertices_to_polygon L vs = Some (trunc_spec L vs).
Proof. exact vertices_to_polygon_spec. Qed.
Print Assumptions C13_vertices_to_polygon_spec.

(* clause "the result has d-1 more vertices and d more edges per truncated vertex, all new corners inside
   [0,1), ... with the original edges keeping their indices" (is_truncated v = selected and degree > 2;
   sumdeg n / ntrunc n = sum of degrees / number of truncated vertices below n; base_index v = new index of
   v or of its first corner): V' + #truncated = V + sum of d, E' = E + sum of d, scale' = 3*scale; corner u
   of truncated v sits at new index base_index v + u, at (3*pos[v] + outward vector) mod 3*scale, both
   coordinates in [0, 3*scale) i.e. real coordinates in [0,1); untouched vertices keep their position *)
Theorem C13_truncate_counts : forall (L : lattice) (vs : option (list nat)),
  wf_lattice L = true -> no_self_loops L = true ->
  let st := final_state L vs in
  let N := base_index L vs (nV L) in
  let D := sumdeg L vs (nV L) in
  t_total st = N /\ length (t_positions st) = N /\
  (N + ntrunc L vs (nV L) = nV L + D)%nat /\
  length (t_aedges st) = D /\ length (t_across st) = D /\
  length (t_oedges st) = nE L /\ length (t_ocross st) = nE L /\
  exists L', vertices_to_polygon L vs = Some L' /\
    nE L' = (nE L + D)%nat /\ length (crossing L') = (nE L + D)%nat /\ nV L' = N /\ (scale L' = 3 * scale L)%Z /\
    (forall v u, (v < nV L)%nat -> is_truncated L vs v = true -> (u < length (sorted_adj L v))%nat ->
       let p := nth (base_index L vs v + u) (pos L') vzero in
       p = vmod (3 * scale L) (vadd (vscale 3 (pos_at L v)) (outvec L v (nth u (sorted_adj L v) 0%nat))) /\
       (0 <= fst p < 3 * scale L)%Z /\ (0 <= snd p < 3 * scale L)%Z) /\
    (forall v, (v < nV L)%nat -> is_truncated L vs v = false ->
       pos_at L' (base_index L vs v) = vscale 3 (pos_at L v)).
Proof. exact truncate_counts. Qed.
Print Assumptions C13_truncate_counts.

(* "the original edges keeping their indices" (trunc_spec is the result by C13_vertices_to_polygon_spec): row e of the output joins the new indices of the two ends
   of old edge e (newidx w e = base_index w, plus the position of e in the clockwise list of w when w is
   truncated, i.e. the corner of w on this edge) *)
Theorem C13_truncate_original_edges : forall (L : lattice) (vs : option (list nat)) (e : nat),
  (e < nE L)%nat ->
  edge_at (trunc_spec L vs) e = (newidx L vs (fst (edge_at L e)) e, newidx L vs (snd (edge_at L e)) e).
Proof. exact edge_at_spec_orig. Qed.
Print Assumptions C13_truncate_original_edges.

(* the identities that certify ALL the crossing bookkeeping, for every position of the corners relative to
   the cell boundary (units of 1/(3*scale)): an original edge with k truncated ends has vector
   (3 - k) * old vector, i.e. (1 - k/3) * vector; the polygon edge with index E + sumdeg v + u joins corner u
   to corner (u+1) mod d of v (clockwise, the order of vertices.adjacent_edges) and its vector is
   w_{u+1} - w_u, i.e. (w_{u+1} - w_u)/3, with w the outward vectors at v *)
Theorem C13_truncate_vectors : forall (L : lattice) (vs : option (list nat)),
  wf_lattice L = true -> no_self_loops L = true ->
  exists L', vertices_to_polygon L vs = Some L' /\
    (forall e, (e < nE L)%nat ->
       evec L' e =
       vscale (3 - Z.of_nat ((if is_truncated L vs (fst (edge_at L e)) then 1 else 0) +
                             (if is_truncated L vs (snd (edge_at L e)) then 1 else 0)))
              (evec L e)) /\
    (forall v u, (v < nV L)%nat -> is_truncated L vs v = true -> (u < length (sorted_adj L v))%nat ->
       let d := length (sorted_adj L v) in
       let i := (nE L + sumdeg L vs v + u)%nat in
       edge_at L' i = (base_index L vs v + u, base_index L vs v + Nat.modulo (u + 1) d)%nat /\
       evec L' i = vsub (outvec L v (nth (Nat.modulo (u + 1) d) (sorted_adj L v) 0%nat))
                        (outvec L v (nth u (sorted_adj L v) 0%nat))).
Proof. exact truncate_vectors. Qed.
Print Assumptions C13_truncate_vectors.

(* clause "unchanged degrees elsewhere" (and: every new corner has degree 3).  Degree = count_ends of
   Model/Lattice.v = number of edge ends at the vertex = vertices.coordination_numbers *)
Theorem C13_truncate_degrees : forall (L : lattice) (vs : option (list nat)),
  wf_lattice L = true -> no_self_loops L = true ->
  exists L', vertices_to_polygon L vs = Some L' /\
    (forall v u, (v < nV L)%nat -> is_truncated L vs v = true -> (u < length (sorted_adj L v))%nat ->
       count_ends L' (base_index L vs v + u) = 3%nat) /\
    (forall v, (v < nV L)%nat -> is_truncated L vs v = false ->
       count_ends L' (base_index L vs v) = count_ends L v).
Proof. exact truncate_degrees. Qed.
Print Assumptions C13_truncate_degrees.

(* ------------------------------------------------------------------ non-vacuity *)
(* the 2x2 square lattice (4 vertices of degree 4 on the torus, all edges crossing-free or wrapping):
   well-formed, no self-loops; truncating everything gives 16 vertices and 24 edges, and a corner that
   falls across the cell boundary (a polygon edge with non-zero crossing) exists *)
Definition C13_square2 : lattice :=
  mkLattice 4 [(0, 0); (0, 2); (2, 0); (2, 2)]%Z
            [(0, 2); (0, 1); (1, 3); (1, 0); (2, 0); (2, 3); (3, 1); (3, 2)]%nat
            [(0, 0); (0, 0); (0, 0); (0, 1); (1, 0); (0, 0); (1, 0); (0, 1)]%Z.
Example C13_truncate_nonvacuous :
  wf_lattice C13_square2 = true /\ no_self_loops C13_square2 = true /\
  option_map nV (vertices_to_polygon C13_square2 None) = Some 16%nat /\
  option_map nE (vertices_to_polygon C13_square2 None) = Some 24%nat /\
  option_map (fun L' => existsb (fun c => negb (Z.eqb (fst c) 0) || negb (Z.eqb (snd c) 0)) (skipn 8 (crossing L')))
             (vertices_to_polygon C13_square2 None) = Some true.
Proof. repeat split; vm_compute; reflexivity. Qed.

(* ------------------------------------------------------------------ truncation: the new polygon is a face *)
(* Clause "the new polygon as an extra plaquette" (supersedes the NOT-covered note at the top of this file for this
   clause; proofs in Proofs/TruncateFacesGeom.v, TruncateFacesRot.v, TruncateFaces.v).  Setting, for every
   well-formed lattice L without self-loops, every selection vs and every truncated vertex v (selected, degree
   d > 2), L' = the lattice returned by vertices_to_polygon:
     e_u = nth u (sorted_adj L v) 0   u-th edge at v, clockwise          w_u = wv L v u   its outward vector
     cn L vs v u = base_index v + u   the corner on e_u                   pe L vs v u = nE L + sumdeg v + u
     pu d u = (u - 1) mod d                                               the polygon edge cn u -> cn (u+1)
   Hypothesis turns_cw L v = true (a boolean predicate): w_u x w_{u+1 mod d} < 0 for all u < d, i.e. each outward
   vector at v is followed clockwise by the next after a turn of more than 0 and less than pi. *)
From Koala Require Import Proofs.LatticeFacts Proofs.TruncateFacesGeom Proofs.TruncateFacesRot Proofs.TruncateFaces
     Proofs.TruncateFacesWinding.

(* (1a) no hypothesis on angles: L' is again well-formed and loop-free; the rotation-system row of corner u has
   exactly three entries: the shortened original edge e_u, the polygon edge to the next corner and the one from
   the previous corner; their outward vectors are lam*w_u (lam = 1 or 2: original edge keeps 1 - k/3 of its
   length), w_{u+1} - w_u and w_{u-1} - w_u (units of 1/(3 scale)) *)
Theorem C13_truncate_corner_edges : forall (L : lattice) (vs : option (list nat)) (v u : nat),
  wf_lattice L = true -> no_self_loops L = true -> (v < nV L)%nat -> is_truncated L vs v = true ->
  (u < length (sorted_adj L v))%nat ->
  exists L', vertices_to_polygon L vs = Some L' /\
    let d := length (sorted_adj L v) in
    let c := cn L vs v u in
    let e := nth u (sorted_adj L v) 0%nat in
    wf_lattice L' = true /\ no_self_loops L' = true /\ (c < nV L')%nat /\
    Permutation.Permutation [e; pe L vs v u; pe L vs v (pu d u)] (sorted_adj L' c) /\
    edge_at L' (pe L vs v u) = (c, cn L vs v (Nat.modulo (u + 1) d)) /\
    edge_at L' (pe L vs v (pu d u)) = (cn L vs v (pu d u), c) /\
    (exists lam, (0 < lam)%Z /\ outvec L' c e = vscale lam (wv L v u)) /\
    outvec L' c (pe L vs v u) = vsub (wv L v (Nat.modulo (u + 1) d)) (wv L v u) /\
    outvec L' c (pe L vs v (pu d u)) = vsub (wv L v (pu d u)) (wv L v u).
Proof. exact truncate_corner_edges. Qed.
Print Assumptions C13_truncate_corner_edges.

(* (1b) under turns_cw the clockwise cyclic order at corner u (succ_in = next entry of the row, cyclically, which
   is what the face walk of lattice.py follows) is: e_u, polygon edge to corner u+1, polygon edge to corner u-1 *)
Theorem C13_truncate_corner_rotation : forall (L : lattice) (vs : option (list nat)) (v u : nat),
  wf_lattice L = true -> no_self_loops L = true -> (v < nV L)%nat -> is_truncated L vs v = true ->
  turns_cw L v = true -> (u < length (sorted_adj L v))%nat ->
  exists L', vertices_to_polygon L vs = Some L' /\
    let d := length (sorted_adj L v) in
    let row := sorted_adj L' (cn L vs v u) in
    let e := nth u (sorted_adj L v) 0%nat in
    length row = 3%nat /\
    succ_in row e = Some (pe L vs v u) /\
    succ_in row (pe L vs v u) = Some (pe L vs v (pu d u)) /\
    succ_in row (pe L vs v (pu d u)) = Some e.
Proof. exact truncate_corner_rotation. Qed.
Print Assumptions C13_truncate_corner_rotation.

(* (2) the polygon edges taken backwards, c_{u0+1} -> c_{u0} -> c_{u0-1} -> ... (pwalk L vs v u0; idx d u0 t =
   (u0 - t) mod d), form a closed orbit of the dart successor nd of L' (orbit_walk of Proofs/LatticeFacts.v: every
   step is the nd-successor of the previous one, the first of the last, no dart twice), of length d, consistent
   as a vertex/edge/direction walk, with no repeated edge, zero net boundary crossing and edge vectors summing
   to zero; for every starting corner u0 *)
Theorem C13_truncate_polygon_is_orbit : forall (L : lattice) (vs : option (list nat)) (v u0 : nat),
  wf_lattice L = true -> no_self_loops L = true -> (v < nV L)%nat -> is_truncated L vs v = true ->
  turns_cw L v = true -> (u0 < length (sorted_adj L v))%nat ->
  exists L', vertices_to_polygon L vs = Some L' /\
    let d := length (sorted_adj L v) in
    let w := pwalk L vs v u0 in
    orbit_walk L' w /\ length w = d /\
    (forall t, (t < d)%nat -> nth t w (0, 0, true)%nat =
       (pe L vs v (idx d u0 t), cn L vs v (Nat.modulo (idx d u0 t + 1) d), false)) /\
    (forall u, (u < d)%nat -> nd L' (pe L vs v u, false) = Some (pe L vs v (pu d u), false)) /\
    walk_ok L' w (snd (fst (hd (0, 0, true)%nat w))) /\
    NoDup (walk_edges w) /\ net_crossing L' w = vzero /\ vsum (map (dvec L') w) = vzero.
Proof. exact truncate_polygon_is_orbit. Qed.
Print Assumptions C13_truncate_polygon_is_orbit.

(* (3) the polygon points of that walk are a translate of the tips of w_{u0}, w_{u0-1}, ... (tips L v u0), measured
   in units of 1/(3 scale) instead of 1/scale: the signed area is 1/9 of that of the polygon spanned by the tips
   of the outward vectors, a sum of the positive terms w_{u+1} x w_u; in particular it is positive *)
Theorem C13_truncate_polygon_area_positive : forall (L : lattice) (vs : option (list nat)) (v u0 : nat),
  wf_lattice L = true -> no_self_loops L = true -> (v < nV L)%nat -> is_truncated L vs v = true ->
  turns_cw L v = true -> (u0 < length (sorted_adj L v))%nat ->
  exists L', vertices_to_polygon L vs = Some L' /\
    let w := pwalk L vs v u0 in
    (exists T, poly_points L' w = map (vadd T) (tips L v u0)) /\
    area2 (poly_points L' w) = area2 (tips L v u0) /\
    (scale L' = 3 * scale L)%Z /\
    (0 < area2 (poly_points L' w))%Z.
Proof. exact truncate_polygon_area_positive. Qed.
Print Assumptions C13_truncate_polygon_area_positive.

(* hence (all_faces_spec of C01): the sweep over all directed edges of L' (_find_all_plaquettes before the validity
   filters) lists the polygon as one of its face walks, with d sides; it passes the filters "no repeated edge" and
   "zero net crossing" and has positive area, which is how the property words the orientation filter *)
Theorem C13_truncate_polygon_is_face : forall (L : lattice) (vs : option (list nat)) (v : nat),
  wf_lattice L = true -> no_self_loops L = true -> (v < nV L)%nat -> is_truncated L vs v = true ->
  turns_cw L v = true ->
  exists L' fs, vertices_to_polygon L vs = Some L' /\ all_faces L' = Some fs /\
    exists f u0, In f fs /\ (u0 < length (sorted_adj L v))%nat /\ f_walk f = pwalk L vs v u0 /\
      length (f_walk f) = length (sorted_adj L v) /\
      f_nodup f = true /\ f_netzero f = true /\ (0 < f_area2 f)%Z.
Proof. exact truncate_polygon_is_face. Qed.
Print Assumptions C13_truncate_polygon_is_face.

(* (3b) the code's orientation filter is "winding number = -1" (walk_valid of Model/Lattice.v, the exact winding
   number of the arctan2 construction of lattice.py): it is -1 on the polygon walk, for every starting corner, so
   the walk passes all three coded filters.  Proof (Proofs/TruncateFacesWinding.v): the edge directions of a polygon
   seen anticlockwise from v are deformed into the radial directions -w_u without changing the count of branch-cut
   crossings; for the radial directions the count is the number of wraps of the sort key alpha along the sorted
   row sorted_adj L v, which is one *)
Theorem C13_truncate_polygon_walk_valid : forall (L : lattice) (vs : option (list nat)) (v u0 : nat),
  wf_lattice L = true -> no_self_loops L = true -> (v < nV L)%nat -> is_truncated L vs v = true ->
  turns_cw L v = true -> (u0 < length (sorted_adj L v))%nat ->
  exists L', vertices_to_polygon L vs = Some L' /\
    winding (map (dvec L') (pwalk L vs v u0)) = (-1)%Z /\ walk_valid L' (pwalk L vs v u0) = true.
Proof. exact truncate_polygon_walk_valid. Qed.
Print Assumptions C13_truncate_polygon_walk_valid.

(* clause "the new polygon as an extra plaquette": hence (plaquettes_spec of C01) the plaquette list of the
   truncated lattice contains the polygon around v: a plaquette with d sides whose edges are the d polygon edges
   (all traversed backwards), whose vertices are the d corners, winding number -1, positive area *)
Theorem C13_truncate_polygon_is_plaquette : forall (L : lattice) (vs : option (list nat)) (v : nat),
  wf_lattice L = true -> no_self_loops L = true -> (v < nV L)%nat -> is_truncated L vs v = true ->
  turns_cw L v = true ->
  exists L' ps, vertices_to_polygon L vs = Some L' /\ find_all_plaquettes L' = Some ps /\
    exists u0, (u0 < length (sorted_adj L v))%nat /\
      let p := mk_plaquette L' (pwalk L vs v u0) in
      In p ps /\ n_sides p = length (sorted_adj L v) /\
      p_edges p = walk_edges (pwalk L vs v u0) /\ p_verts p = walk_verts (pwalk L vs v u0) /\
      p_dirs p = walk_dirs (pwalk L vs v u0) /\
      p_winding p = (-1)%Z /\ (0 < p_area2 p)%Z.
Proof. exact truncate_polygon_is_plaquette. Qed.
Print Assumptions C13_truncate_polygon_is_plaquette.

(* ------------------------------------------------------------------ truncation: the old plaquettes *)
(* Clause "every old plaquette enlarged by one side per truncated corner" (proofs in Proofs/TruncateOldFaces.v,
   Proofs/TruncateOldValid.v).  Hypothesis all_turns_cw L vs = true: turns_cw at every truncated vertex.
     pdart L vs a       for an old dart a = (e, b) entering the truncated vertex h at its u-th edge: the polygon
                        dart (pe h u, true), from corner u to corner u+1
     expand L vs w      the walk w with that polygon step inserted after every step that enters a truncated vertex
     ncorners L vs w    the number of such steps = truncated corners passed by w *)
From Koala Require Import Proofs.TruncateOldFaces Proofs.TruncateOldValid.

(* the dart successor of the truncated lattice, completely: the rotation-system row of a vertex that is not
   truncated is unchanged (same edge ids, same order); a face walk passes such a vertex as before; a face walk
   entering a truncated vertex along its u-th edge takes the polygon edge to corner u+1 and then continues as the
   old walk did (together with C13_truncate_polygon_is_orbit for the backward polygon darts this determines nd L'
   on every dart) *)
Theorem C13_truncate_nd_complete : forall (L : lattice) (vs : option (list nat)),
  wf_lattice L = true -> no_self_loops L = true -> all_turns_cw L vs = true ->
  exists L', vertices_to_polygon L vs = Some L' /\
    (forall x, (x < nV L)%nat -> is_truncated L vs x = false ->
       sorted_adj L' (base_index L vs x) = sorted_adj L x) /\
    (forall a, valid_dart L a ->
       if is_truncated L vs (dhead L a)
       then nd L' a = Some (pdart L vs a) /\ nd L' (pdart L vs a) = nd L a
       else nd L' a = nd L a).
Proof. exact truncate_nd_complete. Qed.
Print Assumptions C13_truncate_nd_complete.

(* every face walk of L (entry of the sweep all_faces, before the validity filters) becomes the closed orbit
   expand w of the dart successor of L', with one more side per truncated corner, and the sweep of L' lists a
   cyclic rotation of it *)
Theorem C13_truncate_old_faces : forall (L : lattice) (vs : option (list nat)) (fs : list face) (f : face),
  wf_lattice L = true -> no_self_loops L = true -> all_turns_cw L vs = true ->
  all_faces L = Some fs -> In f fs ->
  exists L' fs', vertices_to_polygon L vs = Some L' /\ all_faces L' = Some fs' /\
    orbit_walk L' (expand L vs (f_walk f)) /\
    length (expand L vs (f_walk f)) = (length (f_walk f) + ncorners L vs (f_walk f))%nat /\
    exists f' l1 l2, In f' fs' /\ expand L vs (f_walk f) = l1 ++ l2 /\ f_walk f' = l2 ++ l1.
Proof. exact truncate_old_faces. Qed.
Print Assumptions C13_truncate_old_faces.

(* clause "every old plaquette enlarged by one side per truncated corner": every entry p of the plaquette list of L
   (walk w) reappears in the plaquette list of the truncated lattice as the walk expand w read from some starting
   point (l2 ++ l1 where expand w = l1 ++ l2), i.e. it passes the three coded filters (no repeated edge: the
   polygon edges are new and pairwise different; net crossing: the edge vectors add up to 3 times the old sum;
   winding number: unchanged, each truncated corner being a left turn split at its diagonal), and it has
   n_sides p + (number of truncated corners passed) sides *)
Theorem C13_truncate_old_plaquette_enlarged :
  forall (L : lattice) (vs : option (list nat)) (ps : list plaquette) (p : plaquette),
  wf_lattice L = true -> no_self_loops L = true -> all_turns_cw L vs = true ->
  find_all_plaquettes L = Some ps -> In p ps ->
  exists L' ps', vertices_to_polygon L vs = Some L' /\ find_all_plaquettes L' = Some ps' /\
    exists w l1 l2, orbit_walk L w /\ p = mk_plaquette L w /\ expand L vs w = l1 ++ l2 /\
      let p' := mk_plaquette L' (l2 ++ l1) in
      In p' ps' /\ n_sides p' = (n_sides p + ncorners L vs w)%nat.
Proof. exact truncate_old_plaquette_enlarged. Qed.
Print Assumptions C13_truncate_old_plaquette_enlarged.

(* non-vacuity: on the 2x2 square torus every vertex is truncated and satisfies turns_cw; the polygon of vertex 0
   (edges 8..11, one of them with non-zero crossing on each side of the cell) is reported by find_all_plaquettes of
   the truncated lattice as the walk pwalk 0, its winding number is -1 for every rotation, the old 4-gons have become 8-gons; the truncated lattice satisfies the hypotheses
   again (truncation followed by truncation) *)
Example C13_truncate_polygon_nonvacuous :
  forallb (fun v => is_truncated C13_square2 None v && turns_cw C13_square2 v) (seq 0 4) = true /\
  all_turns_cw C13_square2 None = true /\
  option_map (map (fun p => (n_sides p, ncorners C13_square2 None (combine (combine (p_edges p) (p_verts p)) (p_dirs p)))))
             (find_all_plaquettes C13_square2) = Some [(4, 4); (4, 4); (4, 4); (4, 4)]%nat /\
  option_map (fun L' => map (fun u0 => winding (map (dvec L') (pwalk C13_square2 None 0 u0))) (seq 0 4))
             (vertices_to_polygon C13_square2 None) = Some [-1; -1; -1; -1]%Z /\
  option_map (fun L' => existsb (fun c => negb (Z.eqb (fst c) 0) || negb (Z.eqb (snd c) 0))
                                (map (dcross L') (pwalk C13_square2 None 0 0)))
             (vertices_to_polygon C13_square2 None) = Some true /\
  option_map (fun L' => option_map (map (fun p => (p_edges p, p_dirs p))) (find_all_plaquettes L'))
             (vertices_to_polygon C13_square2 None) =
  Some (Some [([0; 18; 5; 21; 2; 12; 1; 11], [true; true; true; true; false; true; false; true]);
              ([0; 8; 3; 15; 2; 22; 7; 17], [false; true; false; true; true; true; true; true]);
              ([1; 13; 6; 20; 5; 19; 4; 10], [true; true; false; true; false; true; true; true]);
              ([3; 9; 4; 16; 7; 23; 6; 14], [true; true; false; true; false; true; true; true]);
              ([8; 11; 10; 9], [false; false; false; false]);
              ([12; 15; 14; 13], [false; false; false; false]);
              ([16; 19; 18; 17], [false; false; false; false]);
              ([20; 23; 22; 21], [false; false; false; false])]%nat) /\
  option_map (fun L' => walk_edges (pwalk C13_square2 None 0 0)) (vertices_to_polygon C13_square2 None)
    = Some [8; 11; 10; 9]%nat /\
  option_map (fun L' => forallb (fun v => is_truncated L' None v && turns_cw L' v) (seq 0 16))
             (vertices_to_polygon C13_square2 None) = Some true.
Proof. repeat split; vm_compute; reflexivity. Qed.
