(* Props/C13.v — dual and vertex-truncated lattices.  Only the property theorems; proofs are in
   Proofs/DualFacts.v, Proofs/TruncateFacts.v; models in Model/Dual.v, Model/Truncate.v. *)
From Coq Require Import List ZArith Bool Arith QArith.
From Koala Require Import Model.Lattice Model.Dual Proofs.DualFacts.
Import ListNotations.
Open Scope Q_scope.

(* core of "edge vector equal to the true centre-to-centre displacement": with the crossing computed by
   round-half-even of the position difference, any displacement t congruent to pb - pa modulo the integers
   with |t| < 1/2 is recovered exactly. *)
Theorem C13_round_recovers_displacement : forall (pa pb t : Q) (m : Z),
  pb - pa == t + inject_Z m -> -(1 # 2) < t -> t < 1 # 2 ->
  pb - pa + inject_Z (qround_half_even (pa - pb)) == t.
Proof. exact round_recovers_displacement. Qed.
Print Assumptions C13_round_recovers_displacement.
