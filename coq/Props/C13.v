(* Props/C13.v — dual and vertex-truncated lattices have the combinatorics that define them.
   Only the property theorems; proofs in Proofs/DualFacts.v, Proofs/TruncateFacts.v; models in
   Model/Dual.v (make_dual over Q) and Model/Truncate.v (vertices_to_polygon, statement by statement, in
   integer units of 1/(3*scale): the output lattice has scale 3*scale L).

   NOT covered by a theorem (checked on the implementation by harness/c13.py only): the dual plaquette
   census on closed lattices with crossing-free dual drawing; "the new polygon as an extra plaquette and
   every old plaquette enlarged by one side per truncated corner" (truncate_faces);
   plot_dual == make_dual; the half-cell precondition itself is evaluated per input by the harness. *)
From Coq Require Import List ZArith Bool Arith QArith.
From Koala Require Import Model.Lattice Model.Dual Model.Truncate Proofs.DualFacts Proofs.TruncateFacts Proofs.TruncateDegrees.
Import ListNotations.

(* ------------------------------------------------------------------ dual *)
(* core of "edge vector equal to the true centre-to-centre displacement": with the crossing computed by
   round-half-even of the position difference, any displacement t congruent to pb - pa modulo the integers
   with |t| < 1/2 is recovered exactly (half-even ties are excluded by the strict bound) *)
Theorem C13_round_recovers_displacement : forall (pa pb t : Q) (m : Z),
  (pb - pa == t + inject_Z m -> -(1 # 2) < t -> t < 1 # 2 ->
   pb - pa + inject_Z (qround_half_even (pa - pb)) == t)%Q.
Proof. exact round_recovers_displacement. Qed.
Print Assumptions C13_round_recovers_displacement.

(* clause "the dual has one vertex per plaquette at its centre (mod 1), one edge per edge that has a
   plaquette on both sides, joining those two plaquettes in edge order": whenever make_dual returns a
   lattice D (no LatticeException, duplicate-edge guard silent): one dual vertex per plaquette, at centre
   mod 1, inside [0,1)^2; the dual edge list is the list of two-sided edges of L in edge order
   (two_sided = ascending edge indices whose row of edges.adjacent_plaquettes has no INVALID), dual edge i
   = (a, b) where the dart (e,+1) of the i-th two-sided edge e lies on plaquette a and the dart (e,-1) on
   plaquette b; its crossing is round-half-even(pos[a] - pos[b]) *)
Theorem C13_dual_vertices_edges : forall (L : lattice) (D : qlattice), make_dual L = DualOk D ->
  exists ps, find_all_plaquettes L = Some ps /\
    length (qpos D) = length ps /\
    (forall n, (n < length ps)%nat ->
       nth n (qpos D) qvzero = qmod1v (centre L (nth n ps no_plaquette)) /\
       (0 <= fst (nth n (qpos D) qvzero) /\ fst (nth n (qpos D) qvzero) < 1)%Q /\
       (0 <= snd (nth n (qpos D) qvzero) /\ snd (nth n (qpos D) qvzero) < 1)%Q) /\
    let ep := edges_plaquettes L ps in
    qedges D = map (fun e => sides_of (nth e ep (None, None))) (two_sided ep) /\
    length (qcrossing D) = length (qedges D) /\
    (forall i, (i < length (qedges D))%nat ->
       let e := nth i (two_sided ep) 0%nat in
       let ab := nth i (qedges D) (0, 0)%nat in
       (fst ab < length ps)%nat /\ (snd ab < length ps)%nat /\
       In (e, true) (darts_of (nth (fst ab) ps no_plaquette)) /\
       In (e, false) (darts_of (nth (snd ab) ps no_plaquette)) /\
       nth i (qcrossing D) vzero = dual_crossing_of (qpos D) ab).
Proof. exact dual_vertices_edges. Qed.
Print Assumptions C13_dual_vertices_edges.

(* clause "with edge vector equal to the true centre-to-centre displacement" under the half-cell
   condition: for every dual edge i = (a, b) and every t congruent to centre(b) - centre(a) modulo the
   integer lattice (the displacement obtained by unwrapping both plaquettes through the shared edge is
   such a t, since two unwrappings of a plaquette differ by an integer vector) with |t_x|, |t_y| < 1/2:
   pos[b] - pos[a] + crossing = t, exactly, over Q *)
Theorem C13_dual_vector_true : forall (L : lattice) (D : qlattice) (ps : list plaquette) (i : nat)
    (t : qvec) (m : Z * Z),
  make_dual L = DualOk D -> find_all_plaquettes L = Some ps -> (i < length (qedges D))%nat ->
  let ab := nth i (qedges D) (0, 0)%nat in
  let ca := centre L (nth (fst ab) ps no_plaquette) in
  let cb := centre L (nth (snd ab) ps no_plaquette) in
  (fst cb - fst ca == fst t + inject_Z (fst m))%Q -> (snd cb - snd ca == snd t + inject_Z (snd m))%Q ->
  (-(1 # 2) < fst t)%Q -> (fst t < 1 # 2)%Q -> (-(1 # 2) < snd t)%Q -> (snd t < 1 # 2)%Q ->
  (fst (qevec D i) == fst t)%Q /\ (snd (qevec D i) == snd t)%Q.
Proof. exact dual_vector_true. Qed.
Print Assumptions C13_dual_vector_true.

(* ------------------------------------------------------------------ truncation *)
(* the whole function in closed form: on every well-formed lattice without self-loops and for every
   selection (None = all vertices, Some l = the listed ones; a scalar argument is the one-element list)
   vertices_to_polygon never raises and returns trunc_spec L vs (defined in Proofs/TruncateFacts.v:
   positions block by block, original edges renumbered by newidx, polygon edge blocks, crossings) *)
Theorem C13_vertices_to_polygon_spec : forall (L : lattice) (vs : option (list nat)),
  wf_lattice L = true /\ no_self_loops L = true -> vertices_to_polygon L vs = Some (trunc_spec L vs).
Proof. exact vertices_to_polygon_spec. Qed.
Print Assumptions C13_vertices_to_polygon_spec.

(* clause "the result has d-1 more vertices and d more edges per truncated vertex, all new corners inside
   [0,1), ... with the original edges keeping their indices" (is_truncated v = selected and degree > 2;
   sumdeg n / ntrunc n = sum of degrees / number of truncated vertices below n; base_index v = new index of
   v or of its first corner): V' + #truncated = V + sum of d, E' = E + sum of d, scale' = 3*scale; corner u
   of truncated v sits at new index base_index v + u, at (3*pos[v] + outward vector) mod 3*scale, both
   coordinates in [0, 3*scale) i.e. real coordinates in [0,1); untouched vertices keep their position *)
Theorem C13_truncate_counts : forall (L : lattice) (vs : option (list nat)),
  wf_lattice L = true -> no_self_loops L = true ->
  let st := final_state L vs in
  let N := base_index L vs (nV L) in
  let D := sumdeg L vs (nV L) in
  t_total st = N /\ length (t_positions st) = N /\
  (N + ntrunc L vs (nV L) = nV L + D)%nat /\
  length (t_aedges st) = D /\ length (t_across st) = D /\
  length (t_oedges st) = nE L /\ length (t_ocross st) = nE L /\
  exists L', vertices_to_polygon L vs = Some L' /\
    nE L' = (nE L + D)%nat /\ length (crossing L') = (nE L + D)%nat /\ nV L' = N /\ (scale L' = 3 * scale L)%Z /\
    (forall v u, (v < nV L)%nat -> is_truncated L vs v = true -> (u < length (sorted_adj L v))%nat ->
       let p := nth (base_index L vs v + u) (pos L') vzero in
       p = vmod (3 * scale L) (vadd (vscale 3 (pos_at L v)) (outvec L v (nth u (sorted_adj L v) 0%nat))) /\
       (0 <= fst p < 3 * scale L)%Z /\ (0 <= snd p < 3 * scale L)%Z) /\
    (forall v, (v < nV L)%nat -> is_truncated L vs v = false ->
       pos_at L' (base_index L vs v) = vscale 3 (pos_at L v)).
Proof. exact truncate_counts. Qed.
Print Assumptions C13_truncate_counts.

(* "the original edges keeping their indices" (trunc_spec is the result by C13_vertices_to_polygon_spec): row e of the output joins the new indices of the two ends
   of old edge e (newidx w e = base_index w, plus the position of e in the clockwise list of w when w is
   truncated, i.e. the corner of w on this edge) *)
Theorem C13_truncate_original_edges : forall (L : lattice) (vs : option (list nat)) (e : nat),
  (e < nE L)%nat ->
  edge_at (trunc_spec L vs) e = (newidx L vs (fst (edge_at L e)) e, newidx L vs (snd (edge_at L e)) e).
Proof. exact edge_at_spec_orig. Qed.
Print Assumptions C13_truncate_original_edges.

(* the identities that certify ALL the crossing bookkeeping, for every position of the corners relative to
   the cell boundary (units of 1/(3*scale)): an original edge with k truncated ends has vector
   (3 - k) * old vector, i.e. (1 - k/3) * vector; the polygon edge with index E + sumdeg v + u joins corner u
   to corner (u+1) mod d of v (clockwise, the order of vertices.adjacent_edges) and its vector is
   w_{u+1} - w_u, i.e. (w_{u+1} - w_u)/3, with w the outward vectors at v *)
Theorem C13_truncate_vectors : forall (L : lattice) (vs : option (list nat)),
  wf_lattice L = true -> no_self_loops L = true ->
  exists L', vertices_to_polygon L vs = Some L' /\
    (forall e, (e < nE L)%nat ->
       evec L' e =
       vscale (3 - Z.of_nat ((if is_truncated L vs (fst (edge_at L e)) then 1 else 0) +
                             (if is_truncated L vs (snd (edge_at L e)) then 1 else 0)))
              (evec L e)) /\
    (forall v u, (v < nV L)%nat -> is_truncated L vs v = true -> (u < length (sorted_adj L v))%nat ->
       let d := length (sorted_adj L v) in
       let i := (nE L + sumdeg L vs v + u)%nat in
       edge_at L' i = (base_index L vs v + u, base_index L vs v + Nat.modulo (u + 1) d)%nat /\
       evec L' i = vsub (outvec L v (nth (Nat.modulo (u + 1) d) (sorted_adj L v) 0%nat))
                        (outvec L v (nth u (sorted_adj L v) 0%nat))).
Proof. exact truncate_vectors. Qed.
Print Assumptions C13_truncate_vectors.

(* clause "unchanged degrees elsewhere" (and: every new corner has degree 3).  Degree = count_ends of
   Model/Lattice.v = number of edge ends at the vertex = vertices.coordination_numbers *)
Theorem C13_truncate_degrees : forall (L : lattice) (vs : option (list nat)),
  wf_lattice L = true -> no_self_loops L = true ->
  exists L', vertices_to_polygon L vs = Some L' /\
    (forall v u, (v < nV L)%nat -> is_truncated L vs v = true -> (u < length (sorted_adj L v))%nat ->
       count_ends L' (base_index L vs v + u) = 3%nat) /\
    (forall v, (v < nV L)%nat -> is_truncated L vs v = false ->
       count_ends L' (base_index L vs v) = count_ends L v).
Proof. exact truncate_degrees. Qed.
Print Assumptions C13_truncate_degrees.

(* ------------------------------------------------------------------ non-vacuity *)
(* the 2x2 square lattice (4 vertices of degree 4 on the torus, all edges crossing-free or wrapping):
   well-formed, no self-loops; truncating everything gives 16 vertices and 24 edges, and a corner that
   falls across the cell boundary (a polygon edge with non-zero crossing) exists *)
Definition C13_square2 : lattice :=
  mkLattice 4 [(0, 0); (0, 2); (2, 0); (2, 2)]%Z
            [(0, 2); (0, 1); (1, 3); (1, 0); (2, 0); (2, 3); (3, 1); (3, 2)]%nat
            [(0, 0); (0, 0); (0, 0); (0, 1); (1, 0); (0, 0); (1, 0); (0, 1)]%Z.
Example C13_truncate_nonvacuous :
  wf_lattice C13_square2 = true /\ no_self_loops C13_square2 = true /\
  option_map nV (vertices_to_polygon C13_square2 None) = Some 16%nat /\
  option_map nE (vertices_to_polygon C13_square2 None) = Some 24%nat /\
  option_map (fun L' => existsb (fun c => negb (Z.eqb (fst c) 0) || negb (Z.eqb (snd c) 0)) (skipn 8 (crossing L')))
             (vertices_to_polygon C13_square2 None) = Some true.
Proof. repeat split; vm_compute; reflexivity. Qed.
