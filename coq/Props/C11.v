(* Props/C11.v — path finding and metrics: the property theorems. *)
From Coq Require Import List ZArith Bool Arith.
From Koala Require Import Model.AStar Proofs.AStarFacts.
Import ListNotations.

(* clause "including start==goal": the path is ([start], []) *)
Theorem C11_start_eq_goal :
  forall adj h s early n, as_path adj h s s early (S n) = AS_Path [s] [] None.
Proof. exact as_path_start_eq_goal. Qed.
Print Assumptions C11_start_eq_goal.
