(* Props/C11.v — path finding returns valid (and when asked shortest) paths; metrics are metrics.
   Only the property theorems; proofs are in Proofs/AStarFacts.v, ChainFlipFacts.v, MetricFacts.v.

   NOT covered by a theorem here (S/K only, see harness/c11.py): that the adjacency providers
   (graph_utils.adjacent_plaquettes / vertex_neighbours) list exactly the neighbours through shared edges
   (C02's tables; checked on every returned path from the lattice's own edge tables), float rounding of
   the cost additions and sqrt (the model adds exactly; metrics are about squared distances). *)
From Coq Require Import List ZArith QArith Bool Arith.
From Koala Require Import Model.AStar Model.Metric Model.FluxSolver
     Proofs.AStarFacts Proofs.AStarOptimal Proofs.AStarBudget Proofs.ChainFlipFacts Proofs.MetricFacts.
Import ListNotations.

(* ---- clause "a valid chain": forward-pass invariant, for every budget and both stopping modes:
   a returned came_from records the goal; every recorded node other than start has a recorded parent of which
   it is a neighbour through the recorded edge; parent pointers are acyclic (as_cf_inv); cost_so_far[current]
   never raises KeyError.  Hypothesis: the heuristic is >= 0 on graph edges and > 0 between distinct
   adjacent nodes (distinct centres). *)
Theorem C11_forward_invariant :
  forall (adj : nat -> list (nat * nat)) (h : nat -> nat -> Z) (start goal : nat) (early : bool),
    (forall a b e, In (b, e) (adj a) -> (0 <= h a b)%Z /\ (a <> b -> (0 < h a b)%Z)) ->
    forall maxits,
      match as_forward adj h start goal early maxits with
      | AS_Found cf _ _ => as_cf_inv adj start cf /\ as_lookup goal cf <> None
      | AS_NotFound _ => True
      | AS_Err => False
      end.
Proof. exact as_forward_invariant. Qed.
Print Assumptions C11_forward_invariant.

(* ---- clause "valid chain: ends are the requested start and goal, consecutive nodes joined by the listed edge,
   one edge per step", plus no node repeated: the backward pass on any came_from satisfying the invariant
   terminates without KeyError and returns nodes = [goal; ...; start] (the order the code uses) *)
Theorem C11_backward_valid_chain :
  forall (adj : nat -> list (nat * nat)) (start goal : nat) (cf : list (nat * option (nat * nat))),
    as_cf_inv adj start cf -> (as_lookup goal cf <> None \/ goal = start) ->
    exists ns es, as_backward cf start goal = Some (ns, es) /\
      hd_error ns = Some goal /\ last ns goal = start /\ S (length es) = length ns
      /\ as_chain adj ns es /\ NoDup ns.
Proof. exact as_backward_valid_chain. Qed.
Print Assumptions C11_backward_valid_chain.

(* ---- both passes composed (path_between_plaquettes / path_between_vertices): for every budget and both
   stopping modes the result is PathFindingError or a valid simple chain; no other exception *)
Theorem C11_path_valid :
  forall (adj : nat -> list (nat * nat)) (h : nat -> nat -> Z) (start goal : nat) (early : bool),
    (forall a b e, In (b, e) (adj a) -> (0 <= h a b)%Z /\ (a <> b -> (0 < h a b)%Z)) ->
    forall maxits,
      match as_path adj h start goal early maxits with
      | AS_Path ns es _ => as_valid_chain adj start goal ns es
      | AS_PathFindingError _ => True
      | AS_Crash => False
      end.
Proof. exact as_path_valid. Qed.
Print Assumptions C11_path_valid.

(* ---- clause "including start == goal": the path is ([start], []) for every budget (popping the goal is free) *)
Theorem C11_start_eq_goal :
  forall adj h s early n, as_path adj h s s early n = AS_Path [s] [] None.
Proof. exact as_path_start_eq_goal. Qed.
Print Assumptions C11_start_eq_goal.

(* ---- clause "without early stopping the path is a shortest one for the chosen centre-to-centre metric" (astar_optimal).
   Exact arithmetic.  Hypotheses on the cost function (all hold for a metric between node centres): >= 0 on graph edges and
   > 0 between distinct adjacent nodes; h goal goal = 0; h n goal >= 0; consistency towards the goal
   h a goal <= h a b + h b goal on every graph edge a -> b (triangle inequality).  Then for EVERY budget, if the full search
   returns a path, its cost is <= the cost of ANY walk goal ... start in the graph (as_chain adj: consecutive nodes adjacent). *)
Theorem C11_astar_optimal :
  forall (adj : nat -> list (nat * nat)) (h : nat -> nat -> Z) (start goal : nat),
    (forall a b e, In (b, e) (adj a) -> (0 <= h a b)%Z /\ (a <> b -> (0 < h a b)%Z)) ->
    h goal goal = 0%Z ->
    (forall a b e, In (b, e) (adj a) -> (h a goal <= h a b + h b goal)%Z) ->
    (forall n, (0 <= h n goal)%Z) ->
    forall maxits ns es mg,
      as_path adj h start goal false maxits = AS_Path ns es mg ->
      forall ws es', as_chain adj ws es' -> hd_error ws = Some goal -> last ws goal = start ->
        (as_chain_cost h ns <= as_chain_cost h ws)%Z.
Proof. exact as_astar_optimal. Qed.
Print Assumptions C11_astar_optimal.

(* ---- the proved chain checker that the harness runs on the implementation's outputs *)
Theorem C11_valid_path_sound :
  forall joined start goal ns es,
    as_valid_path joined start goal ns es = true ->
    hd_error ns = Some goal /\ last ns goal = start /\ S (length es) = length ns /\ NoDup ns /\
    forall i, (i < length es)%nat -> joined (nth i es 0%nat) (nth i ns 0%nat) (nth (S i) ns 0%nat) = true.
Proof. exact as_valid_path_sound. Qed.
Print Assumptions C11_valid_path_sound.

(* ---- clause "flipping the bonds on a plaquette path changes exactly the fluxes of its two end plaquettes".
   Flux of p = product over its (edge, direction) entries of f(u_e, d) for any f odd in u (both flux conventions
   of flux_finder.py are instances); hypothesis Hwf: a plaquette contains an edge exactly as often as
   edges.adjacent_plaquettes lists it as a side of that edge; the chain is valid and simple w.r.t. that table.
   Then the flux of q is multiplied by (-1)^([q = goal] + [q = start]). *)
Theorem C11_path_flip_two_ends :
  forall (f : Z -> Z -> Z), (forall x d, f (- x)%Z d = (- f x d)%Z) ->
  forall (P : list fs_plaq) (ep : list (option nat * option nat)),
    (forall e q, (e < length ep)%nat -> (q < length P)%nat -> fs_count_edge (nth q P []) e = fs_sides ep e q) ->
    forall start goal ns es u q,
      as_valid_path (as_joined ep) start goal ns es = true -> (q < length P)%nat ->
      fs_gprod f (fs_neg_set es u) (nth q P [])
      = (fs_sgn (fs_b2n (goal =? q)%nat + fs_b2n (start =? q)%nat) * fs_gprod f u (nth q P []))%Z.
Proof. exact fs_path_flip_two_ends. Qed.
Print Assumptions C11_path_flip_two_ends.

(* the same for fluxes_from_ujk, spelled out: start <> goal: the two ends change sign, nothing else changes *)
Theorem C11_path_flip_two_ends_ujk :
  forall (P : list fs_plaq) (ep : list (option nat * option nat)),
    (forall e q, (e < length ep)%nat -> (q < length P)%nat -> fs_count_edge (nth q P []) e = fs_sides ep e q) ->
    forall start goal ns es u q,
      as_valid_path (as_joined ep) start goal ns es = true -> (q < length P)%nat -> start <> goal ->
      fs_flux_ujk (fs_neg_set es u) (nth q P [])
      = (if (q =? start)%nat || (q =? goal)%nat then - fs_flux_ujk u (nth q P []) else fs_flux_ujk u (nth q P []))%Z.
Proof. exact fs_path_flip_two_ends_ujk. Qed.
Print Assumptions C11_path_flip_two_ends_ujk.

(* ---- clause "the two offered metrics are ... (symmetric, non-negative, zero only for coincident points,
   never longer than the Euclidean one)".  Squared distances over Q; sqrt is monotone and outside the model. *)
Theorem C11_euclid_sym : forall a b, mt_euclid_sq a b == mt_euclid_sq b a.
Proof. exact mt_euclid_sym. Qed.
Print Assumptions C11_euclid_sym.
Theorem C11_euclid_nonneg : forall a b, 0 <= mt_euclid_sq a b.
Proof. exact mt_euclid_nonneg. Qed.
Print Assumptions C11_euclid_nonneg.
Theorem C11_euclid_zero_iff : forall a b, mt_euclid_sq a b == 0 <-> (fst a == fst b /\ snd a == snd b).
Proof. exact mt_euclid_zero_iff. Qed.
Print Assumptions C11_euclid_zero_iff.
(* triangle inequality sqrt z <= sqrt x + sqrt y in squared form *)
Theorem C11_euclid_triangle : forall a b c,
  let x := mt_euclid_sq a b in let y := mt_euclid_sq b c in let z := mt_euclid_sq a c in
  z <= x + y \/ (z - x - y) * (z - x - y) <= 4 * x * y.
Proof. exact mt_euclid_triangle_sq. Qed.
Print Assumptions C11_euclid_triangle.

(* the periodic metric AS CODED (pathfinding.py:79-85, after fix bc5f751) *)
Theorem C11_periodic_sym : forall a b, mt_periodic_sq a b == mt_periodic_sq b a.
Proof. exact mt_periodic_sym. Qed.
Print Assumptions C11_periodic_sym.
Theorem C11_periodic_nonneg : forall a b, 0 <= mt_periodic_sq a b.
Proof. exact mt_periodic_nonneg. Qed.
Print Assumptions C11_periodic_nonneg.
Theorem C11_periodic_zero_iff : forall a b, mt_in_unit a -> mt_in_unit b ->
  (mt_periodic_sq a b == 0 <-> (fst a == fst b /\ snd a == snd b)).
Proof. exact mt_periodic_zero_iff. Qed.
Print Assumptions C11_periodic_zero_iff.
Theorem C11_periodic_le_euclid : forall a b, mt_periodic_sq a b <= mt_euclid_sq a b.
Proof. exact mt_periodic_le_euclid. Qed.
Print Assumptions C11_periodic_le_euclid.
(* "minimum-image": per coordinate no integer shift of b gives a shorter difference (points in [0,1)) *)
Theorem C11_periodic_min_image : forall x y (k : Z), 0 <= x -> x < 1 -> 0 <= y -> y < 1 ->
  mt_wrap (x - y) * mt_wrap (x - y) <= (x - y + inject_Z k) * (x - y + inject_Z k).
Proof. exact mt_wrap_sq_min_image. Qed.
Print Assumptions C11_periodic_min_image.
(* ...and the minimum is attained: the coded periodic distance of two points of the unit cell EQUALS the plain distance
   to one of the nine nearest integer translates, and is a lower bound of the distance to every translate; hence it is
   the distance on the torus.  Consequence: never more than half the cell diagonal. *)
Theorem C11_periodic_le_every_image : forall a b (k1 k2 : Z), mt_in_unit a -> mt_in_unit b ->
  mt_periodic_sq a b <= mt_euclid_sq a (mt_shift b k1 k2).
Proof. exact mt_periodic_le_image. Qed.
Print Assumptions C11_periodic_le_every_image.
Theorem C11_periodic_image_attained : forall a b, mt_in_unit a -> mt_in_unit b ->
  exists k1 k2 : Z, (-1 <= k1 <= 1)%Z /\ (-1 <= k2 <= 1)%Z /\
    mt_periodic_sq a b == mt_euclid_sq a (mt_shift b k1 k2).
Proof. exact mt_periodic_image_attained. Qed.
Print Assumptions C11_periodic_image_attained.
Theorem C11_periodic_le_half : forall a b, mt_in_unit a -> mt_in_unit b -> mt_periodic_sq a b <= 1 # 2.
Proof. exact mt_periodic_le_half. Qed.
Print Assumptions C11_periodic_le_half.
(* triangle inequality sqrt z <= sqrt x + sqrt y of the coded periodic metric on the unit cell, squared form *)
Theorem C11_periodic_triangle : forall a b c, mt_in_unit a -> mt_in_unit b -> mt_in_unit c ->
  let x := mt_periodic_sq a b in let y := mt_periodic_sq b c in let z := mt_periodic_sq a c in
  z <= x + y \/ (z - x - y) * (z - x - y) <= 4 * x * y.
Proof. exact mt_periodic_triangle_sq. Qed.
Print Assumptions C11_periodic_triangle.

(* ---- clause "always found when the iteration budget is at least the number of edges (the budget the flux solver uses)"
   (astar_budget), BOTH stopping modes, for the loop after fix 475bcae (maxits bounds the number of expanded nodes; popping
   the goal is free).  Graph hypotheses: edge ids below E, an edge id has one unordered pair of ends, the goal is reachable
   from start (a walk exists); cost hypotheses as for C11_astar_optimal.  Then for every budget maxits >= E the search
   returns a path (no PathFindingError), and it is a valid simple chain.
   (Accounting: every queue entry but the first is paid for by a distinct edge; when E nodes have been expanded and the queue
   is not empty, every edge has paid, hence the goal has an entry and it is the only one left.)
   Before the fix the full-search instance was FALSE (path graph 0 - 1 - 2: third pop needed with E = 2): finding F2. *)
Theorem C11_astar_budget :
  forall (adj : nat -> list (nat * nat)) (h : nat -> nat -> Z) (start goal E : nat) (early : bool),
    (forall a b e, In (b, e) (adj a) -> (0 <= h a b)%Z /\ (a <> b -> (0 < h a b)%Z)) ->
    (forall a b e, In (b, e) (adj a) -> (h a goal <= h a b + h b goal)%Z) ->
    (forall n, (0 <= h n goal)%Z) ->
    goal <> start ->
    (forall a b e, In (b, e) (adj a) -> (e < E)%nat) ->
    (forall a b e a' b', In (b, e) (adj a) -> In (b', e) (adj a') -> (a = a' /\ b = b') \/ (a = b' /\ b = a')) ->
    (exists ws es, as_chain adj ws es /\ hd_error ws = Some goal /\ last ws goal = start) ->
    forall maxits, (E <= maxits)%nat ->
      exists ns es mg, as_path adj h start goal early maxits = AS_Path ns es mg /\ as_valid_chain adj start goal ns es.
Proof. exact as_path_budget. Qed.
Print Assumptions C11_astar_budget.

(* the full-search instance, spelled out (replaces C11_budget_n_edges_full_search_refuted of the previous loop) *)
Theorem C11_astar_budget_full :
  forall (adj : nat -> list (nat * nat)) (h : nat -> nat -> Z) (start goal E : nat),
    (forall a b e, In (b, e) (adj a) -> (0 <= h a b)%Z /\ (a <> b -> (0 < h a b)%Z)) ->
    (forall a b e, In (b, e) (adj a) -> (h a goal <= h a b + h b goal)%Z) ->
    (forall n, (0 <= h n goal)%Z) ->
    goal <> start ->
    (forall a b e, In (b, e) (adj a) -> (e < E)%nat) ->
    (forall a b e a' b', In (b, e) (adj a) -> In (b', e) (adj a') -> (a = a' /\ b = b') \/ (a = b' /\ b = a')) ->
    (exists ws es, as_chain adj ws es /\ hd_error ws = Some goal /\ last ws goal = start) ->
    forall maxits, (E <= maxits)%nat ->
      exists ns es mg, as_path adj h start goal false maxits = AS_Path ns es mg /\ as_valid_chain adj start goal ns es.
Proof. exact (fun adj h start goal E => as_path_budget adj h start goal E false). Qed.
Print Assumptions C11_astar_budget_full.

(* the budget is tight: on the path graph 0 - 1 - 2 (E = 2) one expansion less is not enough *)
Theorem C11_budget_tight :
  exists (adj : nat -> list (nat * nat)) (h : nat -> nat -> Z),
    adj = (fun n => match n with 0 => [(1, 0)] | 1 => [(0, 0); (2, 1)] | 2 => [(1, 1)] | _ => [] end)%nat /\
    (forall a b e, In (b, e) (adj a) -> (0 <= h a b)%Z /\ (a <> b -> (0 < h a b)%Z)) /\
    (exists m, as_path adj h 0 2 false 1 = AS_PathFindingError m) /\
    (exists m, as_path adj h 0 2 false 2 = AS_Path [2; 1; 0]%nat [1; 0]%nat m) /\
    (exists m, as_path adj h 0 2 true 1 = AS_PathFindingError m) /\
    (exists m, as_path adj h 0 2 true 2 = AS_Path [2; 1; 0]%nat [1; 0]%nat m).
Proof. exact as_budget_tight. Qed.
Print Assumptions C11_budget_tight.

(* ---- non-vacuity: the hypotheses are satisfiable on concrete instances *)
Example C11_path_nonvacuous :
  let adj := (fun n => match n with
                       | 0 => [(1, 0); (2, 2)] | 1 => [(0, 0); (2, 1); (3, 3)]
                       | 2 => [(1, 1); (0, 2); (3, 4)] | 3 => [(1, 3); (2, 4)] | _ => [] end)%nat in
  let h := (fun a b => if (a =? b)%nat then 0 else 3 + Z.of_nat (a + b))%Z in
  (forall a b e, In (b, e) (adj a) -> (0 <= h a b)%Z /\ (a <> b -> (0 < h a b)%Z)) /\
  as_path adj h 0 3 false 5 = AS_Path [3; 1; 0]%nat [3; 0]%nat (Some 2%Z) /\
  as_path adj h 0 3 true 5 = AS_Path [3; 1; 0]%nat [3; 0]%nat (Some 2%Z).
Proof. exact as_path_example. Qed.

Example C11_budget_nonvacuous :
  let adj := (fun n => match n with 0 => [(1, 0)] | 1 => [(0, 0); (2, 1)] | 2 => [(1, 1)] | _ => [] end)%nat in
  let h := (fun a b : nat => Z.abs (Z.of_nat a - Z.of_nat b)) in
  (forall a b e, In (b, e) (adj a) -> (0 <= h a b)%Z /\ (a <> b -> (0 < h a b)%Z)) /\
  (forall a b e, In (b, e) (adj a) -> (h a 2%nat <= h a b + h b 2%nat)%Z) /\
  (forall n, (0 <= h n 2%nat)%Z) /\
  (forall a b e, In (b, e) (adj a) -> (e < 2)%nat) /\
  (forall a b e a' b', In (b, e) (adj a) -> In (b', e) (adj a') -> (a = a' /\ b = b') \/ (a = b' /\ b = a')) /\
  (exists ws es, as_chain adj ws es /\ hd_error ws = Some 2%nat /\ last ws 2%nat = 0%nat).
Proof. exact as_budget_example. Qed.

Example C11_optimal_nonvacuous :
  let adj := (fun n => match n with
                       | 0 => [(1, 0); (2, 2)] | 1 => [(0, 0); (2, 1); (3, 3)]
                       | 2 => [(1, 1); (0, 2); (3, 4)] | 3 => [(1, 3); (2, 4)] | _ => [] end)%nat in
  let h := (fun a b => if (a =? b)%nat then 0 else 3 + Z.of_nat (a + b))%Z in
  (forall a b e, In (b, e) (adj a) -> (0 <= h a b)%Z /\ (a <> b -> (0 < h a b)%Z)) /\
  h 3%nat 3%nat = 0%Z /\
  (forall a b e, In (b, e) (adj a) -> (h a 3%nat <= h a b + h b 3%nat)%Z) /\
  (forall n, (0 <= h n 3%nat)%Z).
Proof. exact as_optimal_example. Qed.

(* two triangles sharing edge 2: plaquette 0 = edges 0,1,2; plaquette 1 = edges 2,3,4 *)
Example C11_flip_nonvacuous :
  let P := [[(0%nat, 1%Z); (1%nat, 1%Z); (2%nat, 1%Z)]; [(2%nat, (-1)%Z); (3%nat, 1%Z); (4%nat, 1%Z)]] in
  let ep := [(Some 0, None); (Some 0, None); (Some 0, Some 1); (Some 1, None); (Some 1, None)]%nat in
  (forall e q, (e < length ep)%nat -> (q < length P)%nat -> fs_count_edge (nth q P []) e = fs_sides ep e q) /\
  as_valid_path (as_joined ep) 0 1 [1; 0]%nat [2]%nat = true.
Proof. exact fs_flip_example. Qed.
