(* Props/C14.v — spanning-tree enumeration visits every reachable flux sector exactly once.
   Model: coq/Model/SpanTree.v (graph_utils.plaquette_spanning_tree, flux_finder.n_to_ujk_flipped)
   on the incidence tables ep = edges.adjacent_plaquettes (None = INVALID) and
   pes = [p.edges for p in plaquettes]; fluxes from coq/Model/Flux.v.  Proofs: Proofs/SpanTreeFacts.v,
   SpanTreeComplete.v (loop invariant), SpanTreeLattice.v (tables of the lattice model, via C01/C02 lemmas).

   [order] is the candidate-order oracle: with shortest_edges_only the float distances only decide
   in which order the boundary edges are scanned; the theorems hold for EVERY order function (no
   hypothesis on it at all), except C14_tree_complete / C14_model_end_to_end which ask that it
   scans every boundary edge (true of the identity, of any sort, of the replay oracle) — hence
   "with or without the shortest-edge preference".

   NOT covered by a theorem (S/K only, harness/c14.py):
   * "does not modify its input": value semantics in Gallina; checked on the implementation.
   (Both clauses formerly listed here are now PROVED at the end of this file: "without a cycle" —
   C14_tree_acyclic, no non-trivial closed walk with pairwise distinct tree edges — and "precisely all
   sectors compatible with the global parity constraint" — C14_sectors_all_parity_compatible, by
   C14_sectors_distinct + C05's global parity + the count 2^(F-1) of parity-compatible sectors.) *)
From Coq Require Import List ZArith Bool Arith.
From Koala Require Import Model.Lattice Model.Flux Model.SpanTree Proofs.LatticeFacts Proofs.FluxFacts
  Proofs.SpanTreeFacts Proofs.SpanTreeComplete Proofs.SpanTreeLattice.
Import ListNotations.
Open Scope Z_scope.

(* clause "the plaquette spanning tree consists of F-1 distinct edges, each with a plaquette on both
   sides, that connect all F plaquettes" — for every order oracle, whenever every iteration found a
   link.  [spanning ep F tree] unfolds to: S (length tree) = F, NoDup tree, every tree edge has two
   plaquettes < F as sides, every plaquette q < F is connected to plaquette 0 through tree edges *)
Theorem C14_tree_spec : forall (order : order_fn) (ep : list ep_row) (pes : list (list nat)) t,
  tables_agree ep pes ->
  plaquette_spanning_tree order ep pes = Some t ->
  length t = (length pes - 1)%nat
  /\ (forall tree, all_some t = Some tree ->
        S (length tree) = length pes /\ NoDup tree
        /\ (forall e, In e tree -> exists a b, two_sided ep e = Some (a, b)
                                               /\ (a < length pes)%nat /\ (b < length pes)%nat)
        /\ (forall q, (q < length pes)%nat -> tconn ep tree 0%nat q)).
Proof. exact tree_spec_lemma. Qed.
Print Assumptions C14_tree_spec.

(* clause "on a lattice whose plaquettes are connected through shared edges ... (with or without the
   shortest-edge preference)": if the tables agree, no plaquette lists an edge twice, the order oracle
   scans every boundary edge (true of the identity, of any sort, of the replay oracle: see
   C14_orders_scan_boundary) and the plaquette graph is connected, then EVERY iteration finds a
   linking edge (no -1 left) and the result is a spanning tree.  Invariant: boundary_edges is
   duplicate-free, consists of edges of inside plaquettes and contains every inside-outside edge *)
Theorem C14_tree_complete : forall (order : order_fn) (ep : list ep_row) (pes : list (list nat)) t,
  tables_agree ep pes ->
  (forall q, (q < length pes)%nat -> NoDup (nth q pes [])) ->
  (forall n b, incl b (order n b)) ->
  (forall q, (q < length pes)%nat -> gconn ep 0%nat q) ->
  plaquette_spanning_tree order ep pes = Some t ->
  exists tree, all_some t = Some tree
    /\ S (length tree) = length pes /\ NoDup tree
    /\ (forall e, In e tree -> exists a b, two_sided ep e = Some (a, b)
                                           /\ (a < length pes)%nat /\ (b < length pes)%nat)
    /\ (forall q, (q < length pes)%nat -> tconn ep tree 0%nat q).
Proof. exact tree_spec_complete. Qed.
Print Assumptions C14_tree_complete.

Theorem C14_orders_scan_boundary :
  (forall n b, incl b (order_id n b))
  /\ (forall keys n b, incl b (order_by_key keys n b))
  /\ (forall choice n b, incl b (order_front choice n b)).
Proof. exact (conj order_id_incl (conj order_by_key_incl order_front_incl)). Qed.
Print Assumptions C14_orders_scan_boundary.

(* the same facts about the links actually found, WITHOUT assuming that every iteration found one
   (and without any hypothesis on the tables): each link is a two-sided edge joining a plaquette
   already in to a new one ([trace_ok]); edges distinct; new plaquettes distinct and different from
   plaquette 0; every plaquette taken in is connected to plaquette 0 by the edges found *)
Theorem C14_tree_links : forall (order : order_fn) (ep : list ep_row) (pes : list (list nat)) tr,
  spanning_trace order ep pes = Some tr ->
  length tr = (length pes - 1)%nat
  /\ trace_ok ep [0%nat] (somes tr)
  /\ NoDup (map fst (somes tr))
  /\ NoDup (0%nat :: map snd (somes tr))
  /\ (forall x, In x (0%nat :: map snd (somes tr)) -> tconn ep (map fst (somes tr)) 0%nat x).
Proof. exact tree_links_lemma. Qed.
Print Assumptions C14_tree_links.

(* the checker run by the harness on the implementation's tree is sound for the same predicate *)
Theorem C14_is_spanning_tree_sound : forall (ep : list ep_row) (F : nat) (tree : list nat),
  is_spanning_tree ep F tree = true ->
  S (length tree) = F /\ NoDup tree
  /\ (forall e, In e tree -> exists a b, two_sided ep e = Some (a, b) /\ (a < F)%nat /\ (b < F)%nat)
  /\ (forall q, (q < F)%nat -> tconn ep tree 0%nat q).
Proof. exact is_spanning_tree_sound. Qed.
Print Assumptions C14_is_spanning_tree_sound.

(* ... and so is the checker of the table hypothesis *)
Theorem C14_ep_agrees_sound : forall (ep : list ep_row) (pes : list (list nat)),
  ep_agrees ep pes = true ->
  (forall e a b, two_sided ep e = Some (a, b) -> (a < length pes)%nat /\ (b < length pes)%nat)
  /\ (forall q e, (q < length pes)%nat -> (In e (nth q pes []) <-> is_side ep e q = true)).
Proof. exact ep_agrees_sound. Qed.
Print Assumptions C14_ep_agrees_sound.

(* clause "setting the tree bonds according to the binary digits of n ... leaves all other bonds
   untouched": for 0 <= n < 2^k the call succeeds, keeps the length, agrees with the input off the
   tree, writes 1 - 2*(digit j of n, most significant first, k digits) on tree edge j, values +-1 *)
Theorem C14_flipped_spec : forall (n : Z) (u : list Z) (tree : list nat),
  NoDup tree -> (forall e, In e tree -> (e < length u)%nat) ->
  0 <= n < 2 ^ Z.of_nat (length tree) ->
  exists r, n_to_ujk_flipped n u tree = Some r
    /\ length r = length u
    /\ (forall e, ~ In e tree -> bond r e = bond u e)
    /\ (forall j, (j < length tree)%nat ->
          bond r (nth j tree 0%nat) = 1 - 2 * b2z (Z.testbit n (Z.of_nat (length tree - 1 - j))))
    /\ (forall e, In e tree -> bond r e = 1 \/ bond r e = -1).
Proof. exact flipped_spec. Qed.
Print Assumptions C14_flipped_spec.

(* the call fails (ValueError) exactly outside 0 <= n < 2^k *)
Theorem C14_flipped_defined : forall (n : Z) (u : list Z) (tree : list nat),
  (exists r, n_to_ujk_flipped n u tree = Some r) <-> 0 <= n < 2 ^ Z.of_nat (length tree).
Proof. exact n_to_ujk_flipped_defined. Qed.
Print Assumptions C14_flipped_defined.

(* clause "produces 2^(F-1) pairwise different flux sectors": for every order oracle, every list of
   plaquettes without repeated edges, tables that agree, a run in which every iteration found a
   link, ANY base bonds that are +-1 on the plaquettes' edges, and n <> m below 2^(F-1), the flux
   sectors differ (leaf elimination: the plaquette added by the last tree edge on which the digits
   of n and m differ contains no other such edge) *)
Theorem C14_sectors_distinct :
  forall (order : order_fn) (ep : list ep_row) (ps : list plaquette) t tree (u : list Z) (n m : Z) rn rm,
  (forall p, In p ps -> length (p_dirs p) = length (p_edges p) /\ NoDup (p_edges p)) ->
  tables_agree ep (map p_edges ps) ->
  plaquette_spanning_tree order ep (map p_edges ps) = Some t -> all_some t = Some tree ->
  (forall p f, In p ps -> In f (p_edges p) -> bond u f = 1 \/ bond u f = -1) ->
  0 <= n < 2 ^ Z.of_nat (length tree) -> 0 <= m < 2 ^ Z.of_nat (length tree) -> n <> m ->
  n_to_ujk_flipped n u tree = Some rn -> n_to_ujk_flipped m u tree = Some rm ->
  fluxes_real rn ps <> fluxes_real rm ps.
Proof. exact sectors_distinct. Qed.
Print Assumptions C14_sectors_distinct.

(* the same with the boolean table check that the harness evaluates on the implementation's tables *)
Theorem C14_sectors_distinct_checked :
  forall (order : order_fn) (ep : list ep_row) (ps : list plaquette) t tree (u : list Z) (n m : Z) rn rm,
  (forall p, In p ps -> length (p_dirs p) = length (p_edges p) /\ NoDup (p_edges p)) ->
  ep_agrees ep (map p_edges ps) = true ->
  plaquette_spanning_tree order ep (map p_edges ps) = Some t -> all_some t = Some tree ->
  (forall p f, In p ps -> In f (p_edges p) -> bond u f = 1 \/ bond u f = -1) ->
  0 <= n < 2 ^ Z.of_nat (length tree) -> 0 <= m < 2 ^ Z.of_nat (length tree) -> n <> m ->
  n_to_ujk_flipped n u tree = Some rn -> n_to_ujk_flipped m u tree = Some rm ->
  fluxes_real rn ps <> fluxes_real rm ps.
Proof. exact sectors_distinct_checked. Qed.
Print Assumptions C14_sectors_distinct_checked.

(* the table hypothesis is a theorem for the tables of the lattice model (C01's plaquettes, C02's
   edges_plaquettes) on every well-formed lattice without self-loops *)
Theorem C14_model_tables_agree : forall (L : lattice) (ps : list plaquette),
  wf_lattice L = true /\ no_self_loops L = true -> find_all_plaquettes L = Some ps ->
  tables_agree (edges_plaquettes L ps) (map p_edges ps).
Proof. exact model_tables_agree. Qed.
Print Assumptions C14_model_tables_agree.

(* the whole property on the model, end to end: for every well-formed lattice without self-loops
   whose plaquette graph is connected and every order oracle that scans all boundary edges, the
   routine returns (no -1) a spanning tree, and for ANY +-1 base bonds the 2^(F-1) values of n give
   pairwise different flux sectors *)
Theorem C14_model_end_to_end : forall (L : lattice) (order : order_fn) (ps : list plaquette) t,
  wf_lattice L = true -> no_self_loops L = true ->
  find_all_plaquettes L = Some ps ->
  (forall n b, incl b (order n b)) ->
  (forall q, (q < length ps)%nat -> gconn (edges_plaquettes L ps) 0%nat q) ->
  spanning_tree_of_lattice order L = Some t ->
  exists tree, all_some t = Some tree
    /\ spanning (edges_plaquettes L ps) (length ps) tree
    /\ (forall u n m rn rm,
          (forall e, (e < nE L)%nat -> bond u e = 1 \/ bond u e = -1) ->
          0 <= n < 2 ^ Z.of_nat (length tree) -> 0 <= m < 2 ^ Z.of_nat (length tree) -> n <> m ->
          n_to_ujk_flipped n u tree = Some rn -> n_to_ujk_flipped m u tree = Some rm ->
          fluxes_real rn ps <> fluxes_real rm ps).
Proof. exact model_spanning_sectors. Qed.
Print Assumptions C14_model_end_to_end.

(* non-vacuity: the 2x2 torus grid (4 plaquettes, 8 edges, closed): the model's tables agree, the
   tree is complete, is accepted by the checker, n = 5 writes the digits 1,0,1 on the tree edges,
   and the 8 sectors are those listed (pairwise different, each with product +1 = (-1)^8) *)
Example C14_hypotheses_nonvacuous :
  exists ps, find_all_plaquettes torus22 = Some ps
    /\ wf_lattice torus22 = true /\ no_self_loops torus22 = true
    /\ ep_agrees (edges_plaquettes torus22 ps) (map p_edges ps) = true
    /\ plaquette_spanning_tree order_id (edges_plaquettes torus22 ps) (map p_edges ps)
       = Some [Some 0%nat; Some 4%nat; Some 1%nat]
    /\ is_spanning_tree (edges_plaquettes torus22 ps) 4 [0; 4; 1]%nat = true
    /\ (forall q, (q < 4)%nat -> gconn (edges_plaquettes torus22 ps) 0%nat q)
    /\ n_to_ujk_flipped 5 torus22_u [0; 4; 1]%nat = Some [-1; -1; 1; 1; 1; 1; 1; 1]
    /\ n_to_ujk_flipped 8 torus22_u [0; 4; 1]%nat = None
    /\ map (fun n => option_map (fun r => fluxes_real r ps) (n_to_ujk_flipped n torus22_u [0; 4; 1]%nat))
           [0; 1; 2; 3; 4; 5; 6; 7]
       = [Some [1; 1; 1; 1]; Some [1; 1; -1; -1]; Some [-1; 1; -1; 1]; Some [-1; 1; 1; -1];
          Some [-1; -1; 1; 1]; Some [-1; -1; -1; -1]; Some [1; -1; -1; 1]; Some [1; -1; 1; -1]].
Proof.
  eexists. split; [vm_compute; reflexivity|]. repeat split; try (vm_compute; reflexivity).
  apply (spanning_connected _ 4%nat [0; 4; 1]%nat). apply is_spanning_tree_sound. vm_compute. reflexivity.
Qed.

(* ====================================================================================================
   Appended: the two clauses listed above as "NOT covered by a theorem" ("without a cycle", "precisely
   all sectors compatible with the global parity constraint") ARE covered by the theorems below
   (Proofs/SpanTreeAcyclic.v, Proofs/SectorCount.v).  Still S/K only: "does not modify its input".
   ==================================================================================================== *)
From Koala Require Import Proofs.FluxLattice Proofs.SpanTreeAcyclic Proofs.SectorCount.

(* clause "connect all F plaquettes WITHOUT A CYCLE".  Definition of cycle (the plaquette graph is a
   multigraph, so through edges): [twalk ep tree x [e1;..;ek] y] is a walk x -e1- .. -ek- y of the
   plaquette graph through tree edges (e_i in tree, two-sided, its two sides are the consecutive
   plaquettes, either direction; same adjacency as [tconn], see C14_walks_are_tconn); a cycle is a
   closed walk of length >= 1 with pairwise distinct edges (length 1: an edge with the same plaquette on
   both sides; length 2: two parallel edges).  For EVERY order oracle, any tables (no hypothesis), the
   returned tree has none; more strongly every non-empty edge-simple walk has two different ends.
   Proof: generic lemma [attached_acyclic] — a graph built by repeatedly attaching a NEW vertex by ONE
   edge to the part already built has no cycle (the vertex attached last is a leaf) — applied to the
   growth invariant of C14_tree_links (edge i joins a plaquette in the tree to one not yet in it) *)
Theorem C14_tree_acyclic : forall (order : order_fn) (ep : list ep_row) (pes : list (list nat)) t tree,
  plaquette_spanning_tree order ep pes = Some t -> all_some t = Some tree ->
  (forall x es y, twalk ep tree x es y -> NoDup es -> es <> [] -> x <> y)
  /\ (forall q es, twalk ep tree q es q -> NoDup es -> es = []).
Proof. exact tree_acyclic_lemma. Qed.
Print Assumptions C14_tree_acyclic.

(* the same for the links actually found when some iteration found none (entries -1 skipped) *)
Theorem C14_tree_links_acyclic : forall (order : order_fn) (ep : list ep_row) (pes : list (list nat)) tr,
  spanning_trace order ep pes = Some tr ->
  (forall x es y, twalk ep (map fst (somes tr)) x es y -> NoDup es -> es <> [] -> x <> y)
  /\ (forall q es, twalk ep (map fst (somes tr)) q es q -> NoDup es -> es = []).
Proof. exact tree_links_acyclic. Qed.
Print Assumptions C14_tree_links_acyclic.

(* the walks of the acyclicity statement are the connections of C14_tree_spec ... *)
Theorem C14_walks_are_tconn : forall (ep : list ep_row) (tree : list nat) (a b : nat),
  tconn ep tree a b <-> exists es, twalk ep tree a es b.
Proof. exact tconn_iff_twalk. Qed.
Print Assumptions C14_walks_are_tconn.

(* ... and the definition of "no cycle" is not vacuous: two different edges of the list with the same
   two plaquettes on their sides are a cycle *)
Theorem C14_parallel_edges_are_a_cycle : forall (ep : list ep_row) (tree : list nat) (e f a b : nat),
  In e tree -> In f tree -> e <> f ->
  (two_sided ep e = Some (a, b) \/ two_sided ep e = Some (b, a)) ->
  (two_sided ep f = Some (a, b) \/ two_sided ep f = Some (b, a)) ->
  ~ (forall q es, twalk ep tree q es q -> NoDup es -> es = []).
Proof. exact parallel_edges_cycle. Qed.
Print Assumptions C14_parallel_edges_are_a_cycle.

(* non-vacuity: on the 2x2 torus (tables computed by the model) the tree [0;4;1] returned by the
   routine has no cycle, while adding edge 2 (parallel to edge 0) or edge 5 (closing the square
   0 -0- 1 -5- 3 -1- 2 -4- 0) creates one *)
Example C14_tree_acyclic_nonvacuous :
  exists ps, find_all_plaquettes torus22 = Some ps
    /\ plaquette_spanning_tree order_id (edges_plaquettes torus22 ps) (map p_edges ps)
       = Some [Some 0%nat; Some 4%nat; Some 1%nat]
    /\ (forall q es, twalk (edges_plaquettes torus22 ps) [0; 4; 1]%nat q es q -> NoDup es -> es = [])
    /\ ~ (forall q es, twalk (edges_plaquettes torus22 ps) [0; 4; 1; 2]%nat q es q -> NoDup es -> es = [])
    /\ twalk (edges_plaquettes torus22 ps) [0; 4; 1; 5]%nat 0%nat [0; 5; 1; 4]%nat 0%nat.
Proof.
  eexists. split; [vm_compute; reflexivity|].
  match goal with |- context [edges_plaquettes torus22 ?p] => set (ps := p) end.
  assert (Ht : plaquette_spanning_tree order_id (edges_plaquettes torus22 ps) (map p_edges ps)
               = Some [Some 0%nat; Some 4%nat; Some 1%nat]) by (vm_compute; reflexivity).
  split; [exact Ht|]. split; [|split].
  - exact (proj2 (C14_tree_acyclic order_id _ _ _ [0; 4; 1]%nat Ht eq_refl)).
  - apply (C14_parallel_edges_are_a_cycle _ _ 0%nat 2%nat 0%nat 1%nat).
    + simpl. auto.
    + simpl. auto.
    + discriminate.
    + left. vm_compute. reflexivity.
    + right. vm_compute. reflexivity.
  - apply (twalk_step _ _ 0%nat 1%nat); [simpl; auto|left; vm_compute; reflexivity|].
    apply (twalk_step _ _ 1%nat 3%nat); [simpl; auto|right; vm_compute; reflexivity|].
    apply (twalk_step _ _ 3%nat 2%nat); [simpl; auto|right; vm_compute; reflexivity|].
    apply (twalk_step _ _ 2%nat 0%nat); [simpl; auto|left; vm_compute; reflexivity|].
    constructor.
Qed.

(* counting step of the last clause: the +-1 vectors of length F >= 1 with prescribed product c are
   exactly 2^(F-1) many — they are enumerated without repetition by a list of that length (bijection
   with the free choice of F-1 entries, the remaining entry being c times their product) *)
Theorem C14_parity_sectors_count : forall (F : nat) (c : Z), (1 <= F)%nat -> c = 1 \/ c = -1 ->
  exists l : list (list Z), NoDup l /\ length l = (2 ^ (F - 1))%nat
    /\ forall s, In s l <-> (length s = F /\ Forall (fun x => x = 1 \/ x = -1) s /\ zprod s = c).
Proof. exact parity_sectors_count. Qed.
Print Assumptions C14_parity_sectors_count.

Example C14_parity_sectors_count_nonvacuous :
  exists l : list (list Z), NoDup l /\ length l = 8%nat
    /\ In [-1; -1; -1; -1] l /\ In [1; -1; 1; -1] l /\ ~ In [1; 1; 1; -1] l /\ ~ In [1; 1; 1] l.
Proof.
  destruct (C14_parity_sectors_count 4 1) as (l & Hnd & Hlen & Hin); [repeat constructor|now left|].
  exists l. split; [exact Hnd|]. split; [exact Hlen|].
  split; [|split; [|split]].
  - apply Hin. split; [reflexivity|]. split; [repeat constructor; now right|reflexivity].
  - apply Hin. split; [reflexivity|]. split; [|reflexivity].
    repeat constructor; (now left) || (now right).
  - intros H. apply Hin in H. destruct H as (_ & _ & H). discriminate.
  - intros H. apply Hin in H. destruct H as (H & _). discriminate.
Qed.

(* clause "on a closed lattice precisely all sectors compatible with the global parity constraint",
   end to end on the model: for every well-formed lattice without self-loops whose plaquette graph is
   connected and which is closed (every directed edge lies on a plaquette, as in C05_global_parity_model),
   every order oracle that scans all boundary edges and ANY +-1 base bonds: a vector s is the flux sector
   of some n < 2^(F-1)  IFF  s is a +-1 vector of length F with product (-1)^E.  "=>" is C05's global
   parity; "<=" is C14_sectors_distinct (2^(F-1) pairwise different sectors) + C14_parity_sectors_count
   + stdlib NoDup_length_incl (a duplicate-free list included in a list of the same length contains it) *)
Theorem C14_sectors_all_parity_compatible : forall (L : lattice) (order : order_fn) (ps : list plaquette) t,
  wf_lattice L = true -> no_self_loops L = true ->
  find_all_plaquettes L = Some ps ->
  (forall n b, incl b (order n b)) ->
  (forall q, (q < length ps)%nat -> gconn (edges_plaquettes L ps) 0%nat q) ->
  (forall d, In d (all_darts L) -> In d (flat_map plaq_darts ps)) ->
  spanning_tree_of_lattice order L = Some t ->
  exists tree, all_some t = Some tree /\ S (length tree) = length ps
    /\ forall u, (forall e, (e < nE L)%nat -> bond u e = 1 \/ bond u e = -1) ->
       forall s,
         (length s = length ps /\ Forall (fun x => x = 1 \/ x = -1) s /\ zprod s = (-1) ^ Z.of_nat (nE L))
         <-> (exists n r, 0 <= n < 2 ^ Z.of_nat (length tree) /\ n_to_ujk_flipped n u tree = Some r
                          /\ fluxes_real r ps = s).
Proof. exact model_sectors_all_parity. Qed.
Print Assumptions C14_sectors_all_parity_compatible.

(* the same on given tables (the implementation's), with the boolean tests the harness evaluates:
   ep_agrees (tables agree), darts_cover (closed: the plaquettes' directed edges are the directed edges
   of L, each once); no connectivity hypothesis, but the run must have found a link in every iteration *)
Theorem C14_sectors_all_parity_compatible_checked :
  forall (L : lattice) (order : order_fn) (ep : list ep_row) (ps : list plaquette) t tree (u : list Z),
  (forall p, In p ps -> length (p_dirs p) = length (p_edges p) /\ NoDup (p_edges p)) ->
  ep_agrees ep (map p_edges ps) = true -> darts_cover L ps = true ->
  plaquette_spanning_tree order ep (map p_edges ps) = Some t -> all_some t = Some tree ->
  (forall e, (e < nE L)%nat -> bond u e = 1 \/ bond u e = -1) ->
  S (length tree) = length ps
  /\ forall s,
    (length s = length ps /\ Forall (fun x => x = 1 \/ x = -1) s /\ zprod s = (-1) ^ Z.of_nat (nE L))
    <-> (exists n r, 0 <= n < 2 ^ Z.of_nat (length tree) /\ n_to_ujk_flipped n u tree = Some r
                     /\ fluxes_real r ps = s).
Proof. exact sectors_all_parity_checked. Qed.
Print Assumptions C14_sectors_all_parity_compatible_checked.

(* non-vacuity: the 2x2 torus (F = 4, E = 8, closed, connected) satisfies every hypothesis; by the
   theorem the even sector [-1;-1;-1;-1] (product +1 = (-1)^8) is reached by some n < 8 and the odd
   sector [1;1;1;-1] by none *)
Example C14_sectors_all_parity_compatible_nonvacuous :
  exists ps, find_all_plaquettes torus22 = Some ps
    /\ wf_lattice torus22 = true /\ no_self_loops torus22 = true
    /\ length ps = 4%nat /\ nE torus22 = 8%nat
    /\ darts_cover torus22 ps = true
    /\ (forall q, (q < length ps)%nat -> gconn (edges_plaquettes torus22 ps) 0%nat q)
    /\ spanning_tree_of_lattice order_id torus22 = Some [Some 0%nat; Some 4%nat; Some 1%nat]
    /\ (exists n r, 0 <= n < 8 /\ n_to_ujk_flipped n torus22_u [0; 4; 1]%nat = Some r
                    /\ fluxes_real r ps = [-1; -1; -1; -1])
    /\ ~ (exists n r, 0 <= n < 8 /\ n_to_ujk_flipped n torus22_u [0; 4; 1]%nat = Some r
                      /\ fluxes_real r ps = [1; 1; 1; -1]).
Proof.
  eexists. split; [vm_compute; reflexivity|].
  match goal with |- context [darts_cover torus22 ?p] => set (ps := p) end.
  assert (Hf : find_all_plaquettes torus22 = Some ps) by (vm_compute; reflexivity).
  assert (Hwf : wf_lattice torus22 = true) by (vm_compute; reflexivity).
  assert (Hnl : no_self_loops torus22 = true) by (vm_compute; reflexivity).
  assert (Hcov : darts_cover torus22 ps = true) by (vm_compute; reflexivity).
  assert (Hconn : forall q, (q < length ps)%nat -> gconn (edges_plaquettes torus22 ps) 0%nat q).
  { apply (spanning_connected _ 4%nat [0; 4; 1]%nat). apply is_spanning_tree_sound. vm_compute. reflexivity. }
  assert (Ht : spanning_tree_of_lattice order_id torus22 = Some [Some 0%nat; Some 4%nat; Some 1%nat])
    by (vm_compute; reflexivity).
  assert (Hclosed : forall d, In d (all_darts torus22) -> In d (flat_map plaq_darts ps)).
  { intros d Hd. apply (Permutation.Permutation_in d (Permutation.Permutation_sym (darts_cover_sound _ _ Hcov)) Hd). }
  destruct (C14_sectors_all_parity_compatible torus22 order_id ps _ Hwf Hnl Hf order_id_incl Hconn Hclosed Ht)
    as (tree & Hall & _ & Hiff).
  vm_compute in Hall. inversion Hall; subst tree.
  assert (Hu : forall e, (e < nE torus22)%nat -> bond torus22_u e = 1 \/ bond torus22_u e = -1).
  { intros e He. apply all_pm1_bond; [vm_compute; reflexivity|exact He]. }
  specialize (Hiff torus22_u Hu).
  repeat split; try assumption; try reflexivity.
  - apply Hiff. split; [reflexivity|]. split; [repeat constructor; now right|reflexivity].
  - intros H. apply Hiff in H. destruct H as (_ & _ & H). vm_compute in H. discriminate.
Qed.
