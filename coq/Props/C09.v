From Coq Require Import List ZArith Bool Arith QArith.
From Koala Require Import Model.Pickle Gen.PickleGen Proofs.PickleFacts.
Import ListNotations.
Open Scope Z_scope.

(* clause "a lattice restored from the legacy dictionary-style state is [the dict's lattice]" *)
Theorem C09_legacy_dict_state : forall L, setstate (DictState L) = L.
Proof. exact setstate_dict. Qed.
Print Assumptions C09_legacy_dict_state.
