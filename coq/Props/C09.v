(* Props/C09.v — pickling round-trips a lattice to an observationally equivalent lattice;
   equality is total, reflexive, symmetric and sensitive.  Theorems about the model
   coq/Model/Pickle.v of Lattice.__getstate__/__setstate__/__eq__/__ne__ (lattice.py:222-269).

   NOT covered by a theorem (S/K in harness/c09.py only): "same results under every other koala operation"
   when the float32 rounding moves a position (C09_roundtrip_exact_on_float32 covers lattices whose positions
   are float32 numbers).  "Identical plaquettes and adjacency tables" is PROVED at the end of this file under
   the evaluated hypothesis that the rounding flips none of the geometric predicates the code branches on
   (C09_roundtrip_tables; the hypothesis is necessary: C09_roundtrip_tables_needs_preds); pickle's own transport of the state for protocols 2..5; NaN / inf positions;
   "constructing the same lattice twice yields the same plaquette order" (trivial for a function). *)
From Coq Require Import List ZArith Bool Arith QArith Qabs.
From Koala Require Import Model.Pickle Gen.PickleGen Proofs.PickleFacts.
Import ListNotations.
Open Scope Z_scope.

(* ---------- the round trip -------------------------------------------------------------- *)

(* clause "pickling and unpickling yields a lattice with identical edges and crossings (positions to single
   precision)": for every lattice with fewer than 2^64 vertices, int64-representable indices, crossings in
   [-128,127] and positions inside the float32 range, setstate (getstate L) exists, has the same index and
   crossing VALUES (in int64 again), positions = the float32 rounding, and nothing cached. *)
Theorem C09_roundtrip_values : forall L,
  wf_lat L = true ->
  n_vertices L <= dt_max U64 ->
  forallb (in_range2 I64) (l_idx L) = true ->
  forallb (in_range2 I8) (l_cross L) = true ->
  existsb overflows2 (l_pos L) = false ->
  exists R, roundtrip L = Some R /\
    l_idx R = l_idx L /\ l_cross R = l_cross L /\ l_pos R = map round32_2 (l_pos L) /\
    l_pos_dt R = F32 /\ l_idx_dt R = I64 /\ l_cross_dt R = I64 /\ l_cache R = fresh_cache.
Proof. exact roundtrip_values_spec. Qed.
Print Assumptions C09_roundtrip_values.

(* the hypotheses above are exactly the conditions under which pickling succeeds: it fails only for > 2^64 - 1
   vertices (ValueError), a crossing outside int8 (AssertionError — never a silent wrap) or a position that
   overflows float32 *)
Theorem C09_roundtrip_fails_only_when : forall L,
  roundtrip L = None <->
  (dt_max U64 < n_vertices L \/ forallb (in_range2 I8) (l_cross L) = false \/ existsb overflows2 (l_pos L) = true).
Proof. exact roundtrip_none_iff. Qed.
Print Assumptions C09_roundtrip_fails_only_when.

Theorem C09_getstate_refuses_wide_crossing : forall L,
  n_vertices L <= dt_max U64 -> forallb (in_range2 I8) (l_cross L) = false -> getstate L = GSCrossingRange.
Proof. exact getstate_crossing_range. Qed.
Print Assumptions C09_getstate_refuses_wide_crossing.

(* clause "at any point of its life, before or after plaquettes and adjacency were computed": the pickled
   state does not depend on which cached attributes are populated *)
Theorem C09_getstate_cache_independent : forall c L, getstate (with_cache c L) = getstate L.
Proof. exact getstate_cache_independent. Qed.
Print Assumptions C09_getstate_cache_independent.

(* quantifier "crossing the 8/16/32-bit index thresholds at 255/256 and 65535/65536": the index dtype *)
Theorem C09_index_dtype_thresholds : forall n,
  select_index_dtype n =
    if n <=? 255 then Some U8 else if n <=? 65535 then Some U16
    else if n <=? 4294967295 then Some U32 else if n <=? 18446744073709551615 then Some U64 else None.
Proof. exact select_index_dtype_thresholds. Qed.
Print Assumptions C09_index_dtype_thresholds.

(* the dtype loop, the check_fits test and the cast dtypes of the model are the ones translated from
   today's source by translate/pickle_dtype.py *)
Theorem C09_dtype_rule_is_source :
  gen_index_dtype_candidates = index_dtype_candidates /\
  (forall n d, gen_fits n d = fits n d) /\
  (forall e mn mx d, gen_check_fits e mn mx d = (e || check_fits_test mn mx d)) /\
  gen_position_dtype = F32 /\ gen_crossing_dtype = crossing_dtype /\
  gen_restored_index_dtype = I64 /\ gen_restored_crossing_dtype = I64.
Proof. exact (conj gen_candidates_eq (conj gen_fits_eq (conj gen_check_fits_eq gen_dtypes_eq))). Qed.
Print Assumptions C09_dtype_rule_is_source.

(* "positions to single precision": the stored position is within half a unit in the last place, i.e. a
   relative error of at most 2^-24 for |x| >= 2^-126, and an absolute error of at most 2^-23 for |x| <= 2 *)
Theorem C09_float32_relative_error : forall x : Q,
  (Qpow2 (-126) <= Qabs x)%Q -> (Qabs (round32 x - x) <= Qpow2 (-24) * Qabs x)%Q.
Proof. exact round32_rel_err. Qed.
Print Assumptions C09_float32_relative_error.

Theorem C09_float32_error_le2 : forall x : Q,
  (Qabs x <= 2)%Q -> (Qabs (round32 x - x) <= Qpow2 (-23))%Q.
Proof. exact round32_err_le2. Qed.
Print Assumptions C09_float32_error_le2.

(* clause "yields a lattice that compares equal": for positions in [-1,2]^2 and 20000 * V <= 2^46
   (V <= 3 518 437 208; the arithmetic condition 2 * (2^-23)^2 <= (1/(100 sqrt V))^2), both ways, and != is False *)
Theorem C09_roundtrip_eq : forall L R,
  wf_lat L = true ->
  20000 * n_vertices L <= 2 ^ 46 ->
  (forall p, In p (l_pos L) -> (-1 <= fst p <= 2)%Q /\ (-1 <= snd p <= 2)%Q) ->
  roundtrip L = Some R ->
  lat_eq L R = Some true /\ lat_eq R L = Some true /\
  py_ne L (PyLattice R) = Some false /\ py_ne R (PyLattice L) = Some false.
Proof. exact roundtrip_eq_spec. Qed.
Print Assumptions C09_roundtrip_eq.

(* the same for every box [-2^k, 2^k]^2, k >= 0, under 20000 * V * 4^k <= 2^48 *)
Theorem C09_roundtrip_eq_pow2 : forall L R k,
  wf_lat L = true -> 0 <= k ->
  20000 * n_vertices L * 4 ^ k <= 2 ^ 48 ->
  (forall p, In p (l_pos L) -> (Qabs (fst p) <= Qpow2 k)%Q /\ (Qabs (snd p) <= Qpow2 k)%Q) ->
  roundtrip L = Some R ->
  lat_eq L R = Some true /\ lat_eq R L = Some true.
Proof. exact roundtrip_eq_pow2. Qed.
Print Assumptions C09_roundtrip_eq_pow2.

(* the rounding is the identity on float32 numbers: every m * 2^e with |m| < 2^24, e >= -149 *)
Theorem C09_float32_numbers_fixed : forall m e : Z, Z.abs m < 2 ^ 24 -> -149 <= e ->
  (round32 (inject_Z m * Qpow2 e) == inject_Z m * Qpow2 e)%Q.
Proof. exact round32_fixed. Qed.
Print Assumptions C09_float32_numbers_fixed.

(* clause "same results under every other operation", the part a theorem can reach: if the positions are
   float32 numbers already, the restored arrays are numerically the original arrays (so every function of
   them agrees) *)
Theorem C09_roundtrip_exact_on_float32 : forall L R,
  wf_lat L = true -> n_vertices L <= dt_max I64 -> roundtrip L = Some R ->
  (forall p, In p (l_pos L) -> qpair_eq (round32_2 p) p) ->
  Forall2 qpair_eq (l_pos R) (l_pos L) /\ l_idx R = l_idx L /\ l_cross R = l_cross L.
Proof. exact roundtrip_exact_on_float32_spec. Qed.
Print Assumptions C09_roundtrip_exact_on_float32.

(* ---------- legacy dict state ------------------------------------------------------------ *)

(* clause "a lattice restored from the legacy dictionary-style state is likewise equal to its original" *)
Theorem C09_legacy_dict_state : forall L, setstate (DictState L) = L.
Proof. exact setstate_dict. Qed.
Print Assumptions C09_legacy_dict_state.

Theorem C09_legacy_dict_state_eq : forall L, length (l_cross L) = length (l_idx L) ->
  lat_eq L (setstate (DictState L)) = Some true /\ lat_eq (setstate (DictState L)) L = Some true.
Proof. exact legacy_dict_eq. Qed.
Print Assumptions C09_legacy_dict_state_eq.

(* ---------- equality ---------------------------------------------------------------------- *)

(* clause "equality is total (returns a boolean, never raises, for lattices of any two sizes and for
   non-lattices)"; None models a raised exception.  The only requirement is one crossing row per edge. *)
Theorem C09_eq_total : forall A o,
  length (l_cross A) = length (l_idx A) ->
  (forall B, o = PyLattice B -> length (l_cross B) = length (l_idx B)) ->
  exists b, py_eq A o = Some b /\ py_ne A o = Some (negb b).
Proof. exact py_eq_total. Qed.
Print Assumptions C09_eq_total.

Theorem C09_eq_nonlattice : forall A, py_eq A PyOther = Some false /\ py_ne A PyOther = Some true.
Proof. exact py_eq_other. Qed.
Print Assumptions C09_eq_nonlattice.

(* what fix 8051f8a repaired: the same comparison without the shape test raises on different sizes *)
Theorem C09_eq_without_shape_test_total_refuted :
  exists A B, wf_lat A = true /\ wf_lat B = true /\ lat_eq_noshape A B = None.
Proof. exact lat_eq_noshape_total_refuted. Qed.
Print Assumptions C09_eq_without_shape_test_total_refuted.

(* clause "reflexive" *)
Theorem C09_eq_refl : forall A, length (l_cross A) = length (l_idx A) -> lat_eq A A = Some true.
Proof. exact lat_eq_refl. Qed.
Print Assumptions C09_eq_refl.

(* clause "symmetric": unconditionally, including the raising cases *)
Theorem C09_eq_sym : forall A B, py_eq A (PyLattice B) = py_eq B (PyLattice A).
Proof. exact py_eq_sym. Qed.
Print Assumptions C09_eq_sym.

(* clause "detects any changed edge, crossing or vertex displaced by more than a hundredth of the mean
   spacing": exact characterisation.  [within nv a b] is |a - b|^2 * 10000 * nv <= 1, i.e.
   |a - b| <= (1 / sqrt nv) / 100 in Euclidean norm. *)
Theorem C09_eq_true_iff : forall A B,
  length (l_cross A) = length (l_idx A) -> length (l_cross B) = length (l_idx B) ->
  (lat_eq A B = Some true <->
   length (l_pos A) = length (l_pos B) /\ l_idx A = l_idx B /\ l_cross A = l_cross B /\
   Forall2 (within (n_vertices A)) (l_pos A) (l_pos B)).
Proof. exact lat_eq_true_iff. Qed.
Print Assumptions C09_eq_true_iff.

Theorem C09_eq_detects_edge : forall A B,
  length (l_cross A) = length (l_idx A) -> length (l_cross B) = length (l_idx B) ->
  l_idx A <> l_idx B -> lat_eq A B = Some false.
Proof. exact lat_eq_detects_edge. Qed.
Print Assumptions C09_eq_detects_edge.

Theorem C09_eq_detects_crossing : forall A B,
  length (l_cross A) = length (l_idx A) -> length (l_cross B) = length (l_idx B) ->
  l_cross A <> l_cross B -> lat_eq A B = Some false.
Proof. exact lat_eq_detects_crossing. Qed.
Print Assumptions C09_eq_detects_crossing.

Theorem C09_eq_detects_size : forall A B,
  length (l_cross A) = length (l_idx A) -> length (l_cross B) = length (l_idx B) ->
  (length (l_pos A) <> length (l_pos B) \/ length (l_idx A) <> length (l_idx B)) -> lat_eq A B = Some false.
Proof. exact lat_eq_detects_size. Qed.
Print Assumptions C09_eq_detects_size.

(* any vertex i displaced by MORE than (1/sqrt V)/100 (Euclidean) makes the lattices unequal ... *)
Theorem C09_eq_detects_displacement : forall A B i,
  length (l_cross A) = length (l_idx A) -> length (l_cross B) = length (l_idx B) ->
  (i < length (l_pos A))%nat -> (i < length (l_pos B))%nat ->
  ~ within (n_vertices A) (nth i (l_pos A) (0, 0)%Q) (nth i (l_pos B) (0, 0)%Q) ->
  lat_eq A B = Some false.
Proof. exact lat_eq_detects_displacement. Qed.
Print Assumptions C09_eq_detects_displacement.

(* ... and that threshold is exact: with the same edges and crossings and every vertex within it, equal *)
Theorem C09_eq_no_false_alarm : forall A B,
  length (l_cross A) = length (l_idx A) -> length (l_cross B) = length (l_idx B) ->
  length (l_pos A) = length (l_pos B) -> l_idx A = l_idx B -> l_cross A = l_cross B ->
  (forall i, (i < length (l_pos A))%nat ->
     within (n_vertices A) (nth i (l_pos A) (0, 0)%Q) (nth i (l_pos B) (0, 0)%Q)) ->
  lat_eq A B = Some true.
Proof. exact lat_eq_no_false_alarm. Qed.
Print Assumptions C09_eq_no_false_alarm.

(* ---------- the hypotheses are satisfiable on a non-trivial instance ------------------------ *)
(* four vertices (none of whose coordinates is a float32 number), four edges, two of them crossing *)
Definition ex_lat : lat :=
  mkLat [(1 # 3, 1 # 10); (2 # 3, 1 # 7); (5 # 6, 9 # 10); (1 # 6, 3 # 4)]%Q F64
        [(0, 1); (1, 2); (2, 3); (3, 0)] I64 [(0, 0); (0, 0); (0, 1); (-1, 0)] I64
        (mkCache true true false true).

Example C09_roundtrip_values_nonvacuous :
  wf_lat ex_lat = true /\ n_vertices ex_lat <= dt_max U64 /\
  forallb (in_range2 I64) (l_idx ex_lat) = true /\ forallb (in_range2 I8) (l_cross ex_lat) = true /\
  existsb overflows2 (l_pos ex_lat) = false /\
  20000 * n_vertices ex_lat <= 2 ^ 46 /\
  round32 (1 # 3) = (11184811 # 33554432)%Q /\
  (exists R, roundtrip ex_lat = Some R /\ l_pos R <> l_pos ex_lat /\ lat_eq ex_lat R = Some true).
Proof.
  repeat split; try (vm_compute; reflexivity); try (vm_compute; discriminate).
  eexists. split; [vm_compute; reflexivity|]. split; [vm_compute; discriminate | vm_compute; reflexivity].
Qed.

(* a displaced copy: vertex 0 moved by 3/500 in x; the tolerance is 1/200, so it is detected, and a move by
   1/250 is not *)
Example C09_eq_detects_displacement_nonvacuous :
  let B d := mkLat [((1 # 3) + d, 1 # 10); (2 # 3, 1 # 7); (5 # 6, 9 # 10); (1 # 6, 3 # 4)]%Q F64
                   (l_idx ex_lat) I64 (l_cross ex_lat) I64 fresh_cache in
  lat_eq ex_lat (B (3 # 500)%Q) = Some false /\ lat_eq (B (3 # 500)%Q) ex_lat = Some false /\
  lat_eq ex_lat (B (1 # 250)%Q) = Some true /\
  ~ within (n_vertices ex_lat) (nth 0 (l_pos ex_lat) (0, 0)%Q) (nth 0 (l_pos (B (3 # 500)%Q)) (0, 0)%Q).
Proof. repeat split; try (vm_compute; reflexivity). vm_compute. intros H. apply H. reflexivity. Qed.

(* a lattice whose positions are float32 numbers (multiples of 1/8) *)
Definition ex_lat32 : lat :=
  mkLat [(1 # 8, 3 # 8); (5 # 8, 1 # 4); (7 # 8, 3 # 4)]%Q F64 [(0, 1); (1, 2); (2, 0)] I64
        [(0, 0); (0, 0); (1, 0)] I64 fresh_cache.

Example C09_roundtrip_exact_on_float32_nonvacuous :
  wf_lat ex_lat32 = true /\ roundtrip ex_lat32 <> None /\
  (forall p, In p (l_pos ex_lat32) -> qpair_eq (round32_2 p) p).
Proof.
  split; [vm_compute; reflexivity|]. split; [vm_compute; discriminate|].
  intros p H. change (l_pos ex_lat32) with [(1 # 8, 3 # 8); (5 # 8, 1 # 4); (7 # 8, 3 # 4)]%Q in H.
  destruct H as [<-|[<-|[<-|[]]]]; split; vm_compute; reflexivity.
Qed.

(* ---------- identical plaquettes and adjacency tables after the round trip ------------------- *)
(* clause "has identical ... plaquettes and adjacency tables (positions to single precision)".
   C09_roundtrip_values gives the restored lattice the SAME edges, crossings and vertex count and the float32
   roundings as positions.  The theorems below are about the shared lattice model coq/Model/Lattice.v (C01/C02):
   for ANY two embeddings L, L' of one graph (same edges, crossings, vertex count; positions and scale free), all
   derived combinatorics coincide as soon as the geometric predicates the code branches on keep their verdicts:
     (a) rot_agree:  the angular-sort comparator ang_lt on every ordered pair of edges leaving a common vertex
         (_sorted_vertex_adjacent_edges), and
     (b) the orientation filter of _find_all_plaquettes on every face walk of L — in three strengths:
         wrap_agree (every wrap_count of consecutive edge vectors) => wind_agree (winding number) =>
         valid_agree (the verdict "winding = -1").
   preds_agree := rot_agree && wind_agree is a boolean FUNCTION (Proofs/PredicateStableDefs.v), extracted as driver
   c09p and evaluated by harness/c09.py on (original, restored) of the generated lattices.
   This supersedes the "NOT covered" note on plaquettes/adjacency tables in the header of this file, up to:
   the bridge from Model/Pickle.v's rational positions to Model/Lattice.v's scaled integers is not a theorem (the
   harness serialises both lattices exactly), and whether preds_agree HOLDS for a given lattice is a computation per
   lattice (it fails for near-degenerate ones: C09_roundtrip_tables_needs_preds), not a theorem. *)
From Koala Require Import Model.Lattice Proofs.PredicateStableDefs Proofs.PredicateStable Proofs.PredicateStableExamples.

(* the stable insertion sort (np.argsort(-alpha)) depends on the keys only through the comparator's verdicts *)
Theorem C09_sort_depends_on_verdicts_only : forall (key key' : nat -> vec) (l : list nat),
  (forall x y, In x l -> In y l -> ang_lt (key y) (key x) = ang_lt (key' y) (key' x)) ->
  sort_desc key l = sort_desc key' l.
Proof. exact sort_desc_cmp. Qed.
Print Assumptions C09_sort_depends_on_verdicts_only.

(* (1) same comparator verdicts => same rotation system (vertices.adjacent_edges), same dart successor, same
   traced walk from every directed edge (including Stuck / raised outcomes), same face walks in the same order *)
Theorem C09_roundtrip_rotation_system : forall L L',
  same_connectivity L L' -> rot_agree L L' = true ->
  adj_table L = adj_table L' /\
  (forall d, next_dart L (adj_table L) d = next_dart L' (adj_table L') d) /\
  (forall se sd, trace L (adj_table L) se sd = trace L' (adj_table L') se sd) /\
  option_map (map f_walk) (all_faces L) = option_map (map f_walk) (all_faces L').
Proof. exact rotation_stable. Qed.
Print Assumptions C09_roundtrip_rotation_system.

(* (2) the clause itself.  tables L = (rotation system, face walks, plaquettes as (vertices, edges, directions) in
   discovery order — None when the constructor raises —, edges.adjacent_plaquettes, vertices.adjacent_plaquettes,
   plaquette neighbours, coordination numbers (both variants), edges.adjacent_edges, adjacency matrix).
   No well-formedness hypothesis is needed. *)
Theorem C09_roundtrip_tables : forall L L',
  preds_agree L L' = true -> same_connectivity L L' -> tables L = tables L'.
Proof. exact roundtrip_tables. Qed.
Print Assumptions C09_roundtrip_tables.

(* the same under the weakest hypothesis the argument needs (orientation VERDICT of each face walk unchanged), and
   the chain of the three strengths *)
Theorem C09_roundtrip_tables_weak : forall L L',
  preds_agree_weak L L' = true -> same_connectivity L L' -> tables L = tables L'.
Proof. exact roundtrip_tables_weak. Qed.
Print Assumptions C09_roundtrip_tables_weak.

Theorem C09_preds_agree_strengths : forall L L',
  (preds_agree_fine L L' = true -> preds_agree L L' = true) /\
  (preds_agree L L' = true -> preds_agree_weak L L' = true).
Proof. exact (fun L L' => conj (preds_agree_fine_preds_agree L L') (preds_agree_preds_agree_weak L L')). Qed.
Print Assumptions C09_preds_agree_strengths.

(* the boolean connectivity test used by the driver implies the hypothesis *)
Theorem C09_same_connectivity_b_sound : forall L L', same_connectivity_b L L' = true -> same_connectivity L L'.
Proof. exact same_connectivity_b_spec. Qed.
Print Assumptions C09_same_connectivity_b_sound.

(* non-vacuous: koala's honeycomb_lattice(2) (8 vertices, 12 edges, 5 of them crossing the cell boundary, float64
   positions that are not float32 numbers, scaled by 2^55) and its float32 rounding (is_round32_copy: positions of
   hc2_f32 = Model/Pickle.v's round32 of those of hc2): every predicate agrees, and there are 4 plaquettes *)
Example C09_roundtrip_tables_nonvacuous :
  wf_lattice hc2 = true /\ same_connectivity_b hc2 hc2_f32 = true /\
  is_round32_copy hc2 hc2_f32 = true /\ pos hc2 <> pos hc2_f32 /\
  preds_agree_fine hc2 hc2_f32 = true /\ preds_agree hc2 hc2_f32 = true /\ preds_agree_weak hc2 hc2_f32 = true /\
  option_map (map pproj) (find_all_plaquettes hc2) =
    Some [([0; 1; 6; 5; 4; 7], [0; 7; 4; 3; 9; 11], [true; false; true; false; true; false]);
          ([1; 0; 3; 4; 5; 2], [0; 8; 10; 3; 6; 1], [false; true; false; true; false; true]);
          ([1; 2; 3; 0; 7; 6], [1; 2; 8; 11; 5; 7], [false; true; false; true; false; true]);
          ([3; 2; 5; 6; 7; 4], [2; 6; 4; 5; 9; 10], [false; true; false; true; false; true])]%nat.
Proof. exact hc2_preds_agree. Qed.

(* the hypothesis is necessary: a thin triangle (third vertex 2^-31-close to the opposite side) whose float32
   rounding — again exactly round32 of its positions — flips the orientation predicates: same connectivity, but the
   rotation system, the plaquette (the reversed walk is kept) and hence the tables differ *)
Example C09_roundtrip_tables_needs_preds :
  wf_lattice thin = true /\ same_connectivity_b thin thin_f32 = true /\ is_round32_copy thin thin_f32 = true /\
  rot_agree thin thin_f32 = false /\ valid_agree thin thin_f32 = false /\ preds_agree_weak thin thin_f32 = false /\
  adj_table thin <> adj_table thin_f32 /\
  option_map (map pproj) (find_all_plaquettes thin) = Some [([0; 1; 2], [0; 1; 2], [true; true; true])]%nat /\
  option_map (map pproj) (find_all_plaquettes thin_f32) = Some [([1; 0; 2], [0; 2; 1], [false; false; false])]%nat /\
  tables thin <> tables thin_f32.
Proof. exact thin_needs_preds. Qed.
