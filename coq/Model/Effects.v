(* C15 — effect (may-alias / may-write) analysis over an IR regenerated from koala's source.
   Executable definitions + the (relational, nondeterministic) concrete store semantics.
   No lemmas here (Proofs/EffectsFacts.v).

   IR (DESIGN C15):  stmt := Skip | Bind x rhs | Write x | Call rets f args | CallDyn rets gs args
                             | Seq | If | Loop.
   [CallDyn rets gs args] is the call of a RUN-TIME callable (a parameter such as `heuristic`, `Hk`,
   `adjacency`, `distance_func`, `function`): the callee is ANY of the koala functions [gs] (the
   translator lists every koala function / closure that is ever used as a first-class value),
   applied to ARBITRARY argument values, or a foreign callable that is effect-free (assumption,
   see harness/c15.py ASSUMPTIONS) and returns anything.
   A value has two sets of abstract locations: [own] (the buffers a store THROUGH this
   value changes: `x[i] = v`, `x += 1`, `x.sort()`, `np.add.at(x, ..)`) and [reach]
   (everything reachable from the value: fields, elements, base buffers).
   Every rhs is one general form [Rhs fresh oo or rr]:
       own   ⊆ [new if fresh] ∪ own(oo)   ∪ reach(or)
       reach ⊆ [new if fresh] ∪ reach(oo) ∪ reach(or) ∪ reach(rr)
   and the DESIGN's constructors are instances:
     Fresh      allocation (arithmetic, .copy(), .astype(), advanced indexing, np.array ...)
     View y     may alias anything reachable from y (y.attr, y[a:b], y[i], y.T, reshape ...)
     Union ys   View of several
     Box ys     a NEW container holding references to ys (list/tuple/dict display, dataclass)
     Alias y    the same object (plain name binding, return value)
     Extend y z the same object y, which now also references z (y.append(z), y[i] = z)
     Join ys    one of the objects ys (if-expression, `a or b`, several return statements). *)
From Coq Require Import List Arith Bool.
Import ListNotations.

Definition var := nat.
Definition fname := nat.
Definition loc := nat.

Record rhs := Rhs { r_fresh : bool; r_oo : list var; r_or : list var; r_rr : list var }.
Definition Fresh := Rhs true [] [] [].
Definition Const := Rhs false [] [] [].
Definition View (y : var) := Rhs false [] [y] [].
Definition Union (ys : list var) := Rhs false [] ys [].
Definition Box (ys : list var) := Rhs true [] [] ys.
Definition Alias (y : var) := Rhs false [y] [] [].
Definition Extend (y : var) (zs : list var) := Rhs false [y] [] zs.
Definition Join (ys : list var) := Rhs false ys [] [].

Inductive stmt :=
| Skip
| Bind (x : var) (r : rhs)
| Write (x : var)
| Call (rets : list var) (f : fname) (args : list var)
| CallDyn (rets : list var) (gs : list fname) (args : list var)
| Seq (s1 s2 : stmt)
| If (s1 s2 : stmt)
| Loop (s : stmt).

(* a function: variables 0..NRET-1 are the return slots (0 = the returned object, i>=1 = the
   i-th component when every return statement is a tuple display), NRET.. are the formals *)
Record fundef := Fun { f_nparams : nat; f_body : stmt }.
Definition program := list fundef.
Definition NRET := 8.

(* ------------------------------------------------------------------ concrete store semantics *)
Record cval := CV { own : list loc; reach : list loc }.
Definition cenv := var -> cval.
Record cstate := CS { env : cenv; heap : loc -> nat; next : loc }.
Definition empty_val := CV [] [].
Definition upd (e : cenv) (x : var) (v : cval) : cenv := fun y => if Nat.eqb y x then v else e y.
Fixpoint upd_list (e : cenv) (xs : list var) (vs : list cval) : cenv :=
  match xs, vs with
  | x :: xs', v :: vs' => upd_list (upd e x v) xs' vs'
  | _, _ => e
  end.
Definition owns (e : cenv) (xs : list var) := flat_map (fun x => own (e x)) xs.
Definition reaches (e : cenv) (xs : list var) := flat_map (fun x => reach (e x)) xs.

Definition val_ok (e : cenv) (n : loc) (r : rhs) (v : cval) : Prop :=
  let fr := if r_fresh r then [n] else [] in
  incl (own v) (fr ++ owns e (r_oo r) ++ reaches e (r_or r)) /\
  incl (reach v) (fr ++ reaches e (r_oo r) ++ reaches e (r_or r) ++ reaches e (r_rr r)).

Definition sub_val (v w : cval) : Prop := incl (own v) (own w) /\ incl (reach v) (reach w).

Definition call_env (np : nat) (argvals : list cval) : cenv :=
  fun v => if Nat.ltb v NRET then empty_val else nth (v - NRET) (firstn np argvals) empty_val.

Inductive exec (p : program) : stmt -> cstate -> cstate -> Prop :=
| E_Skip : forall st, exec p Skip st st
| E_Bind : forall x r st v h',
    val_ok (env st) (next st) r v ->
    (forall l, l <> next st -> h' l = heap st l) ->
    exec p (Bind x r) st (CS (upd (env st) x v) h' (S (next st)))
| E_Write : forall x st h',
    (forall l, ~ In l (own (env st x)) -> h' l = heap st l) ->
    exec p (Write x) st (CS (env st) h' (next st))
| E_Call : forall rets f args fd st st' vs,
    nth_error p f = Some fd ->
    exec p (f_body fd) (CS (call_env (f_nparams fd) (map (env st) args)) (heap st) (next st)) st' ->
    Forall2 (fun v i => sub_val v (env st' i)) vs (seq 0 (length rets)) ->
    exec p (Call rets f args) st (CS (upd_list (env st) rets vs) (heap st') (next st'))
(* run-time callable = one of koala's first-class functions gs, on arbitrary argument values
   (captured variables included: they are formals of the lifted closure) *)
| E_CallDyn : forall rets gs args g fd st st' argvals vs,
    In g gs -> nth_error p g = Some fd ->
    exec p (f_body fd) (CS (call_env (f_nparams fd) argvals) (heap st) (next st)) st' ->
    Forall2 (fun v i => sub_val v (env st' i)) vs (seq 0 (length rets)) ->
    exec p (CallDyn rets gs args) st (CS (upd_list (env st) rets vs) (heap st') (next st'))
(* run-time callable = foreign, effect-free: may allocate, returns any values *)
| E_CallDynExt : forall rets gs args st vs h',
    (forall l, l <> next st -> h' l = heap st l) ->
    exec p (CallDyn rets gs args) st (CS (upd_list (env st) rets vs) h' (S (next st)))
| E_Seq : forall s1 s2 st st1 st2,
    exec p s1 st st1 -> exec p s2 st1 st2 -> exec p (Seq s1 s2) st st2
(* the rest of a sequence may be skipped: exception, early return, break, continue *)
| E_SeqStop : forall s1 s2 st st1,
    exec p s1 st st1 -> exec p (Seq s1 s2) st st1
| E_IfL : forall s1 s2 st st', exec p s1 st st' -> exec p (If s1 s2) st st'
| E_IfR : forall s1 s2 st st', exec p s2 st st' -> exec p (If s1 s2) st st'
| E_LoopEnd : forall s st, exec p (Loop s) st st
| E_LoopStep : forall s st st1 st2,
    exec p s st st1 -> exec p (Loop s) st1 st2 -> exec p (Loop s) st st2.

(* ------------------------------------------------------------------ abstract analysis
   aval = (o, r): o = "own may contain an argument-reachable location",
                  r = "reach may contain an argument-reachable location". *)
Definition aval := (bool * bool)%type.
Definition aenv := list aval.
Definition abot : aval := (false, false).
Definition atop : aval := (true, true).
Definition aget (a : aenv) (x : var) : aval := nth x a abot.
Fixpoint aset (a : aenv) (x : var) (v : aval) : aenv :=
  match x, a with
  | 0, [] => [v]
  | 0, _ :: t => v :: t
  | S x', [] => abot :: aset [] x' v
  | S x', h :: t => h :: aset t x' v
  end.
Fixpoint aset_list (a : aenv) (xs : list var) (vs : list aval) : aenv :=
  match xs, vs with
  | x :: xs', v :: vs' => aset_list (aset a x v) xs' vs'
  | _, _ => a
  end.
Definition vjoin (v w : aval) : aval := (fst v || fst w, snd v || snd w).
Definition vle (v w : aval) : bool := implb (fst v) (fst w) && implb (snd v) (snd w).
Fixpoint ajoin (a b : aenv) : aenv :=
  match a, b with
  | [], _ => b
  | _, [] => a
  | v :: a', w :: b' => vjoin v w :: ajoin a' b'
  end.
Fixpoint ale (a b : aenv) : bool :=
  match a, b with
  | [], _ => true
  | v :: a', [] => vle v abot && ale a' []
  | v :: a', w :: b' => vle v w && ale a' b'
  end.

Definition aeval (a : aenv) (r : rhs) : aval :=
  (existsb (fun x => fst (aget a x)) (r_oo r) || existsb (fun x => snd (aget a x)) (r_or r),
   existsb (fun x => snd (aget a x)) (r_oo r) || existsb (fun x => snd (aget a x)) (r_or r)
   || existsb (fun x => snd (aget a x)) (r_rr r)).

Section AEXEC.
  Variable callf : fname -> list aval -> option aenv.   (* analysis of a callee in this context *)
  Variable dynok : fname -> bool.     (* verified separately: accepted with EVERY formal tainted *)
  Variable lf : nat.                                     (* loop fixpoint fuel; exhaustion => None *)

  Fixpoint loop_fix (body : aenv -> option aenv) (n : nat) (a : aenv) : option aenv :=
    match body a with
    | None => None
    | Some a' =>
      if ale a' a then Some a
      else match n with 0 => None | S n' => loop_fix body n' (ajoin a a') end
    end.

  Fixpoint aexec (s : stmt) (a : aenv) : option aenv :=
    match s with
    | Skip => Some a
    | Bind x r => Some (aset a x (aeval a r))
    | Write x => if fst (aget a x) then None else Some a
    | Call rets f args =>
      match callf f (map (aget a) args) with
      | None => None
      | Some ac => Some (aset_list a rets (map (aget ac) (seq 0 (length rets))))
      end
    | CallDyn rets gs _ =>
      (* every possible callee must have been verified with all formals tainted (fail closed);
         the results may be anything: tainted *)
      if forallb dynok gs then Some (aset_list a rets (repeat atop (length rets))) else None
    | Seq s1 s2 =>
      match aexec s1 a with
      | Some a1 => match aexec s2 a1 with Some a2 => Some (ajoin a1 a2) | None => None end
      | None => None
      end
    | If s1 s2 =>
      match aexec s1 a, aexec s2 a with
      | Some a1, Some a2 => Some (ajoin a1 a2)
      | _, _ => None
      end
    | Loop s1 => loop_fix (aexec s1) lf a
    end.
End AEXEC.

(* context-sensitive inter-procedural analysis: the callee's body is analysed with the
   abstract values of the actual arguments; [d] bounds the call depth (exhaustion => None). *)
Fixpoint afun (p : program) (dynok : fname -> bool) (lf : nat) (d : nat) (f : fname) (avs : list aval) : option aenv :=
  match d with
  | 0 => None
  | S d' =>
    match nth_error p f with
    | None => None
    | Some fd => aexec (afun p dynok lf d') dynok lf (f_body fd) (repeat abot NRET ++ firstn (f_nparams fd) avs)
    end
  end.

Definition LOOP_FUEL := 64.
Definition mask_avals (mask : list bool) : list aval := map (fun b : bool => (b, b)) mask.

(* ---- run-time callables: the candidate callees are all functions named in some CallDyn; each is
   verified ONCE with every formal tainted, under the assumption that the candidates (which may
   call run-time callables themselves, e.g. `_heuristic` calls `heuristic`) are fine — an
   assume/guarantee argument justified by induction on the execution (EffectsFacts.exec_sound) *)
Fixpoint stmt_targets (s : stmt) : list fname :=
  match s with
  | CallDyn _ gs _ => gs
  | Seq s1 s2 | If s1 s2 => stmt_targets s1 ++ stmt_targets s2
  | Loop s1 => stmt_targets s1
  | _ => []
  end.
Definition prog_targets (p : program) : list fname :=
  nodup Nat.eq_dec (flat_map (fun fd => stmt_targets (f_body fd)) p).
Definition mem_target (T : list fname) (g : fname) : bool := existsb (Nat.eqb g) T.
Definition top_env (np : nat) : aenv := repeat abot NRET ++ repeat atop np.
Definition target_verified (p : program) (T : list fname) (g : fname) : bool :=
  match nth_error p g with
  | None => false
  | Some fd =>
    match aexec (afun p (mem_target T) LOOP_FUEL (S (length p))) (mem_target T) LOOP_FUEL
                (f_body fd) (top_env (f_nparams fd)) with
    | Some _ => true
    | None => false
    end
  end.
Definition dyn_ok (p : program) : fname -> bool :=
  if forallb (target_verified p (prog_targets p)) (prog_targets p)
  then mem_target (prog_targets p) else fun _ => false.

(* may function f write a location reachable from the formals selected by [mask]? *)
Definition no_arg_write_mask (p : program) (f : fname) (mask : list bool) : bool :=
  match afun p (dyn_ok p) LOOP_FUEL (S (length p)) f (mask_avals mask) with Some _ => true | None => false end.

Definition no_arg_write_entry (p : program) (e : fname * list bool) : bool :=
  no_arg_write_mask p (fst e) (snd e).

(* all formals *)
Definition no_arg_write (p : program) (f : fname) : bool :=
  match nth_error p f with
  | None => false
  | Some fd => no_arg_write_mask p f (repeat true (f_nparams fd))
  end.

(* summary for the evidence file: which single formals may be written *)
Definition written_params (p : program) (f : fname) : list nat :=
  match nth_error p f with
  | None => []
  | Some fd =>
    filter (fun i => negb (no_arg_write_mask p f (map (Nat.eqb i) (seq 0 (f_nparams fd)))))
           (seq 0 (f_nparams fd))
  end.
