(* Model/Cnf.v — CNF formulas as pysat sees them (C04).  Definitions only (no proofs).

   A literal is a non-zero integer: v > 0 is the variable x_v, -v its negation
   (graph_color.py:24-31).  A clause is a list of literals (a disjunction), a formula a list
   of clauses (a conjunction).

   A [model] is what pysat's Solver.get_model() / enum_models() yield: the list
   [±1; ±2; ...; ±N] whose k-th entry (0-based) is +(k+1) when x_{k+1} is true and -(k+1)
   when it is false, N being the largest variable mentioned in the clauses added so far
   (measured against pysat 1.9.dev15 / glucose3 by harness/c04.py on every run).

   CardEnc contract (pysat.card.CardEnc.equals(lits, bound=1, encoding=EncType.pairwise)),
   recorded here and compared with pysat's real output by harness/c04.py on every run:
     clauses = [lits] ++ [[-a, -b] for a, b in itertools.combinations(lits, 2)]
   no auxiliary variable is introduced (vpool untouched), and lits = [] raises
   ValueError("Wrong bound") — in the model the empty at-least-one clause [] is simply
   unsatisfiable, which is the same verdict. *)
From Coq Require Import List ZArith Bool Arith.
Import ListNotations.
Local Open Scope Z_scope.

Definition clause := list Z.
Definition cnf := list clause.
Definition model := list Z.

(* valuations: variable number -> truth value *)
Definition valuation := Z -> bool.

(* truth value of variable v (v >= 1) in a pysat model list *)
Definition val (m : model) : valuation :=
  fun v => 0 <? nth (Z.to_nat (v - 1)) m 0.

Definition eval_lit (nu : valuation) (l : Z) : bool :=
  if 0 <? l then nu l else negb (nu (- l)).

Definition eval_clause (nu : valuation) (c : clause) : bool := existsb (eval_lit nu) c.

Definition eval_cnf (nu : valuation) (f : cnf) : bool := forallb (eval_clause nu) f.

(* at-most-one, pairwise: [-a, -b] for every pair a before b  (itertools.combinations order) *)
Fixpoint amo (l : list Z) : cnf :=
  match l with
  | [] => []
  | a :: r => map (fun b => [- a; - b]) r ++ amo r
  end.

(* CardEnc.equals(lits, bound=1, encoding=pairwise) *)
Definition equals1 (l : list Z) : cnf := l :: amo l.

(* largest variable mentioned (pysat: Solver.nof_vars()) *)
Definition maxvar (f : cnf) : nat :=
  list_max (map (fun l => Z.to_nat (Z.abs l)) (concat f)).

(* the model list of a valuation over variables 1..N *)
Definition model_of_val (N : nat) (nu : valuation) : model :=
  map (fun k => let v := Z.of_nat k in if nu v then v else - v) (seq 1 N).

(* m = [±1; ...; ±N] *)
Fixpoint wf_from (i : Z) (m : model) : bool :=
  match m with
  | [] => true
  | x :: r => ((x =? i) || (x =? - i)) && wf_from (i + 1) r
  end.

Definition wf_model (N : nat) (m : model) : bool :=
  (length m =? N)%nat && wf_from 1 m.

(* brute force: every total assignment over 1..N, filtered by the formula (tiny N only) *)
Fixpoint all_models_from (i : Z) (N : nat) : list model :=
  match N with
  | O => [[]]
  | S N' => let rest := all_models_from (i + 1) N' in
            map (cons (- i)) rest ++ map (cons i) rest
  end.

Definition brute_models (N : nat) (f : cnf) : list model :=
  filter (fun m => eval_cnf (val m) f) (all_models_from 1 N).

(* numpy argmax over a 1-d integer array: index of the FIRST occurrence of the maximum *)
Fixpoint argmax_from (best_i : nat) (best : Z) (i : nat) (l : list Z) : nat :=
  match l with
  | [] => best_i
  | x :: r => if best <? x then argmax_from i x (S i) r else argmax_from best_i best (S i) r
  end.

Definition argmax (l : list Z) : nat :=
  match l with
  | [] => O            (* numpy raises on an empty axis; callers guarantee n_colors >= 1 *)
  | x :: r => argmax_from O x 1 r
  end.
