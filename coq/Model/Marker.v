(* Model/Marker.v — executable model of koala/chern_number.py (crosshair_marker,
   chern_marker).  Definitions only (no proofs).

   The matrix part is written ONCE, generically over a carrier [T] with a zero, an
   addition and a multiplication (Section Generic).  It is used at two instances:
     * T := gz (Gaussian integers, pairs of Z): extracted to OCaml and run against
       the implementation (correspondence K, harness/c18.py);
     * T := any MathComp numClosedFieldType C with 0, +, *, 'Im:
       Proofs/MarkerBridge.v proves that the very same list functions compute the
       entries of the MathComp expression  'Im ((P *m diag_mx a *m P *m diag_mx b *m P) i i)
       about which Proofs/MarkerMx.v proves the property's identities.

   Numbers at the gz instance: the harness hands in an exact Gaussian-rational matrix
   P = Pz / D (one common positive denominator D, Pz Gaussian integers) and dyadic
   positions x = xs / S.  The model returns integer NUMERATORS:
       crosshair_marker / (4 pi) = crosshair_num / D^3
       chern_marker     / (4 pi) = chern_num / (D^3 S^2)
   (the prefactor 4*pi of chern_number.py:26,48 is symbolic: it is not a rational). *)
From Coq Require Import List ZArith Bool Arith.
Import ListNotations.

Section Generic.
  Variable T : Type.          (* matrix entries *)
  Variable I : Type.          (* type of the imaginary part *)
  Variable t0 : T.
  Variables tadd tmul : T -> T -> T.
  Variable tim : T -> I.

  (* totalised accessors *)
  Fixpoint nthd (l : list T) (k : nat) : T :=
    match l, k with
    | [], _ => t0
    | x :: _, O => x
    | _ :: l', S k' => nthd l' k'
    end.
  Fixpoint nthr (M : list (list T)) (k : nat) : list T :=
    match M, k with
    | [], _ => []
    | r :: _, O => r
    | _ :: M', S k' => nthr M' k'
    end.

  (* sum_k u_k * v_k *)
  Fixpoint dot (u v : list T) : T :=
    match u, v with
    | x :: u', y :: v' => tadd (tmul x y) (dot u' v')
    | _, _ => t0
    end.

  Definition col (j : nat) (B : list (list T)) : list T := map (fun r => nthd r j) B.

  (* A @ B for a B with n columns:  (A @ B)[i][j] = sum_k A[i][k] * B[k][j] *)
  Definition mm (n : nat) (A B : list (list T)) : list (list T) :=
    map (fun r => map (fun j => dot r (col j B)) (seq 0 n)) A.

  (* np.diag(v) for a 1-D v of length n: the full n x n matrix (chern_number.py:23-24,44-45) *)
  Definition diagm (n : nat) (a : list T) : list (list T) :=
    map (fun i => map (fun j => if Nat.eqb i j then nthd a i else t0) (seq 0 n)) (seq 0 n).

  (* np.diag(M) for a 2-D n x n M: the vector of diagonal entries (chern_number.py:26,48) *)
  Definition diagv (n : nat) (M : list (list T)) : list T :=
    map (fun i => nthd (nthr M i) i) (seq 0 n).

  (* chern_number.py:26-27 / 48-49 without the prefactor:
       np.diag(projector @ A @ projector @ B @ projector).imag ,  A = diag a, B = diag b
     (numpy's @ associates to the left) *)
  Definition triple (n : nat) (P : list (list T)) (a b : list T) : list (list T) :=
    mm n (mm n (mm n (mm n P (diagm n a)) P) (diagm n b)) P.
  Definition lmarker (n : nat) (P : list (list T)) (a b : list T) : list I :=
    map tim (diagv n (triple n P a b)).

  (* shapes: projector n x n, a and b of length n; anything else is numpy's ValueError *)
  Definition wf_shape (n : nat) (P : list (list T)) (a b : list T) : bool :=
    Nat.eqb (length P) n && forallb (fun r => Nat.eqb (length r) n) P
    && Nat.eqb (length a) n && Nat.eqb (length b) n.
End Generic.

(* ---------- Gaussian integers ---------- *)
Open Scope Z_scope.
Definition gz := (Z * Z)%type.
Definition gz0 : gz := (0, 0).
Definition gz1 : gz := (1, 0).
Definition gzadd (a b : gz) : gz := (fst a + fst b, snd a + snd b).
Definition gzmul (a b : gz) : gz :=
  (fst a * fst b - snd a * snd b, fst a * snd b + snd a * fst b).
Definition gzconj (a : gz) : gz := (fst a, - snd a).
Definition gzim (a : gz) : Z := snd a.
Definition gz_of_Z (z : Z) : gz := (z, 0).
(* 1 * (boolean array)  (chern_number.py:23-24) *)
Definition gz_of_bool (b : bool) : gz := if b then gz1 else gz0.

Definition gz_marker (n : nat) (P : list (list gz)) (a b : list gz) : option (list Z) :=
  if wf_shape gz n P a b then Some (lmarker gz Z gz0 gzadd gzmul gzim n P a b) else None.

(* ---------- decidable check of the property's hypothesis on the exact input ----------
   The harness hands in Pz with P = Pz / D.  P is a Hermitian projector iff Pz^* = Pz and
   Pz Pz = D Pz.  Run by K on every exact case (so every compared case is an instance of the
   hypotheses of the theorems in Props/C18.v; soundness: Proofs/MarkerBridge.v gz_projb_sound). *)
Definition gz_eqb (a b : gz) : bool := Z.eqb (fst a) (fst b) && Z.eqb (snd a) (snd b).
Definition gz_entry (P : list (list gz)) (i j : nat) : gz := nthd gz gz0 (nthr gz P i) j.
Definition all2n (n : nat) (f : nat -> nat -> bool) : bool :=
  forallb (fun i => forallb (fun j => f i j) (seq 0 n)) (seq 0 n).
Definition gz_hermb (n : nat) (P : list (list gz)) : bool :=
  all2n n (fun i j => gz_eqb (gz_entry P i j) (gzconj (gz_entry P j i))).
Definition gz_idemb (n : nat) (D : Z) (P : list (list gz)) : bool :=
  let PP := mm gz gz0 gzadd gzmul n P P in
  all2n n (fun i j => gz_eqb (gz_entry PP i j) (gzmul (D, 0) (gz_entry P i j))).
Definition gz_projb (n : nat) (D : Z) (P : list (list gz)) : bool :=
  Nat.eqb (length P) n && forallb (fun r => Nat.eqb (length r) n) P
  && gz_hermb n P && gz_idemb n D P.

(* chern_number.py:22-24  theta = [positions < crosshair]  — STRICT comparison.
   xs, X (and ys, Y) are scaled by the same positive power of two, so the comparison
   of the scaled integers is the comparison of the floats. *)
Definition theta (xs : list Z) (X : Z) : list gz := map (fun x => gz_of_bool (x <? X)) xs.

(* crosshair_marker / (4 pi) * D^3 *)
Definition crosshair_num (P : list (list gz)) (xs ys : list Z) (X Y : Z) : option (list Z) :=
  gz_marker (length xs) P (theta xs X) (theta ys Y).

(* chern_marker / (4 pi) * D^3 * S^2   (chern_number.py:43-49: x = diag(positions[:,0]) ...) *)
Definition chern_num (P : list (list gz)) (xs ys : list Z) : option (list Z) :=
  gz_marker (length xs) P (map gz_of_Z xs) (map gz_of_Z ys).
