(* Model/VoronoiDual.v — the record-level duality hypotheses of the last link of post_correct (definitions only).

   [T] assigns to every Voronoi vertex of the record (old index) its Delaunay triangle: three sites (seed index, integer
   cell offset) in counter-clockwise order, in the frame of the replicated window, rotated so that the smallest site
   comes first (a translation-equivariant normal form; the harness builds T from scipy's ridge_points).
   [dual_ok] says, about the record and T only (not about the returned lattice):
     D1  the triangle of the image in the cell of the outer end of a crossing ridge is the translated triangle;
     D2  the two ends of every finite ridge touching the cell have triangles sharing a side (same frame, offset 0);
     D3  no directed side (modulo translation) belongs to two (vertex in the cell, side) slots;
     D4  for every vertex in the cell: positive orientation, reference point in the cell, position close to it. *)
From Coq Require Import List ZArith Bool Arith.
From Koala Require Import Model.Lattice Model.Delaunay Model.VoronoiPost Model.VoronoiPeriodic.
Import ListNotations.
Open Scope Z_scope.

Definition site0 : site := (0%nat, (0, 0)).
Definition tri0 : tri := (site0, site0, site0).
Definition box0 : box := (0, 0, 0, 0).
Definition site_tr (s : site) (c : pt) : site := (s_idx s, (fst (s_off s) + fst c, snd (s_off s) + snd c)).
Definition tri_shift (t : tri) (c : pt) : tri := (site_tr (t_a t) c, site_tr (t_b t) c, site_tr (t_c t) c).
Definition site_eqb (p q : site) : bool := (s_idx p =? s_idx q)%nat && pt_eqb (s_off p) (s_off q).
Definition tri_eqb (t u : tri) : bool :=
  site_eqb (t_a t) (t_a u) && site_eqb (t_b t) (t_b u) && site_eqb (t_c t) (t_c u).
Definition tat (T : list tri) (i : Z) : tri := nth (Z.to_nat i) T tri0.

(* D1 for one crossing ridge: both ends (the inner end trivially: cell 0) *)
Definition d1_end (S : Z) (vs : list pt) (T : list tri) (i : Z) : bool :=
  tri_eqb (nth (nearest vs (wrap S (vat vs i))) T tri0) (tri_shift (tat T i) (pt_opp (cell_pt S (vat vs i)))).
Definition d1_ok (S : Z) (vs : list pt) (rv : list (Z * Z)) (T : list tri) : bool :=
  forallb (fun r => d1_end S vs T (fst r) && d1_end S vs T (snd r)) (select S vs 1 rv).

Definition has_match (t t' : tri) : bool :=
  match find_match t t' (0, 0) with Some _ => true | None => false end.
Definition d2_ok (S : Z) (vs : list pt) (rv : list (Z * Z)) (T : list tri) : bool :=
  forallb (fun r => has_match (tat T (fst r)) (tat T (snd r))) (select S vs 1 rv ++ select S vs 2 rv).

Definition cell_sides (S : Z) (vs : list pt) (T : list tri) : list skey :=
  flat_map (fun o => if in_unit S (nth o vs (0, 0)) then tri_sides (nth o T tri0) else []) (seq 0 (length vs)).
Definition d3_ok (S : Z) (vs : list pt) (T : list tri) : bool := nodup_by skey_eqb (cell_sides S vs T).

Definition d4_vertex (S tolS : Z) (shift : bool) (pts : list pt) (p : pt) (t : tri) : bool :=
  let '(a, b, c) := tri_pts S pts t in
  (0 <? orient2d a b c) && in_cell S (ref_point shift a b c) && pos_close tolS p (ref_point shift a b c).
Definition d4_ok (S tolS : Z) (shift : bool) (pts : list pt) (vs : list pt) (T : list tri) : bool :=
  forallb (fun o => negb (in_unit S (nth o vs (0, 0))) || d4_vertex S tolS shift pts (nth o vs (0, 0)) (nth o T tri0))
          (seq 0 (length vs)).

Definition dual_ok (S tolS : Z) (shift : bool) (pts : list pt) (vs : list pt) (rv : list (Z * Z)) (T : list tri) : bool :=
  (length T =? length vs)%nat && d1_ok S vs rv T && d2_ok S vs rv T && d3_ok S vs T && d4_ok S tolS shift pts vs T.

(* the certificate read off the record for the returned lattice: triangle of the n-th kept vertex, with a bounding-box
   hint for its circumdisc ([B], one per Voronoi vertex; used by check_delaunay only, where it is verified) *)
Definition cert_of (T : list tri) (B : list box) (order : list nat) : list (tri * box) :=
  map (fun o => (nth o T tri0, nth o B box0)) order.

(* what the harness evaluates: [dual_ok] for the record after the optional shift ([pts]: the N seeds on the scale of
   the shifted vertices, i.e. multiplied by 3 when shift_vertices) *)
Definition post_dual_hyp (shift : bool) (S tolS : Z) (points pts : list pt) (v : vor) (T : list tri) : option bool :=
  match shifted_vertices shift S points v with
  | Err _ => None
  | Ok (S', vs) => Some (dual_ok S' tolS shift pts vs (ridge_vertices v) T)
  end.
