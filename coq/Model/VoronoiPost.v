(* Model/VoronoiPost.v — executable model of the post-processing of koala's Voronoi generator:
   everything voronization.py:generate_lattice does AFTER `vor = Voronoi(points)` (voronization.py:81),
   as a function of an abstract Voronoi record (Qhull itself is not modelled).

   Numbers.  All coordinates are float64 values, i.e. dyadic rationals, scaled by a common power of two
   [S] to integers ([S] = one unit cell).  With shift_vertices the vertices become centroids
   (a+b+c)/3: the model keeps the exact sum a+b+c and multiplies the scale by 3 (koala rounds the
   quotient to float64; the harness compares positions to 1e-12 and skips inputs whose centroid is
   within 1e-9 of, but not exactly on, a cell boundary).

   External routines.
   * scipy.spatial.KDTree.query(k=1) (voronization.py:154-157) is modelled by [nearest]: the FIRST vertex
     of minimal squared Euclidean distance (exact arithmetic).  [nearest_info] also returns the
     squared distances of the winner and of the runner-up, so that the harness can skip near ties.
   * `list(set(pbc_ridges.flatten()))` (voronization.py:191) enumerates a CPython set: its order is the
     hash-table order, NOT sorted.  It is a parameter [order_of] of [post_process]; the contract
     ([order_ok]: no duplicates, exactly the surviving vertices) is checked by [reindex], which returns
     [BadOrder] otherwise.  [sorted_nodup] is the canonical instance (re-index = rank).
   Definitions only; lemmas are in Proofs/VoronoiPostFacts.v. *)
From Coq Require Import List ZArith Bool Arith.
From Koala Require Import Model.Lattice Model.Delaunay.     (* nodupb; pt, cell_of, window *)
Import ListNotations.
Open Scope Z_scope.

(* scipy.spatial.Voronoi attributes used by the code.  ridge_vertices: -1 = "no vertex" (ridge to infinity) *)
Record vor := mkVor {
  vertices : list pt;
  ridge_vertices : list (Z * Z);
  ridge_points : list (nat * nat) }.

Inductive perr :=
| BadRidgeVertex            (* a ridge index outside -1 .. nV-1 (Python: IndexError) *)
| BadRidgePoints            (* ridge_points shorter/longer than ridge_vertices, or a seed index out of range *)
| NotThreeRidges (v : nat)  (* shift_vertices: vertex v does not touch exactly 3 ridges (numpy: ragged index, raises) *)
| NotThreeSeeds (v : nat)   (* shift_vertices: the 3 ridges at v do not separate exactly 3 seeds (np.unique row length) *)
| BadOrder.                 (* the set enumeration broke its contract *)

Inductive result (A : Type) := Ok (a : A) | Err (e : perr).
Arguments Ok {A} a. Arguments Err {A} e.

(* ---------- voronization.py:26-38 generate_point_array, :75-76 padding ---------- *)
Definition padding_of (n : nat) : Z := if (10 <? n)%nat then 1 else 2.

(* itertools.product(linear_pad, repeat=2): first coordinate outermost *)
Definition offsets (pad : Z) : list pt :=
  flat_map (fun dx => map (fun dy => (dx, dy)) (window pad)) (window pad).

(* np.concatenate(points[None, ...] + dxdy[:, None, :]): for every offset, all points (exact; koala adds in float64) *)
Definition generate_point_array (S : Z) (pts : list pt) (pad : Z) : list pt :=
  flat_map (fun d => map (fun p => (fst p + S * fst d, snd p + S * snd d)) pts) (offsets pad).

(* ---------- Python indexing vor.vertices[i] with i = -1 meaning the LAST vertex (voronization.py:106,
   commented on at :115) ---------- *)
Definition py_nth (vs : list pt) (i : Z) : pt :=
  if i <? 0 then nth (Z.to_nat (Z.of_nat (length vs) + i)) vs (0, 0)
  else nth (Z.to_nat i) vs (0, 0).

Definition ridge_wf (nv : nat) (r : Z * Z) : bool :=
  (-1 <=? fst r) && (fst r <? Z.of_nat nv) && (-1 <=? snd r) && (snd r <? Z.of_nat nv).

(* ---------- voronization.py:84-104 shift_vertices ---------- *)
(* :90-93  v_edges = nonzero((ridge_indices[:,0]==v) + (ridge_indices[:,1]==v));
   :96-98  ridge_points[v_edges] flattened to 6 seed indices *)
Fixpoint adjacent_seeds (v : Z) (rv : list (Z * Z)) (rp : list (nat * nat)) : list (list nat) :=
  match rv, rp with
  | r :: rv', p :: rp' =>
    if (fst r =? v) || (snd r =? v) then [fst p; snd p] :: adjacent_seeds v rv' rp'
    else adjacent_seeds v rv' rp'
  | _, _ => []
  end.

(* np.unique of a row: sorted, without repetitions *)
Fixpoint insert_nodup (x : nat) (l : list nat) : list nat :=
  match l with
  | [] => [x]
  | y :: t => if (x <? y)%nat then x :: l else if (x =? y)%nat then l else y :: insert_nodup x t
  end.
Definition sorted_nodup (l : list nat) : list nat := fold_right insert_nodup [] l.

Definition pt_add (p q : pt) : pt := (fst p + fst q, snd p + snd q).

(* :99-103 the sum of the three seeds around vertex v (the centroid is this divided by 3) *)
Definition centroid3 (points : list pt) (rv : list (Z * Z)) (rp : list (nat * nat)) (v : nat) : result pt :=
  let adj := adjacent_seeds (Z.of_nat v) rv rp in
  if negb (length adj =? 3)%nat then Err (NotThreeRidges v) else
  let u := sorted_nodup (concat adj) in
  if negb (length u =? 3)%nat then Err (NotThreeSeeds v) else
  if negb (forallb (fun i => (i <? length points)%nat) u) then Err BadRidgePoints else
  Ok (fold_left (fun acc i => pt_add acc (nth i points (0, 0))) u (0, 0)).

Fixpoint centroids (points : list pt) (rv : list (Z * Z)) (rp : list (nat * nat)) (n : nat) (v : nat)
  : result (list pt) :=
  match n with
  | O => Ok []
  | S n' => match centroid3 points rv rp v with
            | Err e => Err e
            | Ok c => match centroids points rv rp n' (S v) with
                      | Err e => Err e
                      | Ok cs => Ok (c :: cs)
                      end
            end
  end.

(* (scale, vertices) after the optional shift *)
Definition shifted_vertices (shift : bool) (S : Z) (points : list pt) (v : vor) : result (Z * list pt) :=
  if shift then
    match centroids points (ridge_vertices v) (ridge_points v) (length (vertices v)) 0 with
    | Err e => Err e
    | Ok cs => Ok (3 * S, cs)
    end
  else Ok (S, vertices v).

(* ---------- voronization.py:106-123 classification ---------- *)
(* :110 (0 < ridge_vertices) & (ridge_vertices <= 1), np.all over the two coordinates *)
Definition in_unit (S : Z) (p : pt) : bool :=
  (0 <? fst p) && (fst p <=? S) && (0 <? snd p) && (snd p <=? S).
Definition b2n (b : bool) : nat := if b then 1%nat else 0%nat.
(* :109-112 ridges_vertices_in_unit_cell *)
Definition count_in (S : Z) (vs : list pt) (r : Z * Z) : nat :=
  (b2n (in_unit S (py_nth vs (fst r))) + b2n (in_unit S (py_nth vs (snd r))))%nat.
(* :117-119 *)
Definition finite (r : Z * Z) : bool := negb (fst r =? -1) && negb (snd r =? -1).
(* :120-123 inside_ridges (k = 2), crossing_ridges (k = 1), outer_ridges (k = 0), in ridge order *)
Definition select (S : Z) (vs : list pt) (k : nat) (rv : list (Z * Z)) : list (Z * Z) :=
  filter (fun r => (count_in S vs r =? k)%nat && finite r) rv.
Definition to_nat_pair (r : Z * Z) : nat * nat := (Z.to_nat (fst r), Z.to_nat (snd r)).

(* ---------- voronization.py:154-157 KDTree(vor.vertices).query(., k=1) ---------- *)
Definition dist2 (p q : pt) : Z :=
  (fst p - fst q) * (fst p - fst q) + (snd p - snd q) * (snd p - snd q).

(* [bound_of s] is an integer whose square exceeds s: a candidate whose |dx| or |dy| reaches it is farther
   than s and is skipped without computing its distance (pure optimisation; the specification
   "first vertex of minimal squared distance" is Proofs/VoronoiPostFacts.nearest_spec) *)
Definition bound_of (s : Z) : Z := Z.sqrt s + 1.

(* runner-up bookkeeping: (second smallest squared distance seen so far, its bound_of) *)
Definition upd2 (sd : option (Z * Z)) (d : Z) : option (Z * Z) :=
  match sd with
  | None => Some (d, bound_of d)
  | Some (s, rb) => if d <? s then Some (d, bound_of d) else sd
  end.

(* state: index of the best so far, its squared distance, runner-up *)
Fixpoint nearest_go (q : pt) (vs : list pt) (i bi : nat) (bd : Z) (sd : option (Z * Z)) : nat * Z * option (Z * Z) :=
  match vs with
  | [] => (bi, bd, sd)
  | p :: t =>
    if (match sd with
        | Some (_, rb) => (rb <=? Z.abs (fst p - fst q)) || (rb <=? Z.abs (snd p - snd q))
        | None => false
        end)
    then nearest_go q t (S i) bi bd sd
    else
      let d := dist2 p q in
      if d <? bd then nearest_go q t (S i) i d (Some (bd, bound_of bd))
      else nearest_go q t (S i) bi bd (upd2 sd d)
  end.
Definition nearest_info (vs : list pt) (q : pt) : nat * Z * option (Z * Z) :=
  match vs with
  | [] => (0%nat, 0, None)
  | p :: t => nearest_go q t 1 0 (dist2 p q) None
  end.
Definition nearest (vs : list pt) (q : pt) : nat := fst (fst (nearest_info vs q)).
(* (squared distance of the winner, squared distance of the runner-up) : reported to the harness only *)
Definition margin := (Z * option Z)%type.
Definition margin_of (r : nat * Z * option (Z * Z)) : margin :=
  (snd (fst r), match snd r with None => None | Some (s, _) => Some s end).

(* ---------- voronization.py:142-157 crossing ridges ---------- *)
(* :157 crossing_ridge_vertices - np.ceil(crossing_ridge_vertices) + 1 : the image in the cell (0,1]
   (ceil(x) = cell_of x + 1) *)
Definition wrap (S : Z) (p : pt) : pt := (fst p - S * cell_of (fst p) S, snd p - S * cell_of (snd p) S).

Definition edge := ((nat * nat) * pt)%type.    (* (j, k), crossing *)

(* one crossing ridge r (old vertex indices): :143 sort the pair; :149-151 crossing = ceil(hi) - ceil(lo);
   :156 both ends replaced by the nearest vertex to their image in the cell *)
Definition cross_edge_info (S : Z) (vs : list pt) (r : nat * nat) : edge * (margin * margin) :=
  let lo := Nat.min (fst r) (snd r) in
  let hi := Nat.max (fst r) (snd r) in
  let plo := nth lo vs (0, 0) in
  let phi := nth hi vs (0, 0) in
  let a := nearest_info vs (wrap S plo) in
  let b := nearest_info vs (wrap S phi) in
  (((fst (fst a), fst (fst b)),
    (cell_of (fst phi) S - cell_of (fst plo) S, cell_of (snd phi) S - cell_of (snd plo) S)),
   (margin_of a, margin_of b)).
Definition cross_edge (S : Z) (vs : list pt) (r : nat * nat) : edge := fst (cross_edge_info S vs r).

Definition crossing_info (S : Z) (vs : list pt) (rv : list (Z * Z)) : list (edge * (margin * margin)) :=
  map (fun r => cross_edge_info S vs (to_nat_pair r)) (select S vs 1 rv).
Definition crossing_edges (S : Z) (vs : list pt) (rv : list (Z * Z)) : list edge :=
  map fst (crossing_info S vs rv).

(* ---------- voronization.py:159-177 orientation-aware de-duplication ---------- *)
Definition key := (Z * Z * Z * Z)%type.
(* :164-170  idx = argsort(pair); swapped = idx[:,0] (1 iff first > second);
   key = (min, max, crossing * (2*swapped - 1)) *)
Definition edge_key (e : edge) : key :=
  let j := fst (fst e) in
  let k := snd (fst e) in
  let c := snd e in
  if (k <? j)%nat then (Z.of_nat k, Z.of_nat j, fst c, snd c)
  else (Z.of_nat j, Z.of_nat k, - fst c, - snd c).

(* row order of np.unique(axis=0): lexicographic, signed *)
Definition key_cmp (a b : key) : comparison :=
  let '(a1, a2, a3, a4) := a in
  let '(b1, b2, b3, b4) := b in
  match a1 ?= b1 with
  | Eq => match a2 ?= b2 with
          | Eq => match a3 ?= b3 with
                  | Eq => a4 ?= b4
                  | c => c
                  end
          | c => c
          end
  | c => c
  end.

(* :175 np.unique(edge_key, axis=0, return_index=True): rows in increasing key order, each key
   represented by its FIRST occurrence.  Elements are inserted left to right; an equal key is dropped. *)
Fixpoint insert_first {A} (k : key) (x : A) (l : list (key * A)) : list (key * A) :=
  match l with
  | [] => [(k, x)]
  | (k', x') :: t =>
    match key_cmp k k' with
    | Lt => (k, x) :: l
    | Eq => l
    | Gt => (k', x') :: insert_first k x t
    end
  end.
Definition unique_first {A} (l : list (key * A)) : list (key * A) :=
  fold_left (fun acc kx => insert_first (fst kx) (snd kx) acc) l [].

(* :176-177 crossing_ridges[idx], adjacency_crossing[idx] *)
Definition dedup_edges (es : list edge) : list edge :=
  map snd (unique_first (map (fun e => (edge_key e, e)) es)).

(* :187-189 pbc_ridges = inside ++ crossing, crossing flags zeros ++ adjacency_crossing (old indices);
   second component: the tie margins of the nearest-vertex queries (diagnostic) *)
Definition pbc_info (S : Z) (vs : list pt) (rv : list (Z * Z)) : list edge * list (margin * margin) :=
  let info := crossing_info S vs rv in
  (map (fun r => (to_nat_pair r, (0, 0))) (select S vs 2 rv) ++ dedup_edges (map fst info), map snd info).
Definition pbc_edges (S : Z) (vs : list pt) (rv : list (Z * Z)) : list edge := fst (pbc_info S vs rv).

(* ---------- voronization.py:191-199 re-indexing ---------- *)
Definition edge_ends (es : list edge) : list nat := flat_map (fun e => [fst (fst e); snd (fst e)]) es.

Fixpoint pos_in (x : nat) (l : list nat) : nat :=
  match l with
  | [] => O
  | y :: t => if (x =? y)%nat then O else S (pos_in x t)
  end.
Definition memb (x : nat) (l : list nat) : bool := existsb (Nat.eqb x) l.
(* contract of list(set(.)): every element once, exactly the elements of the argument *)
Definition order_ok (order : list nat) (l : list nat) : bool :=
  nodupb order && forallb (fun x => memb x order) l && forallb (fun x => memb x l) order.

(* :193 new_vertices = vor.vertices[indices_to_copy]; :196-199 idx_mapper(pbc_ridges) *)
Definition reindex (vs : list pt) (order : list nat) (es : list edge)
  : result (list pt * list (nat * nat) * list pt) :=
  if order_ok order (edge_ends es) then
    Ok (map (fun i => nth i vs (0, 0)) order,
        map (fun e => (pos_in (fst (fst e)) order, pos_in (snd (fst e)) order)) es,
        map snd es)
  else Err BadOrder.

(* ---------- the whole of voronization.py:82-204 ---------- *)
Definition vor_wf (np : nat) (v : vor) : result unit :=
  if negb (forallb (ridge_wf (length (vertices v))) (ridge_vertices v)) then Err BadRidgeVertex
  else if negb (length (ridge_points v) =? length (ridge_vertices v))%nat then Err BadRidgePoints
  else Ok tt.

(* everything before the set enumeration: (scale, vertices after the optional shift, ridges in old indices
   with their crossings, tie margins) *)
Definition post_stages (shift : bool) (S : Z) (points : list pt) (v : vor)
  : result (Z * list pt * (list edge * list (margin * margin))) :=
  match vor_wf (length points) v with
  | Err e => Err e
  | Ok _ =>
    match shifted_vertices shift S points v with
    | Err e => Err e
    | Ok (S', vs) => Ok (S', vs, pbc_info S' vs (ridge_vertices v))
    end
  end.

(* result: (scale of the positions, positions, edge_indices, edge_crossing) *)
Definition post_process (order_of : list nat -> list nat) (shift : bool) (S : Z) (points : list pt) (v : vor)
  : result (Z * (list pt * list (nat * nat) * list pt)) :=
  match post_stages shift S points v with
  | Err e => Err e
  | Ok (S', vs, (es, _)) =>
    match reindex vs (order_of (edge_ends es)) es with
    | Err e => Err e
    | Ok out => Ok (S', out)
    end
  end.

(* canonical enumeration: increasing old index, so that the new index is the rank *)
Definition post_process_sorted := post_process sorted_nodup.
