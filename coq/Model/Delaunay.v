(* Model/Delaunay.v — exact predicates and certificate checkers for C03
   (voronization.generate_lattice returns the periodic Voronoi tessellation).
   Definitions only (no proofs): lemmas live in Proofs/DelaunayFacts.v.

   Qhull (scipy.spatial.Voronoi, voronization.py:81) and KDTree (voronization.py:152-153) are
   not modelled.  What is modelled is the MEANING of the result: a certificate C (list of
   periodic Delaunay triangles, each with a bounding-box hint for its circumdisc) is checked
   exactly against the seeds ([check_delaunay]) and the implementation's lattice is checked
   exactly against the certificate ([check_dual]).

   Numbers: every float64 seed / vertex coordinate is a dyadic rational; the harness multiplies
   everything by one common power of two [S], so that seeds are integer points of [0,S)^2 and
   the unit cell (0,1]^2 of voronization.py:110 is (0,S]^2.  A *site* is a seed index together
   with an integer cell offset: the periodic image  pts[i] + S*(ox,oy). *)
From Coq Require Import List ZArith Bool Arith QArith.
From Koala Require Import Model.Lattice.
Import ListNotations.
Open Scope Z_scope.

Definition pt := (Z * Z)%type.
Definition site := (nat * pt)%type.                 (* seed index, cell offset *)
Definition tri := (site * site * site)%type.        (* counter-clockwise *)
Definition box := (Z * Z * Z * Z)%type.             (* lox, hix, loy, hiy : hint, verified *)

Definition s_idx (s : site) : nat := fst s.
Definition s_off (s : site) : pt := snd s.
Definition t_a (t : tri) : site := fst (fst t).
Definition t_b (t : tri) : site := snd (fst t).
Definition t_c (t : tri) : site := snd t.

(* generate_point_array (voronization.py:26-38): points + dxdy *)
Definition site_pos (S : Z) (pts : list pt) (s : site) : pt :=
  let p := nth (s_idx s) pts (0, 0) in
  (fst p + S * fst (s_off s), snd p + S * snd (s_off s)).

(* ---------- exact predicates ---------- *)
(* twice the signed area of a b c; > 0 iff counter-clockwise *)
Definition orient2d (a b c : pt) : Z :=
  (fst b - fst a) * (snd c - snd a) - (snd b - snd a) * (fst c - fst a).

(* Shewchuk's in-circle determinant | a-d |a-d|^2 ; b-d |b-d|^2 ; c-d |c-d|^2 | *)
Definition incircle (a b c d : pt) : Z :=
  let adx := fst a - fst d in let ady := snd a - snd d in
  let bdx := fst b - fst d in let bdy := snd b - snd d in
  let cdx := fst c - fst d in let cdy := snd c - snd d in
  let ad2 := adx * adx + ady * ady in
  let bd2 := bdx * bdx + bdy * bdy in
  let cd2 := cdx * cdx + cdy * cdy in
  adx * (bdy * cd2 - bd2 * cdy) - ady * (bdx * cd2 - bd2 * cdx) + ad2 * (bdx * cdy - bdy * cdx).

(* circumcentre = a + cc_off a b c / (2 * orient2d a b c) *)
Definition cc_off (a b c : pt) : pt :=
  let Ax := fst b - fst a in let Ay := snd b - snd a in
  let Bx := fst c - fst a in let By := snd c - snd a in
  let A2 := Ax * Ax + Ay * Ay in let B2 := Bx * Bx + By * By in
  (A2 * By - B2 * Ay, B2 * Ax - A2 * Bx).
Definition cc_r2num (a b c : pt) : Z :=           (* (2*orient)^2 * R^2 *)
  let u := cc_off a b c in fst u * fst u + snd u * snd u.

(* the circumcentre as a pair of rationals (meaningful when orient2d a b c > 0) *)
Definition circumcentre (a b c : pt) : Q * Q :=
  let o2 := 2 * orient2d a b c in
  let u := cc_off a b c in
  (Qmake (o2 * fst a + fst u) (Z.to_pos o2), Qmake (o2 * snd a + snd u) (Z.to_pos o2)).
Definition qdist2 (p q : Q * Q) : Q :=
  ((fst p - fst q) * (fst p - fst q) + (snd p - snd q) * (snd p - snd q))%Q.
Definition qpt (p : pt) : Q * Q := (inject_Z (fst p), inject_Z (snd p)).

(* the cell (k such that k < x <= k+1, voronization.py:110 "(0 < v) & (v <= 1)") of the
   rational n/m, m > 0 :  ceil(n/m) - 1 = floor((n-1)/m) *)
Definition cell_of (n m : Z) : Z := (n - 1) / m.

(* ---------- ranges ---------- *)
Fixpoint zrange (lo : Z) (n : nat) : list Z :=
  match n with O => [] | S k => lo :: zrange (lo + 1) k end.
Definition window (w : Z) : list Z := zrange (- w) (Z.to_nat (2 * w + 1)).

(* ---------- check_delaunay ---------- *)
Definition tri_pts (S : Z) (pts : list pt) (t : tri) : pt * pt * pt :=
  (site_pos S pts (t_a t), site_pos S pts (t_b t), site_pos S pts (t_c t)).

(* the hint box contains the circumdisc: with o2 = 2*orient > 0 and u = cc_off,
   the centre is a + u/o2 and R^2 = |u|^2/o2^2 *)
Definition box_ok (a b c : pt) (bx : box) : bool :=
  let '(lox, hix, loy, hiy) := bx in
  let o2 := 2 * orient2d a b c in
  let u := cc_off a b c in
  let r2 := cc_r2num a b c in
  let hx := o2 * (hix - fst a) - fst u in
  let lx := fst u - o2 * (lox - fst a) in
  let hy := o2 * (hiy - snd a) - snd u in
  let ly := snd u - o2 * (loy - snd a) in
  (0 <=? hx) && (r2 <=? hx * hx) && (0 <=? lx) && (r2 <=? lx * lx) &&
  (0 <=? hy) && (r2 <=? hy * hy) && (0 <=? ly) && (r2 <=? ly * ly).

(* every image outside the window of offsets -w..w lies outside the box
   (seeds are in [0,S)^2) *)
Definition box_in_window (S w : Z) (bx : box) : bool :=
  let '(lox, hix, loy, hiy) := bx in
  (- w * S <=? lox) && (hix <? (w + 1) * S) && (- w * S <=? loy) && (hiy <? (w + 1) * S).

Definition x_out (bx : box) (x : Z) : bool :=
  let '(lox, hix, loy, hiy) := bx in (x <? lox) || (hix <? x).
Definition y_out (bx : box) (y : Z) : bool :=
  let '(lox, hix, loy, hiy) := bx in (y <? loy) || (hiy <? y).

(* no image of seed p at offsets in the window lies strictly inside the circumdisc *)
Definition seed_ok (S w : Z) (a b c : pt) (bx : box) (p : pt) : bool :=
  forallb (fun ox =>
    let x := fst p + S * ox in
    x_out bx x ||
    forallb (fun oy =>
      let y := snd p + S * oy in
      y_out bx y || (incircle a b c (x, y) <=? 0)) (window w)) (window w).

Definition site_wf (n : nat) (s : site) : bool := (s_idx s <? n)%nat.

Definition tri_ok (S w : Z) (pts : list pt) (tb : tri * box) : bool :=
  let '(t, bx) := tb in
  let '(a, b, c) := tri_pts S pts t in
  site_wf (length pts) (t_a t) && site_wf (length pts) (t_b t) && site_wf (length pts) (t_c t) &&
  (0 <? orient2d a b c) && box_ok a b c bx && box_in_window S w bx &&
  forallb (seed_ok S w a b c bx) pts.

(* directed side  i -> j  modulo translation: (i, j, off_j - off_i) *)
Definition skey := (nat * nat * pt)%type.
Definition mk_skey (p q : site) : skey :=
  (s_idx p, s_idx q, (fst (s_off q) - fst (s_off p), snd (s_off q) - snd (s_off p))).
Definition skey_rev (k : skey) : skey :=
  let '(i, j, d) := k in (j, i, (- fst d, - snd d)).
Definition pt_eqb (p q : pt) : bool := (fst p =? fst q) && (snd p =? snd q).
Definition skey_eqb (k l : skey) : bool :=
  (fst (fst k) =? fst (fst l))%nat && (snd (fst k) =? snd (fst l))%nat && pt_eqb (snd k) (snd l).
Definition tri_sides (t : tri) : list skey :=
  [mk_skey (t_a t) (t_b t); mk_skey (t_b t) (t_c t); mk_skey (t_c t) (t_a t)].
Definition all_sides (C : list (tri * box)) : list skey := flat_map (fun tb => tri_sides (fst tb)) C.

Fixpoint nodup_by {A} (eqb : A -> A -> bool) (l : list A) : bool :=
  match l with
  | [] => true
  | x :: r => negb (existsb (eqb x) r) && nodup_by eqb r
  end.

(* each side is used by exactly one triangle in each direction *)
Definition sides_paired (C : list (tri * box)) : bool :=
  let ss := all_sides C in
  nodup_by skey_eqb ss && forallb (fun k => existsb (skey_eqb (skey_rev k)) ss) ss.

Definition area2_sum (S : Z) (pts : list pt) (C : list (tri * box)) : Z :=
  fold_right Z.add 0 (map (fun tb => let '(a, b, c) := tri_pts S pts (fst tb) in orient2d a b c) C).

Definition pts_in_cell (S : Z) (pts : list pt) : bool :=
  forallb (fun p => (0 <=? fst p) && (fst p <? S) && (0 <=? snd p) && (snd p <? S)) pts.

Definition check_delaunay (S w : Z) (pts : list pt) (C : list (tri * box)) : bool :=
  (0 <? S) && (0 <=? w) && pts_in_cell S pts &&
  forallb (tri_ok S w pts) C &&
  sides_paired C &&
  (length C =? 2 * length pts)%nat &&
  (area2_sum S pts C =? 2 * S * S).

(* largest empty circle: every circumradius <= (num/den) in units of the cell *)
Definition dense_ok (S num den : Z) (pts : list pt) (C : list (tri * box)) : bool :=
  forallb (fun tb =>
    let '(a, b, c) := tri_pts S pts (fst tb) in
    let o2 := 2 * orient2d a b c in
    (cc_r2num a b c * (den * den) <=? o2 * o2 * (S * S) * (num * num))) C.

(* ---------- check_dual ---------- *)
(* the reference point of a triangle: circumcentre (shift_vertices=False) or centroid
   (voronization.py:84-104) as numerator pair over a common positive denominator *)
Definition ref_point (shift : bool) (a b c : pt) : pt * Z :=
  if shift then ((fst a + fst b + fst c, snd a + snd b + snd c), 3)
  else let o2 := 2 * orient2d a b c in
       let u := cc_off a b c in ((o2 * fst a + fst u, o2 * snd a + snd u), o2).

(* voronization.py:109-112  0 < v <= 1 in both coordinates *)
Definition in_cell (S : Z) (r : pt * Z) : bool :=
  let '((nx, ny), m) := r in
  (0 <? m) && (0 <? nx) && (nx <=? m * S) && (0 <? ny) && (ny <=? m * S).

Definition pos_close (tolS : Z) (p : pt) (r : pt * Z) : bool :=
  let '((nx, ny), m) := r in
  (Z.abs (m * fst p - nx) <=? m * tolS) && (Z.abs (m * snd p - ny) <=? m * tolS).

Definition nth_tri (C : list (tri * box)) (i : nat) : tri :=
  fst (nth i C (((0%nat, (0, 0)), (0%nat, (0, 0)), (0%nat, (0, 0))), (0, 0, 0, 0))).

Definition tri_side (t : tri) (s : nat) : site * site :=
  match s with
  | O => (t_a t, t_b t)
  | S O => (t_b t, t_c t)
  | _ => (t_c t, t_a t)
  end.

(* side s of t (p -> q) and side s' of t' (q' -> p'), with t' translated by the crossing cr:
   same seeds and  off p' + cr = off p,  off q' + cr = off q *)
Definition site_shift_eqb (p p' : site) (cr : pt) : bool :=
  (s_idx p =? s_idx p')%nat &&
  (fst (s_off p') + fst cr =? fst (s_off p)) && (snd (s_off p') + snd cr =? snd (s_off p)).
Definition sides_match (t t' : tri) (cr : pt) (s s' : nat) : bool :=
  let '(p, q) := tri_side t s in
  let '(q', p') := tri_side t' s' in
  site_shift_eqb p p' cr && site_shift_eqb q q' cr.

Definition side_pairs : list (nat * nat) :=
  [(0, 0); (0, 1); (0, 2); (1, 0); (1, 1); (1, 2); (2, 0); (2, 1); (2, 2)]%nat.

Definition find_match (t t' : tri) (cr : pt) : option (nat * nat) :=
  find (fun ss => sides_match t t' cr (fst ss) (snd ss)) side_pairs.

(* the (triangle, side) slots used by the edges of L; None when an edge joins two
   triangles that do not share a side with offset = crossing *)
Definition natpair_eqb (a b : nat * nat) : bool := (fst a =? fst b)%nat && (snd a =? snd b)%nat.
Fixpoint used_sides (C : list (tri * box)) (vt : list nat) (es : list (nat * nat)) (crs : list pt)
  : option (list (nat * nat)) :=
  match es, crs with
  | [], _ => Some []
  | (u, v) :: es', cr :: crs' =>
    let tu := nth u vt 0%nat in let tv := nth v vt 0%nat in
    match find_match (nth_tri C tu) (nth_tri C tv) cr, used_sides C vt es' crs' with
    | Some (s, s'), Some r => Some ((tu, s) :: (tv, s') :: r)
    | _, _ => None
    end
  | _ :: _, [] => None
  end.

Definition check_dual (S tolS : Z) (shift : bool) (pts : list pt) (C : list (tri * box))
           (L : lattice) (vt : list nat) : bool :=
  wf_lattice L && (scale L =? S) &&
  (length vt =? nV L)%nat && (nV L =? length C)%nat &&
  forallb (fun i => (i <? length C)%nat) vt && nodupb vt &&
  forallb (fun tb => let '(a, b, c) := tri_pts S pts (fst tb) in
                     (0 <? orient2d a b c) && in_cell S (ref_point shift a b c)) C &&
  forallb (fun vi => let '(a, b, c) := tri_pts S pts (nth_tri C (snd vi)) in
                     pos_close tolS (fst vi) (ref_point shift a b c)) (combine (pos L) vt) &&
  (2 * nE L =? 3 * length C)%nat &&
  match used_sides C vt (edges L) (crossing L) with
  | None => false
  | Some us => nodup_by natpair_eqb us
  end.
