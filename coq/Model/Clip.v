(* Model/Clip.v — exact geometry over Q used by the C16 spec checker and theorems.
   Definitions only (no proofs).

   * segments in the parametrisation of koala/plotting.py:423
       point(t) = start*t + (1-t)*end            (t = 1 at start, t = 0 at end)
   * Liang–Barsky: the parameter interval of a segment inside the CLOSED unit square
   * Sutherland–Hodgman clipping of a polygon against the unit square, shoelace area. *)
From Coq Require Import List ZArith QArith Bool Qminmax.
Import ListNotations.
Open Scope Q_scope.

Definition point := (Q * Q)%type.
Definition seg := (point * point)%type.      (* (lines[i,0,:], lines[i,1,:]) = (start, end) *)
Definition px (p : point) : Q := fst p.
Definition py (p : point) : Q := snd p.
Definition seg_start (s : seg) : point := fst s.
Definition seg_end (s : seg) : point := snd s.

Definition Qltb (a b : Q) : bool := negb (Qle_bool b a).
Definition Qleb (a b : Q) : bool := Qle_bool a b.
Definition Qeqb (a b : Q) : bool := Qeq_bool a b.

(* plotting.py:423 / 458   start*t + (1-t)*end *)
Definition lerp (a b t : Q) : Q := a * t + (1 - t) * b.
Definition seg_point (s : seg) (t : Q) : point :=
  (lerp (px (seg_start s)) (px (seg_end s)) t, lerp (py (seg_start s)) (py (seg_end s)) t).

Definition padd (p : point) (d : point) : point := (px p + px d, py p + py d).
Definition seg_translate (s : seg) (d : point) : seg := (padd (seg_start s) d, padd (seg_end s) d).

Definition in_unit_square (p : point) : Prop :=
  0 <= px p /\ px p <= 1 /\ 0 <= py p /\ py p <= 1.
Definition in_unit_squareb (p : point) : bool :=
  Qleb 0 (px p) && Qleb (px p) 1 && Qleb 0 (py p) && Qleb (py p) 1.

(* ---------- Liang–Barsky on one coordinate:  c(t) = a*t + (1-t)*b = b + t*(a-b) ---------- *)
(* smallest / largest t (unclamped) with 0 <= c(t) <= 1; meaningful when axis_ok *)
Definition axis_lo (a b : Q) : Q :=
  let d := a - b in
  if Qltb 0 d then (0 - b) / d else if Qltb d 0 then (1 - b) / d else 0.
Definition axis_hi (a b : Q) : Q :=
  let d := a - b in
  if Qltb 0 d then (1 - b) / d else if Qltb d 0 then (0 - b) / d else 1.
(* constant coordinate: inside the strip or never *)
Definition axis_ok (a b : Q) : bool :=
  if Qeqb (a - b) 0 then Qleb 0 b && Qleb b 1 else true.

(* parameter interval [lo,hi] (in the code's t) of the part of the segment inside the
   closed unit square, None when the segment misses the square *)
Definition clip_interval (s : seg) : option (Q * Q) :=
  let xs := px (seg_start s) in let xe := px (seg_end s) in
  let ys := py (seg_start s) in let ye := py (seg_end s) in
  if axis_ok xs xe && axis_ok ys ye then
    let lo := Qmax 0 (Qmax (axis_lo xs xe) (axis_lo ys ye)) in
    let hi := Qmin 1 (Qmin (axis_hi xs xe) (axis_hi ys ye)) in
    if Qleb lo hi then Some (lo, hi) else None
  else None.

(* fraction of the segment inside the closed cell *)
Definition clip_len (s : seg) : Q :=
  match clip_interval s with Some (lo, hi) => hi - lo | None => 0 end.

(* two parameter intervals share more than one point *)
Definition intervals_overlap (i j : Q * Q) : bool :=
  Qltb (Qmax (fst i) (fst j)) (Qmin (snd i) (snd j)).
(* length of the common part (negative or zero: none) *)
Definition overlap_len (i j : Q * Q) : Q :=
  Qmin (snd i) (snd j) - Qmax (fst i) (fst j).

(* ---------- Sutherland–Hodgman against the unit square ---------- *)
Definition polygon := list point.

(* half-plane  coord >= v  (ge = true)  or  coord <= v  (ge = false); xaxis selects x or y *)
Definition coord (xaxis : bool) (p : point) : Q := if xaxis then px p else py p.
Definition hp_inside (xaxis : bool) (v : Q) (ge : bool) (p : point) : bool :=
  if ge then Qleb v (coord xaxis p) else Qleb (coord xaxis p) v.
Definition hp_intersect (xaxis : bool) (v : Q) (p q : point) : point :=
  let t := (v - coord xaxis p) / (coord xaxis q - coord xaxis p) in
  (Qred (px p + t * (px q - px p)), Qred (py p + t * (py q - py p))).

Fixpoint sh_step (xaxis : bool) (v : Q) (ge : bool) (prev : point) (l : list point) : list point :=
  match l with
  | [] => []
  | cur :: r =>
    (if hp_inside xaxis v ge cur
     then (if hp_inside xaxis v ge prev then [cur] else [hp_intersect xaxis v prev cur; cur])
     else (if hp_inside xaxis v ge prev then [hp_intersect xaxis v prev cur] else []))
    ++ sh_step xaxis v ge cur r
  end.
Definition sh_clip1 (xaxis : bool) (v : Q) (ge : bool) (poly : polygon) : polygon :=
  match poly with
  | [] => []
  | _ => sh_step xaxis v ge (last poly (0, 0)) poly
  end.
Definition clip_polygon (poly : polygon) : polygon :=
  sh_clip1 false 1 false (sh_clip1 false 0 true (sh_clip1 true 1 false (sh_clip1 true 0 true poly))).

(* shoelace: twice the signed area *)
Fixpoint shoelace_from (first prev : point) (l : list point) : Q :=
  match l with
  | [] => px prev * py first - px first * py prev
  | cur :: r => (px prev * py cur - px cur * py prev) + shoelace_from first cur r
  end.
Definition area2 (poly : polygon) : Q :=
  match poly with
  | [] => 0
  | p :: r => Qred (shoelace_from p p r)
  end.
Definition clipped_area2 (poly : polygon) : Q := area2 (clip_polygon poly).
Definition ptranslate (poly : polygon) (d : point) : polygon := map (fun p => padd p d) poly.

(* convexity (all turns of one sign, zero turns allowed) *)
Definition cross3 (a b c : point) : Q :=
  (px b - px a) * (py c - py b) - (py b - py a) * (px c - px b).
Fixpoint turns (l : list point) : list Q :=
  match l with
  | a :: ((b :: c :: _) as r) => cross3 a b c :: turns r
  | _ => []
  end.
Definition convexb (poly : polygon) : bool :=
  match poly with
  | a :: b :: _ =>
    let ts := turns (poly ++ [a; b]) in
    forallb (fun t => Qleb 0 t) ts || forallb (fun t => Qleb t 0) ts
  | _ => true
  end.

(* clip a (possibly non-convex) subject polygon against a CONVEX, counter-clockwise or
   clockwise polygon [c] edge by edge: half-plane to the left (ccw) / right (cw) of each edge *)
Definition side (a b p : point) : Q :=
  (px b - px a) * (py p - py a) - (py b - py a) * (px p - px a).
Definition gen_intersect (a b p q : point) : point :=
  let sp := side a b p in let sq := side a b q in
  let t := sp / (sp - sq) in
  (Qred (px p + t * (px q - px p)), Qred (py p + t * (py q - py p))).
Fixpoint gsh_step (ccw : bool) (a b : point) (prev : point) (l : list point) : list point :=
  let ins := fun p => if ccw then Qleb 0 (side a b p) else Qleb (side a b p) 0 in
  match l with
  | [] => []
  | cur :: r =>
    (if ins cur
     then (if ins prev then [cur] else [gen_intersect a b prev cur; cur])
     else (if ins prev then [gen_intersect a b prev cur] else []))
    ++ gsh_step ccw a b cur r
  end.
Definition gsh_clip1 (ccw : bool) (a b : point) (poly : polygon) : polygon :=
  match poly with [] => [] | _ => gsh_step ccw a b (last poly (0, 0)) poly end.
Fixpoint gsh_edges (ccw : bool) (first prev : point) (l : list point) (poly : polygon) : polygon :=
  match l with
  | [] => gsh_clip1 ccw prev first poly
  | cur :: r => gsh_edges ccw first cur r (gsh_clip1 ccw prev cur poly)
  end.
(* twice the area of  subject ∩ c ∩ unit square  (c convex) *)
Definition overlap_area2_in_cell (subject c : polygon) : Q :=
  match c with
  | [] => 0
  | p :: r =>
    let ccw := Qleb 0 (area2 c) in
    area2 (clip_polygon (gsh_edges ccw p p r subject))
  end.
