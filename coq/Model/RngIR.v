(* Model/RngIR.v — the small IR written by translate/rng_use.py (coq/Gen/RngUse.v) and the policy
   "uses only the supplied rng" (C19, last sentence of the property).  Definitions only.

   For every top-level function of koala/pointsets.py the translator lists EVERY call whose
   receiver is either the global numpy random module ([np.random.<meth>(...)]) or the function's
   [rng] parameter ([rng.<meth>(...)]), including calls made inside nested helper functions.  It
   fails closed (raises) on anything through which the global generator could be reached in another
   way: other imports, [np.random] used other than as the receiver of a direct call, [rng] rebound
   or used other than as a call receiver / in [rng is None], unknown names (getattr, eval, ...).

   A call on the global module is admissible only if it is [np.random.default_rng(...)] lexically
   inside the body of [if rng is None:] — that creates a fresh, OS-seeded generator; it neither
   reads nor advances the global legacy state, and it is not executed when a generator is supplied. *)
From Coq Require Import List String Bool.
Import ListNotations.
Open Scope string_scope.

Inductive receiver := GlobalNpRandom | RngParam.

Record rcall := mkCall {
  c_recv : receiver;
  c_meth : string;          (* attribute called on the receiver *)
  c_guarded : bool;         (* lexically inside  if rng is None:  *)
  c_line : nat              (* source line (information only) *)
}.

Record fn_use := mkFn {
  f_name : string;
  f_has_rng_param : bool;   (* the function takes a parameter called rng *)
  f_calls : list rcall
}.

Definition call_ok (c : rcall) : bool :=
  match c_recv c with
  | RngParam => true
  | GlobalNpRandom => String.eqb (c_meth c) "default_rng" && c_guarded c
  end.

Definition fn_ok (f : fn_use) : bool := f_has_rng_param f && forallb call_ok (f_calls f).

Definition mentions (name : string) (fs : list fn_use) : bool :=
  existsb (fun f => String.eqb (f_name f) name) fs.

(* every function of the file obeys the policy, and the three generators of the property are there *)
Definition uses_only_supplied_rng (fs : list fn_use) : bool :=
  forallb fn_ok fs && mentions "bluenoise" fs && mentions "hyperuniform" fs && mentions "uniform" fs.

(* a function that draws at all from the supplied generator (non-vacuity: the lists are not empty) *)
Definition draws_from_rng (f : fn_use) : bool :=
  existsb (fun c => match c_recv c with RngParam => true | _ => false end) (f_calls f).
