(* Model/Tiling.v — executable model of example_graphs.tile_unit_cell (example_graphs.py:488-549)
   over the GENERATED scalar helpers py_next_cell_number / py_crossing (Gen/TilingGen.v, written by
   translate/tiling_helpers.py from the Python source on every run).  Definitions only.

   Numbers: unit-cell positions are float64 = dyadic rationals; the harness multiplies them by one
   common power of two [uc_scale].  A tiled site is ((px + h*S)/(S*nx), (py + v*S)/(S*ny)); the model
   keeps the numerators ([tile_sites]) and, for the shared lattice model, puts both coordinates over
   the common denominator S*nx*ny ([tile_lattice]). *)
From Coq Require Import List ZArith Bool Arith.
From Koala Require Import Gen.TilingGen Model.Lattice.
Import ListNotations.
Open Scope Z_scope.

(* np.arange(n) *)
Definition zrange (n : Z) : list Z := map Z.of_nat (seq 0 (Z.to_nat n)).
Definition znth {A} (i : Z) (l : list A) (d : A) : A := nth (Z.to_nat i) l d.
Definition zlen {A} (l : list A) : Z := Z.of_nat (length l).

(* a lattice with integer (Z) vertex indices, as the numpy code computes them *)
Record zlattice := mkZL {
  z_scale : Z;
  z_pos : list (Z * Z);
  z_edges : list (Z * Z);
  z_crossing : list (Z * Z)
}.
Definition to_lattice (L : zlattice) : lattice :=
  mkLattice (z_scale L) (z_pos L)
            (map (fun e => (Z.to_nat (fst e), Z.to_nat (snd e))) (z_edges L))
            (z_crossing L).

Record unit_cell := mkCell {
  uc_scale : Z;                   (* positions are uc_points / uc_scale *)
  uc_points : list (Z * Z);
  uc_edges : list (Z * Z);
  uc_crossing : list (Z * Z)
}.
Definition n_sites (c : unit_cell) : Z := zlen (uc_points c).
Definition n_uedges (c : unit_cell) : Z := zlen (uc_edges c).

(* example_graphs.py:537-547, one (n_position, n_edge) iteration:
     all_edges[n_index] = [edge[0] + n_position*n_internal_sites,
                           edge[1] + n_internal_sites*_next_cell_number(nx, ny, n_position, crossing)]
     all_crossings[n_index] = _crossing(nx, ny, n_position, crossing) *)
Definition tile_edge (nx ny ns n_position : Z) (ec : (Z * Z) * (Z * Z)) : Z * Z :=
  (fst (fst ec) + n_position * ns,
   snd (fst ec) + ns * py_next_cell_number nx ny n_position (snd ec)).
Definition tile_cross (nx ny n_position : Z) (ec : (Z * Z) * (Z * Z)) : Z * Z :=
  py_crossing nx ny n_position (snd ec).

(* the double loop; n_index = n_position*n_internal_edges + n_edge is the position in the
   concatenation.  zip(unit_edges, unit_crossing) = combine *)
Definition tile_edges (c : unit_cell) (nx ny : Z) : list (Z * Z) :=
  flat_map (fun n => map (tile_edge nx ny (n_sites c) n) (combine (uc_edges c) (uc_crossing c)))
           (zrange (nx * ny)).
Definition tile_crossings (c : unit_cell) (nx ny : Z) : list (Z * Z) :=
  flat_map (fun n => map (tile_cross nx ny n) (combine (uc_edges c) (uc_crossing c)))
           (zrange (nx * ny)).

(* example_graphs.py:518-530: cell number n (np.meshgrid(x_steps, y_steps) flattened) has the shift
   (h, v) = (n mod nx, n / nx); all_sites = concat [unit_points + (h, v)] / (nx, ny).
   Numerators: x over uc_scale*nx, y over uc_scale*ny. *)
Definition tile_site (c : unit_cell) (nx : Z) (n : Z) (p : Z * Z) : Z * Z :=
  (fst p + (n mod nx) * uc_scale c, snd p + (n / nx) * uc_scale c).
Definition tile_sites (c : unit_cell) (nx ny : Z) : list (Z * Z) :=
  flat_map (fun n => map (tile_site c nx n) (uc_points c)) (zrange (nx * ny)).

Definition tile_unit_cell (c : unit_cell) (nx ny : Z) : zlattice :=
  mkZL (uc_scale c * nx * ny)
       (map (fun p => (fst p * ny, snd p * nx)) (tile_sites c nx ny))
       (tile_edges c nx ny)
       (tile_crossings c nx ny).
Definition tile_lattice (c : unit_cell) (nx ny : Z) : lattice := to_lattice (tile_unit_cell c nx ny).

(* the colouring the generators return next to a tiling: the cell's colouring repeated per cell
   (example_graphs.py:440  np.array([1,2,0,1,2,0] * nx * ny)) *)
Definition tile_coloring (col : list Z) (nx ny : Z) : list Z :=
  flat_map (fun _ => col) (zrange (nx * ny)).

(* ---------- boolean well-formedness / spec predicates (run on the implementation by S) ---------- *)
Definition small_crossing (x : Z * Z) : bool :=
  (-1 <=? fst x) && (fst x <=? 1) && (-1 <=? snd x) && (snd x <=? 1).
Definition wf_cell (c : unit_cell) : bool :=
  (0 <? uc_scale c) && (length (uc_edges c) =? length (uc_crossing c))%nat
  && forallb small_crossing (uc_crossing c)
  && forallb (fun e => (0 <=? fst e) && (fst e <? n_sites c) && (0 <=? snd e) && (snd e <? n_sites c)) (uc_edges c).

(* colours of the edge ends meeting at vertex v *)
Definition incident_colors (es : list (Z * Z)) (col : list Z) (v : Z) : list Z :=
  flat_map (fun ec : (Z * Z) * Z =>
              (if fst (fst ec) =? v then [snd ec] else []) ++ (if snd (fst ec) =? v then [snd ec] else []))
           (combine es col).
Fixpoint znodup (l : list Z) : bool :=
  match l with
  | [] => true
  | x :: r => negb (existsb (Z.eqb x) r) && znodup r
  end.
(* proper 3-edge-colouring: one colour per edge, colours in {0,1,2}, no two edge ends at a vertex
   share a colour (a self-loop contributes its colour twice, hence is never properly coloured) *)
Definition proper_coloring (nv : Z) (es : list (Z * Z)) (col : list Z) : bool :=
  (length col =? length es)%nat
  && forallb (fun c => (0 <=? c) && (c <=? 2)) col
  && forallb (fun v => znodup (incident_colors es col v)) (zrange nv).

Definition zdegree (es : list (Z * Z)) (v : Z) : Z :=
  fold_right (fun e acc => b2z (fst e =? v) + b2z (snd e =? v) + acc) 0 es.

(* ---------- census of a lattice through the shared plaquette finder ---------- *)
Definition count_sides (ps : list plaquette) (k : nat) : nat :=
  length (filter (fun p => (n_sides p =? k)%nat) ps).
Definition two_sided (L : lattice) (ps : list plaquette) : bool :=
  forallb (fun r : ep_row => match r with (Some a, Some b) => true | _ => false end)
          (edges_plaquettes L ps).
Definition area2_sum (ps : list plaquette) : Z := fold_right Z.add 0 (map p_area2 ps).

(* "closed periodic tiling of the unit torus by exactly the polygons of [census]":
   the plaquette finder succeeds; for every (k, c) in census there are exactly c plaquettes with k
   sides and there are no other plaquettes; twice the areas sum to 2*scale^2 (area 1); every edge has
   a plaquette on both sides; V - E + F = 0 *)
Definition closed_tiling (L : lattice) (census : list (nat * nat)) : bool :=
  match find_all_plaquettes L with
  | None => false
  | Some ps =>
    forallb (fun kc => (count_sides ps (fst kc) =? snd kc)%nat) census
    && (length ps =? fold_right Nat.add 0%nat (map snd census))%nat
    && (area2_sum ps =? 2 * scale L * scale L)
    && two_sided L ps
    && (nV L + length ps =? nE L)%nat
  end.
(* the plaquette census of an open (non-periodic) helper graph: exactly these polygons, all of
   positive area *)
Definition open_census (L : lattice) (census : list (nat * nat)) : bool :=
  match find_all_plaquettes L with
  | None => false
  | Some ps =>
    forallb (fun kc => (count_sides ps (fst kc) =? snd kc)%nat) census
    && (length ps =? fold_right Nat.add 0%nat (map snd census))%nat
    && forallb (fun p => 0 <? p_area2 p) ps
  end.
Definition all_degree (L : lattice) (d : nat) : bool :=
  forallb (fun x => (x =? d)%nat) (coordination L).
