(* Model/Bloch.v — executable model of koala/phase_space.py (k_hamiltonian_generator, the functionals
   of analyse_hk / gap_over_phase_space) and of hamiltonian.majorana_hamiltonian, with FORMAL phases:
   the Bloch matrix is a function of (wx, wy) = (e^{i kx}, e^{i ky}) over any ring.  Definitions only.

   phase_space.py:30-38 (after fix b8fbd8d: np.add.at ACCUMULATES parallel edges)
       hoppings = 0.5j * j_vals * ujk * exp(1j * (cross . k))
       H[k_e, j_e] += hoppings_e ;  H[j_e, k_e] += conj(hoppings_e)
   hamiltonian.py:62-72
       ham[k_e, j_e] += 2 J u ; ham[j_e, k_e] -= 2 J u ; ham *= 1j/4
   With t_e = 0.5i J_e u_e and tb_e = conj t_e = -0.5i J_e u_e both are "bond sums". *)
From Coq Require Import List ZArith Bool Arith QArith Qabs.
From Koala Require Import Gen.TilingGen Model.Lattice Model.Tiling.
Import ListNotations.
Open Scope Z_scope.

Section BondSum.
  Variable R : Type.
  Variables (rO rI : R) (radd rmul : R -> R -> R).

  Definition rsum (l : list R) : R := fold_right radd rO l.
  Fixpoint rpow (x : R) (n : nat) : R := match n with O => rI | S m => rmul x (rpow x m) end.
  (* w^c for an integer exponent, wi being the inverse of w *)
  Definition zpow (w wi : R) (c : Z) : R :=
    match c with
    | Z0 => rI
    | Zpos p => rpow w (Pos.to_nat p)
    | Zneg p => rpow wi (Pos.to_nat p)
    end.
  (* e^{i k.c} = wx^cx * wy^cy *)
  Definition phase (wx wxi wy wyi : R) (c : Z * Z) : R :=
    rmul (zpow wx wxi (fst c)) (zpow wy wyi (snd c)).

  (* one bond (j,k) with weight t at [k,j] and tb at [j,k] *)
  Definition bond_term (a b : Z) (e : (Z * Z) * (R * R)) : R :=
    radd (if (a =? snd (fst e)) && (b =? fst (fst e)) then fst (snd e) else rO)
         (if (a =? fst (fst e)) && (b =? snd (fst e)) then snd (snd e) else rO).
  (* entry [a,b] of the matrix that accumulates all bonds *)
  Definition bond_sum (es : list (Z * Z)) (t tb : list R) (a b : Z) : R :=
    rsum (map (bond_term a b) (combine es (combine t tb))).

  (* real-space Majorana Hamiltonian entry *)
  Definition ham_entry (es : list (Z * Z)) (t tb : list R) (a b : Z) : R := bond_sum es t tb a b.

  (* Bloch Hamiltonian entry at formal phases: t_e * w^{c_e} at [k,j], tb_e * w^{-c_e} at [j,k] *)
  Definition hk_weights (wx wxi wy wyi : R) (t : list R) (cr : list (Z * Z)) : list R :=
    map (fun tc : R * (Z * Z) => rmul (fst tc) (phase wx wxi wy wyi (snd tc))) (combine t cr).
  Definition negc (c : Z * Z) : Z * Z := (- fst c, - snd c).
  Definition hk_entry (es cr : list (Z * Z)) (t tb : list R) (wx wxi wy wyi : R) (a b : Z) : R :=
    bond_sum es (hk_weights wx wxi wy wyi t cr) (hk_weights wx wxi wy wyi tb (map negc cr)) a b.

  (* matrix product entry (A . B)[a, c] = sum_{b in 0..n-1} A[a,b] * B[b,c] *)
  Definition mat_mul (n : Z) (A B : Z -> Z -> R) (a c : Z) : R :=
    rsum (map (fun b => rmul (A a b) (B b c)) (zrange n)).

  (* Bloch wave matrix  Phi[(m, s), s'] = delta_{s s'} * wx^{m mod nx} * wy^{m / nx},
     row index m*ns + s  (cell m = my*nx + mx, site s) *)
  Definition bloch_phi (nx ns : Z) (wx wy : R) (row s' : Z) : R :=
    if row mod ns =? s' then rmul (rpow wx (Z.to_nat ((row / ns) mod nx))) (rpow wy (Z.to_nat ((row / ns) / nx)))
    else rO.
  (* weights of the tiled system: the cell's weights repeated per cell *)
  Definition tile_weights (t : list R) (nx ny : Z) : list R := flat_map (fun _ => t) (zrange (nx * ny)).
End BondSum.

(* ---------- Gaussian integers Z[i] (pairs re, im) — the instance run against the implementation at
   w in {1, i, -1, -i} ---------- *)
Definition gz := (Z * Z)%type.
Definition gadd (x y : gz) : gz := (fst x + fst y, snd x + snd y).
Definition gmul (x y : gz) : gz := (fst x * fst y - snd x * snd y, fst x * snd y + snd x * fst y).
Definition gconj (x : gz) : gz := (fst x, - snd x).
Definition g0 : gz := (0, 0).
Definition g1 : gz := (1, 0).
(* i^a *)
Definition gi_pow (a : Z) : gz :=
  match a mod 4 with 0 => (1, 0) | 1 => (0, 1) | 2 => (-1, 0) | _ => (0, -1) end.

(* j_vals = J[coloring] if coloring is not None else J[0]   (J scaled to integers by the harness) *)
Definition j_vals (J : list Z) (col : option (list Z)) (ne : nat) : list Z :=
  match col with
  | Some cs => map (fun c => znth c J 0) cs
  | None => repeat (znth 0 J 0) ne
  end.
(* 2 * scale * (0.5i * J_e * u_e) = i * J_e * u_e *)
Definition hop (ju : Z * Z) : gz := (0, fst ju * snd ju).
Definition hops (J : list Z) (col : option (list Z)) (u : list Z) (ne : nat) : list gz :=
  map hop (combine (j_vals J col ne) u).

(* 2*scale*H(k)[a,b] at k = (pi/2)(qa, qb), i.e. wx = i^qa, wy = i^qb *)
Definition hk_gauss (es cr : list (Z * Z)) (J : list Z) (col : option (list Z)) (u : list Z)
           (qa qb : Z) (a b : Z) : gz :=
  let t := hops J col u (length es) in
  hk_entry gz g0 g1 gadd gmul es cr t (map gconj t) (gi_pow qa) (gi_pow (- qa)) (gi_pow qb) (gi_pow (- qb)) a b.
(* 2*scale*majorana_hamiltonian[a,b] *)
Definition ham_gauss (es : list (Z * Z)) (J : list Z) (col : option (list Z)) (u : list Z) (a b : Z) : gz :=
  let t := hops J col u (length es) in
  ham_entry gz g0 gadd es t (map gconj t) a b.
Definition matrix_of (n : Z) (f : Z -> Z -> gz) : list (list gz) :=
  map (fun a => map (fun b => f a b) (zrange n)) (zrange n).

(* ---------- the functionals of analyse_hk / gap_over_phase_space (phase_space.py:45-116) on the
   eigenvalue lists returned by eigvalsh (ascending), over Q ---------- *)
Open Scope Q_scope.
(* momentum grid in units of 2 pi: k_list[n] = (kx[n mod nkx], ky[n / nkx]), kx[m] = m/nkx
   (np.meshgrid(k_values_x, k_values_y) flattened; np.arange(n) * 2pi / n, endpoint excluded) *)
Definition k_grid (nkx nky : Z) : list (Q * Q) :=
  map (fun n => ((n mod nkx)%Z # Z.to_pos nkx, (n / nkx)%Z # Z.to_pos nky)) (zrange (nkx * nky)).
(* energies[n] = e[: n_states // 2] *)
Definition lower_half (es : list Q) : list Q := firstn (Nat.div (length es) 2) es.
Definition qsum (l : list Q) : Q := fold_right Qplus 0 l.
Definition qabs_min (l : list Q) : option Q :=
  match l with
  | [] => None
  | x :: r => Some (fold_right (fun y m => if Qle_bool (Qabs y) m then Qabs y else m) (Qabs x) r)
  end.
(* ground_state_per_site = 2 * sum(energies) / (k_number * n_states) *)
Definition ground_state_per_site (spectra : list (list Q)) (n_states : Z) : Q :=
  2 * qsum (flat_map lower_half spectra) / (inject_Z (Z.of_nat (length spectra)) * inject_Z n_states).
(* gap_size = min |energies| (over the lower halves at all sampled momenta) *)
Definition gap_size (spectra : list (list Q)) : option Q := qabs_min (flat_map lower_half spectra).
(* gap_over_phase_space: per momentum, min |eigenvalue| over the whole spectrum *)
Definition gaps (spectra : list (list Q)) : list (option Q) := map qabs_min spectra.
