(* Model/SpecC01.v — the spec checker S of property C01 (DESIGN section 0: "S = proved spec checker").
   Definitions only; soundness AND completeness are proved in Proofs/SpecC01Facts.v.

   Input: the lattice (exact dyadic coordinates, as for Model/Lattice.v) and the IMPLEMENTATION's reported
   plaquettes, each as the triple (vertices, edges, directions) of koala's Plaquette record
   (lattice.py:180-216; directions: true = +1, false = -1).  The checker recomputes the faces of the
   embedding with the model's face tracer (all_faces: every orbit of the dart successor, proved in
   LatticeFacts.all_faces_spec) and decides whether the reported list is - each one once, up to the
   directed edge a walk starts on - the list of faces that use no edge twice, have no net boundary
   crossing and POSITIVE AREA (the property's wording; the code filters on winding number = -1). *)
From Coq Require Import List ZArith Bool Arith.
From Koala Require Import Model.Lattice.
Import ListNotations.

Definition triple := (list nat * list nat * list bool)%type.
Definition t_verts (t : triple) : list nat := fst (fst t).
Definition t_edges (t : triple) : list nat := snd (fst t).
Definition t_dirs (t : triple) : list bool := snd t.
(* the reported plaquette as a sequence of directed edges / of (edge, vertex, direction) steps *)
Definition tdarts (t : triple) : list dart := combine (t_edges t) (t_dirs t).
Definition tsteps (t : triple) : list (nat * nat * bool) :=
  combine (combine (t_edges t) (t_verts t)) (t_dirs t).

(* ---------- "is a rotation of", decidable ---------- *)
Fixpoint rotn {A} (k : nat) (l : list A) : list A :=
  match k with O => l | S k' => rotn k' (rotl l) end.

Fixpoint list_eqb {A} (eqb : A -> A -> bool) (l1 l2 : list A) : bool :=
  match l1, l2 with
  | [], [] => true
  | x :: r1, y :: r2 => eqb x y && list_eqb eqb r1 r2
  | _, _ => false
  end.

(* l2 is one of l1, rotl l1, ..., rotl^k l1 *)
Fixpoint is_rot_aux {A} (eqb : A -> A -> bool) (k : nat) (l1 l2 : list A) : bool :=
  list_eqb eqb l1 l2 ||
  match k with O => false | S k' => is_rot_aux eqb k' (rotl l1) l2 end.

Definition is_rot {A} (eqb : A -> A -> bool) (l1 l2 : list A) : bool :=
  (length l1 =? length l2)%nat && is_rot_aux eqb (length l1) l1 l2.

(* ---------- per-plaquette checks ---------- *)
(* the three arrays have one entry per side *)
Definition t_len_ok (t : triple) : bool :=
  (length (t_verts t) =? length (t_edges t))%nat && (length (t_dirs t) =? length (t_edges t))%nat.

(* "taking its i-th edge in its i-th direction leads from its i-th vertex to its (i+1)-th", the successor
   of the last vertex being [vend]; edge ids must exist *)
Definition st_dart (s : nat * nat * bool) : dart := (fst (fst s), snd s).
Fixpoint walk_okb (L : lattice) (w : list (nat * nat * bool)) (vend : nat) : bool :=
  match w with
  | [] => true
  | s :: r =>
    (fst (fst s) <? nE L)%nat
    && (snd (fst s) =? dtail L (st_dart s))%nat
    && (dhead L (st_dart s) =? match r with [] => vend | s' :: _ => snd (fst s') end)%nat
    && walk_okb L r vend
  end.
Definition t_walk_ok (L : lattice) (t : triple) : bool :=
  match tsteps t with
  | [] => true
  | s :: _ => walk_okb L (tsteps t) (snd (fst s))
  end.

(* the reported plaquette is, as a cyclic sequence of directed edges, the face walk f *)
Definition face_rot (f : face) (t : triple) : bool :=
  is_rot dart_eqb (walk_darts (f_walk f)) (tdarts t).
(* the property's three conditions on a face (area, NOT winding number) *)
Definition face_legit (f : face) : bool :=
  f_nodup f && f_netzero f && (0 <? f_area2 f)%Z.

Definition t_is_face (fs : list face) (t : triple) : bool := existsb (fun f => face_rot f t) fs.
Definition t_nodup (fs : list face) (t : triple) : bool := existsb (fun f => face_rot f t && f_nodup f) fs.
Definition t_netzero (fs : list face) (t : triple) : bool := existsb (fun f => face_rot f t && f_netzero f) fs.
Definition t_area (fs : list face) (t : triple) : bool :=
  existsb (fun f => face_rot f t && (0 <? f_area2 f)%Z) fs.
Definition t_legit (fs : list face) (t : triple) : bool := existsb (fun f => face_rot f t && face_legit f) fs.

(* ---------- whole-list checks ---------- *)
(* no two reported plaquettes are rotations of each other (hence of the same face) *)
Fixpoint no_rot_pair (P : list triple) : bool :=
  match P with
  | [] => true
  | t :: r => negb (existsb (fun t' => is_rot dart_eqb (tdarts t) (tdarts t')) r) && no_rot_pair r
  end.
(* completeness: every legitimate face is reported *)
Definition f_reported (P : list triple) (f : face) : bool := existsb (face_rot f) P.
Definition all_reported (fs : list face) (P : list triple) : bool :=
  forallb (fun f => implb (face_legit f) (f_reported P f)) fs.

(* the sub-checks in the order in which they are reported:
   0 model-faces (the face tracer itself failed: impossible without self-loops),
   1 walk-length, 2 closed-walk, 3 not-a-face, 4 edge-twice, 5 net-crossing, 6 orientation,
   7 legit (follows from 3-6 because the face is unique; kept so that the verdict does not rest on that),
   8 duplicate, 9 missing-face *)
Definition spec_checks (L : lattice) (P : list triple) : list bool :=
  match all_faces L with
  | None => [false]
  | Some fs =>
    [ true;
      forallb t_len_ok P;
      forallb (t_walk_ok L) P;
      forallb (t_is_face fs) P;
      forallb (t_nodup fs) P;
      forallb (t_netzero fs) P;
      forallb (t_area fs) P;
      forallb (t_legit fs) P;
      no_rot_pair P;
      all_reported fs P ]
  end.

Definition spec_c01 (L : lattice) (P : list triple) : bool := forallb (fun b => b) (spec_checks L P).

(* index of the first failing sub-check (for the replay message); None = accepted *)
Fixpoint first_false (i : nat) (l : list bool) : option nat :=
  match l with
  | [] => None
  | b :: r => if b then first_false (S i) r else Some i
  end.
Definition spec_c01_first_fail (L : lattice) (P : list triple) : option nat :=
  first_false 0 (spec_checks L P).

(* with the reported n_sides of each plaquette *)
Definition spec_c01n (L : lattice) (P : list (nat * triple)) : bool :=
  forallb (fun nt => (fst nt =? length (t_edges (snd nt)))%nat) P && spec_c01 L (map snd P).

(* ---------- geometry fact G1, per input ---------- *)
(* on every face walk that uses no edge twice and has no net crossing, the coded orientation filter
   (winding number = -1) says the same as the property's (positive area) *)
Definition g1_face (f : face) : bool :=
  implb (f_nodup f && f_netzero f) (Bool.eqb (f_winding f =? -1)%Z (0 <? f_area2 f)%Z).
Definition g1_holds (L : lattice) : bool :=
  match all_faces L with
  | None => false
  | Some fs => forallb g1_face fs
  end.

(* the model's own plaquette list in the checker's input format *)
Definition triple_of (p : plaquette) : triple := (p_verts p, p_edges p, p_dirs p).
Definition model_triples (L : lattice) : option (list triple) :=
  option_map (map triple_of) (find_all_plaquettes L).

Definition good_b (L : lattice) : bool := wf_lattice L && no_self_loops L.
