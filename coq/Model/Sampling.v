(* Model/Sampling.v — exact (rational) model of the sampling-point construction of
   koala/phase_diagrams.py:29-109.  Definitions only.

   np.linspace(0, 0.5, s) is the list i * (1/2) / (s - 1), i = 0 .. s-1 (numpy: step = (stop - start) / (num - 1),
   arange(num) * step + start, last entry set to stop); as rationals i / (2 (s - 1)).  For s = 1 numpy returns
   [0.] and so does this definition (denominator Pos.of_nat 0 = 1, i = 0); the property quantifies over s >= 2.
   The six plot transforms (skew, rotations, reflection) are bijections applied to the same point list and are
   not modelled; matplotlib's Triangulation is outside the model. *)
From Coq Require Import List ZArith QArith Bool Arith.
Import ListNotations.
Open Scope Q_scope.

Definition linspace_half (s : nat) : list Q :=
  map (fun i => Z.of_nat i # Pos.of_nat (2 * (s - 1))) (seq 0 s).

(* phase_diagrams.py:42 and :69   np.array([(x, y) for y in Jy for x in Jx])  — y outer, x inner *)
Definition grid (s : nat) : list (Q * Q) :=
  flat_map (fun y => map (fun x => (x, y)) (linspace_half s)) (linspace_half s).

(* :49-50, :81-82   zs = 1 - xs - ys;  triple_points = [xs, ys, zs].T *)
Definition triple (p : Q * Q) : Q * Q * Q := (fst p, snd p, 1 - fst p - snd p).

(* get_non_symmetric_triangular_sampling_points, :39-50:  keep xs + ys <= 1 *)
Definition nonsym_keep (p : Q * Q) : bool := Qle_bool (fst p + snd p) 1.
Definition nonsym_points (s : nat) : list (Q * Q) := filter nonsym_keep (grid s).
Definition nonsym_triples (s : nat) : list (Q * Q * Q) := map triple (nonsym_points s).

(* get_triangular_sampling_points, :65-82:  grid_spacing = 1 / samples;
   shape = (zs - ys >= -grid_spacing / 2) & (ys - xs >= -grid_spacing / 2);  then the centre point is appended *)
Definition grid_spacing (s : nat) : Q := 1 # Pos.of_nat s.
Definition sym_keep (s : nat) (p : Q * Q) : bool :=
  let x := fst p in let y := snd p in let z := 1 - x - y in
  Qle_bool (- grid_spacing s / 2) (z - y) && Qle_bool (- grid_spacing s / 2) (y - x).
Definition centre : Q * Q := (1 # 3, 1 # 3).
Definition sym_points (s : nat) : list (Q * Q) := filter (sym_keep s) (grid s) ++ [centre].
Definition sym_triples (s : nat) : list (Q * Q * Q) := map triple (sym_points s).

(* the boolean form of "is a valid coupling triple" (used by the driver on the model's own output) *)
Definition on_simplex (t : Q * Q * Q) : bool :=
  let '(x, y, z) := t in
  Qle_bool 0 x && Qle_bool 0 y && Qle_bool 0 z && Qeq_bool (x + y + z) 1.

(* does the grid itself already contain the centre point?  (then the appended one is a duplicate) *)
Definition centre_in_grid (s : nat) : bool :=
  existsb (fun p => Qeq_bool (fst p) (1 # 3) && Qeq_bool (snd p) (1 # 3)) (filter (sym_keep s) (grid s)).
