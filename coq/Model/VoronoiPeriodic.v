(* Model/VoronoiPeriodic.v — the hypotheses of "post_correct" as an executable predicate.

   koala calls scipy.spatial.Voronoi on the 3x3 (5x5) replicated point set and ASSUMES that, near the unit cell
   (0,1]^2, the record it gets back is the periodic Voronoi diagram: every vertex adjacent to the cell has its
   lattice translate into the cell among the vertices, every ridge that crosses the cell boundary occurs again,
   translated, on the other side, no two vertices coincide.  [pvor_ok] states exactly that about the (shifted)
   vertex list [vs] and the ridge list [rv] of Model/VoronoiPost.v, as a boolean: the harness evaluates it per case
   on scipy's record (extracted), Proofs/VoronoiPostCorrect.v proves what the post-processing model returns when it
   holds.  Definitions only. *)
From Coq Require Import List ZArith Bool Arith.
From Koala Require Import Model.Lattice Model.Delaunay Model.VoronoiPost.
Import ListNotations.
Open Scope Z_scope.

(* position of the end [i >= 0] of a finite ridge *)
Definition vat (vs : list pt) (i : Z) : pt := nth (Z.to_nat i) vs (0, 0).
Definition mem_pt (p : pt) (vs : list pt) : bool := existsb (pt_eqb p) vs.
(* the cell (cx, cy) of a point: cx < x/S <= cx+1 *)
Definition cell_pt (S : Z) (p : pt) : pt := (cell_of (fst p) S, cell_of (snd p) S).
(* p + S*t *)
Definition tr (S : Z) (p t : pt) : pt := (fst p + S * fst t, snd p + S * snd t).
Definition pt_opp (t : pt) : pt := (- fst t, - snd t).
(* unordered index pair of a ridge *)
Definition upair (r : Z * Z) : Z * Z := (Z.min (fst r) (snd r), Z.max (fst r) (snd r)).

(* the ridge [r] (one end in the cell, the other in the cell c <> 0) occurs again translated by -c, i.e. with
   the OTHER end in the unit cell *)
Definition has_translate (S : Z) (vs : list pt) (rv : list (Z * Z)) (r : Z * Z) : bool :=
  let a := vat vs (fst r) in
  let b := vat vs (snd r) in
  let c := if in_unit S a then cell_pt S b else cell_pt S a in
  let A := tr S a (pt_opp c) in
  let B := tr S b (pt_opp c) in
  existsb (fun r' => finite r' &&
                     ((pt_eqb (vat vs (fst r')) A && pt_eqb (vat vs (snd r')) B) ||
                      (pt_eqb (vat vs (fst r')) B && pt_eqb (vat vs (snd r')) A))) rv.

(* per crossing ridge: both ends have their image in the cell among the vertices (replication exact), the two
   images differ (no Voronoi vertex adjacent to its own periodic image), the translated copy exists *)
Definition cross_ok (S : Z) (vs : list pt) (rv : list (Z * Z)) (r : Z * Z) : bool :=
  mem_pt (wrap S (vat vs (fst r))) vs && mem_pt (wrap S (vat vs (snd r))) vs &&
  negb (pt_eqb (wrap S (vat vs (fst r))) (wrap S (vat vs (snd r)))) &&
  has_translate S vs rv r.

Definition pvor_ok (S : Z) (vs : list pt) (rv : list (Z * Z)) : bool :=
  (0 <? S) &&
  forallb (ridge_wf (length vs)) rv &&
  forallb (fun r => negb (finite r) || negb (fst r =? snd r)) rv &&
  nodup_by pt_eqb vs &&
  nodup_by pt_eqb (map upair (select S vs 1 rv)) &&
  nodup_by pt_eqb (map upair (select S vs 2 rv)) &&
  forallb (cross_ok S vs rv) (select S vs 1 rv).

(* the finite ridges at vertex v *)
Definition at_v (v : Z) (r : Z * Z) : bool := (fst r =? v) || (snd r =? v).
Definition ridges_at (v : Z) (rv : list (Z * Z)) : list (Z * Z) :=
  filter (fun r => finite r && at_v v r) rv.

(* every vertex in the unit cell has exactly three finite ridges (generic Voronoi vertex, no ridge to infinity) *)
Definition trivalent_ok (S : Z) (vs : list pt) (rv : list (Z * Z)) : bool :=
  forallb (fun v => negb (in_unit S (nth v vs (0, 0))) || (length (ridges_at (Z.of_nat v) rv) =? 3)%nat)
          (seq 0 (length vs)).

(* the same predicates on the result of [post_stages] (what the harness evaluates): None when the stages fail *)
Definition post_hyps (shift : bool) (S : Z) (points : list pt) (v : vor) : option (bool * bool) :=
  match shifted_vertices shift S points v with
  | Err _ => None
  | Ok (S', vs) => Some (pvor_ok S' vs (ridge_vertices v), trivalent_ok S' vs (ridge_vertices v))
  end.
