(* Model/PlotGlue.v — the rest of plotting.py's glue around Model/Plot.v (C16).  Definitions only.

   Mirrors
     _process_plot_args, colour-scheme part     plotting.py:318-324
         isinstance(color_scheme, str) -> [color_scheme];  np.array(color_scheme);
         "color" in kwargs -> color_scheme[0] = kwargs["color"]
       A scheme is a list of Python strings (str = list of code points).  np.array(list of str)
       has the fixed-width dtype <U(w), w = max(1, longest entry), and an item assignment
       TRUNCATES the assigned string to w characters (numpy semantics, modelled as such).
       Schemes that are not lists of strings (RGB tuples, arrays of floats) are not modelled.
     defaults of plot_vertices / plot_edges / plot_plaquettes      plotting.py:22-28, 64-69, 140-144
     what the color= keyword does further down (it is in **kwargs and reaches the artist):
         plot_edges       LineCollection(colors=edge_colors[vis], **kwargs): the colours of the scheme
                          are handed over first (and must be valid), then color= overrides them all
         plot_plaquettes  poly_args = dict(color=color); poly_args.update(kwargs): overridden
         plot_vertices    ax.scatter(c=colors, color=...): matplotlib raises ValueError
     plot_dual                                   plotting.py:211-226
         make_dual (Model/Dual.v, C13) and plot_edges on its positions / edges / crossing *)
From Coq Require Import List ZArith QArith Bool Arith.
From Koala Require Import Model.Clip Model.Plot Model.Lattice Model.Dual.
Import ListNotations.

(* ---------- colour schemes as Python strings ---------- *)
Definition ustr := list Z.                         (* a str as its code points *)
Inductive scheme_arg :=
| SchemeStr (c : ustr)                             (* color_scheme = "black" *)
| SchemeList (l : list ustr).                      (* color_scheme = ['r', 'g', 'b'] *)

Definition scheme_list (sa : scheme_arg) : list ustr :=
  match sa with SchemeStr c => [c] | SchemeList l => l end.

(* itemsize of np.array(list of str): <U(max(1, longest)) *)
Definition ustr_width (l : list ustr) : nat :=
  Nat.max 1 (fold_right Nat.max 0%nat (map (@length Z) l)).

(* plotting.py:318-324.  color_scheme[0] = kwargs["color"] on an empty array: IndexError *)
Definition resolve_scheme (sa : scheme_arg) (color_kw : option ustr) : result (list ustr) :=
  let l := scheme_list sa in
  match color_kw with
  | None => Ok l
  | Some c =>
    match l with
    | [] => Error IndexError
    | _ :: r => Ok (firstn (ustr_width l) c :: r)
    end
  end.

(* _process_plot_args with the scheme argument as the caller writes it *)
Definition process_plot_args_c (N : nat) (s : subset) (lab : labels) (sa : scheme_arg)
           (color_kw : option ustr) : result (list nat * list ustr) :=
  bind (resolve_scheme sa color_kw) (fun sch => process_plot_args N s lab sch).

(* ---------- defaults (plotting.py:22, 26-28, 66-68, 142-144) ---------- *)
Definition colourblind_friendly_scheme : list ustr :=
  [ [35; 69; 55; 52; 49; 52; 69]; [35; 53; 66; 66; 48; 51; 69]; [35; 52; 66; 54; 52; 65; 67] ]%Z.
                                                   (* '#E7414E', '#5BB03E', '#4B64AC' *)
Definition default_vertex_scheme : scheme_arg := SchemeStr [98; 108; 97; 99; 107]%Z.   (* "black" *)
Definition default_scheme : scheme_arg := SchemeList colourblind_friendly_scheme.
Definition default_labels : labels := LScalar 0.
Definition default_subset : subset := SSlice None None None.

(* ---------- the plot functions with scheme argument and color= keyword ---------- *)
(* the colour an artist finally shows *)
Definition final_colour (color_kw : option ustr) (c : ustr) : ustr :=
  match color_kw with Some k => k | None => c end.

(* drawn pieces with the colour HANDED to LineCollection(colors=...); the artist shows
   final_colour color_kw of it *)
Definition plot_edges_c (L : plat) (s : subset) (lab : labels) (sa : scheme_arg)
           (color_kw : option ustr) (directions : labels) : result (list (seg * (ustr * Z))) :=
  bind (resolve_scheme sa color_kw) (fun sch => plot_edges L s lab sch directions).

Definition plot_plaquettes_c (L : plat) (pls : list plaq) (s : subset) (lab : labels) (sa : scheme_arg)
           (color_kw : option ustr) : result (list (list polygon * ustr)) :=
  bind (resolve_scheme sa color_kw) (fun sch =>
  bind (plot_plaquettes L pls s lab sch) (fun r =>
  Ok (map (fun pc => (fst pc, final_colour color_kw (snd pc))) r))).

(* scatter(c=colors, color=...) raises ValueError — after _process_plot_args has run *)
Definition plot_vertices_c (L : plat) (s : subset) (lab : labels) (sa : scheme_arg)
           (color_kw : option ustr) : result (list (point * ustr)) :=
  bind (resolve_scheme sa color_kw) (fun sch =>
  bind (plot_vertices L s lab sch) (fun r =>
  match color_kw with Some _ => Error ValueError | None => Ok r end)).

(* calls with every argument left at its default *)
Definition plot_vertices_default (L : plat) : result (list (point * ustr)) :=
  plot_vertices_c L default_subset default_labels default_vertex_scheme None.
Definition plot_edges_default (L : plat) : result (list (seg * (ustr * Z))) :=
  plot_edges_c L default_subset default_labels default_scheme None default_labels.
Definition plot_plaquettes_default (L : plat) (pls : list plaq) : result (list (list polygon * ustr)) :=
  plot_plaquettes_c L pls default_subset default_labels default_scheme None.

(* ---------- plot_dual (plotting.py:224-225) ---------- *)
Definition plat_of_dual (D : qlattice) : plat := mkPlat (qpos D) (qedges D) (qcrossing D).

Inductive dual_plot (A : Type) :=
| DPStuck                       (* lattice.plaquettes raised *)
| DPDuplicate                   (* make_dual's duplicate-edge guard raised *)
| DPDrawn (r : result A).
Arguments DPStuck {A}.
Arguments DPDuplicate {A}.
Arguments DPDrawn {A} r.

(* plot_edges(make_dual(lattice), **kwargs, subset=subset) *)
Definition plot_dual {C : Type} (L : lattice) (s : subset) (lab : labels) (scheme : list C)
           (directions : labels) : dual_plot (list (seg * (C * Z))) :=
  match make_dual L with
  | DualStuck => DPStuck
  | DualDuplicate => DPDuplicate
  | DualOk D => DPDrawn (plot_edges (plat_of_dual D) s lab scheme directions)
  end.
