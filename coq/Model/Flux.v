(* Model/Flux.v — executable model of koala/flux_finder/flux_finder.py
     fluxes_from_ujk   (flux_finder.py:26-47)
     fluxes_to_labels  (flux_finder.py:125-134)
   plus the two moves the property C05 talks about (gauge transformation at a vertex,
   single bond flip) and the boolean side conditions of the C05 theorems.
   Definitions only (no proofs).  Plaquettes are those of Model/Lattice.v. *)
From Coq Require Import List ZArith Bool Arith.
From Koala Require Import Model.Lattice.
Import ListNotations.
Open Scope Z_scope.

(* ---------- bond variables ---------- *)
(* ujk[e]; an index outside the array is an IndexError in numpy: modelled by 0, and every
   theorem that needs the value to be meaningful asks for it to be +1 or -1 *)
Definition bond (u : list Z) (e : nat) : Z := nth e u 0.
Definition pm1 (x : Z) : bool := (x =? 1) || (x =? -1).
Definition all_pm1 (u : list Z) : bool := forallb pm1 u.

(* ---------- fluxes_from_ujk, real=True  (flux_finder.py:42-46) ----------
     bond_signs = ujk[p.edges]
     fluxes[i]  = np.prod(-bond_signs * p.directions)                                  *)
Definition zprod (l : list Z) : Z := fold_right Z.mul 1 l.
Definition plaq_darts (p : plaquette) : list dart := combine (p_edges p) (p_dirs p).
Definition dart_factor (u : list Z) (ed : dart) : Z := - bond u (fst ed) * sgn (snd ed).
Definition flux_darts (u : list Z) (ds : list dart) : Z := zprod (map (dart_factor u) ds).
Definition flux_real (u : list Z) (p : plaquette) : Z := flux_darts u (plaq_darts p).

(* ---------- fluxes_from_ujk, real=False: bond_signs * 1j  (flux_finder.py:44-46) ----------
   Gaussian integers a + b i as pairs (a, b) *)
Definition gint := (Z * Z)%type.
Definition gone : gint := (1, 0).
Definition gi : gint := (0, 1).
Definition gmul (a b : gint) : gint :=
  (fst a * fst b - snd a * snd b, fst a * snd b + snd a * fst b).
Definition gscale (k : Z) (a : gint) : gint := (k * fst a, k * snd a).
Definition gprod (l : list gint) : gint := fold_right gmul gone l.
Fixpoint gpow (a : gint) (n : nat) : gint :=
  match n with O => gone | S k => gmul a (gpow a k) end.
(* -(u[e] * 1j) * d *)
Definition dart_factor_c (u : list Z) (ed : dart) : gint := (0, - bond u (fst ed) * sgn (snd ed)).
Definition flux_cplx_darts (u : list Z) (ds : list dart) : gint := gprod (map (dart_factor_c u) ds).
Definition flux_cplx (u : list Z) (p : plaquette) : gint := flux_cplx_darts u (plaq_darts p).

(* the whole function on a list of plaquettes *)
Definition fluxes_real (u : list Z) (ps : list plaquette) : list Z := map (flux_real u) ps.
Definition fluxes_cplx (u : list Z) (ps : list plaquette) : list gint := map (flux_cplx u) ps.
(* ... and from the lattice: None = the plaquette finder raised *)
Definition fluxes_from_ujk (L : lattice) (u : list Z) : option (list Z) :=
  option_map (fluxes_real u) (find_all_plaquettes L).
Definition fluxes_from_ujk_cplx (L : lattice) (u : list Z) : option (list gint) :=
  option_map (fluxes_cplx u) (find_all_plaquettes L).

(* ---------- fluxes_to_labels  (flux_finder.py:134): (1 - fluxes) // 2 ---------- *)
Definition flux_label (f : Z) : Z := (1 - f) / 2.
Definition fluxes_to_labels (fs : list Z) : list Z := map flux_label fs.

(* ---------- the property's own wording of the formula ----------
   "minus the bond variable read along the direction of travel (a bond traversed against
   its stored orientation counts with opposite sign)" *)
Definition bond_along (u : list Z) (ed : dart) : Z :=
  if snd ed then bond u (fst ed) else - bond u (fst ed).
Definition flux_spec (u : list Z) (ds : list dart) : Z :=
  zprod (map (fun ed => - bond_along u ed) ds).

(* ---------- moves ---------- *)
(* single bond flip: u[e] *= -1 on a copy *)
Fixpoint flip_at (e : nat) (u : list Z) : list Z :=
  match u, e with
  | [], _ => []
  | x :: r, O => - x :: r
  | x :: r, S e' => x :: flip_at e' r
  end.
(* gauge transformation at vertex v: every bond on an edge incident on v changes sign
   (incident_b is the membership test of lattice.vertices.adjacent_edges[v]) *)
Fixpoint gauge_from (L : lattice) (v : nat) (k : nat) (u : list Z) : list Z :=
  match u with
  | [] => []
  | x :: r => (if incident_b L v k then - x else x) :: gauge_from L v (S k) r
  end.
Definition gauge (L : lattice) (v : nat) (u : list Z) : list Z := gauge_from L v 0%nat u.

(* ---------- closed walks ----------
   a walk is a list of steps (edge, vertex, direction) as produced by the face walk
   (Lattice.trace); it is consistent when step i leaves from vertex i along the direction
   recorded, arrives at vertex i+1 (cyclically) and no step uses a self-loop edge *)
Definition step := (nat * nat * bool)%type.
Definition step_dart (s : step) : dart := (fst (fst s), snd s).
Definition step_vert (s : step) : nat := snd (fst s).
Definition next_vert (r : list step) (last_head : nat) : nat :=
  match r with [] => last_head | s :: _ => step_vert s end.
Fixpoint chain_ok (L : lattice) (w : list step) (last_head : nat) : bool :=
  match w with
  | [] => true
  | s :: r =>
    (dtail L (step_dart s) =? step_vert s)%nat
    && negb (dtail L (step_dart s) =? dhead L (step_dart s))%nat
    && (dhead L (step_dart s) =? next_vert r last_head)%nat
    && chain_ok L r last_head
  end.
Definition walk_consistent (L : lattice) (w : list step) : bool :=
  match w with
  | [] => true
  | s :: _ => chain_ok L w (step_vert s)
  end.

(* the walk stored in a plaquette record *)
Definition plaq_walk (p : plaquette) : list step :=
  combine (combine (p_edges p) (p_verts p)) (p_dirs p).
Definition plaq_shape (p : plaquette) : bool :=
  (length (p_verts p) =? length (p_edges p))%nat && (length (p_dirs p) =? length (p_edges p))%nat.
Definition plaq_consistent (L : lattice) (p : plaquette) : bool :=
  plaq_shape p && walk_consistent L (plaq_walk p).

(* ---------- closed lattices: every dart lies in exactly one plaquette ---------- *)
Definition count_dart (d : dart) (l : list dart) : nat := length (filter (dart_eqb d) l).
Definition darts_cover (L : lattice) (ps : list plaquette) : bool :=
  let ds := flat_map plaq_darts ps in
  forallb (fun d => (count_dart d ds =? 1)%nat) (all_darts L) && (length ds =? 2 * nE L)%nat.

(* plaquette record from the three public arrays of an implementation plaquette
   (centre/area/winding are not used by any flux definition) *)
Definition plaq_of_arrays (vs es : list nat) (ds : list bool) : plaquette :=
  mkPlaq vs es ds vzero 0 0.
