(* Model/ParMap.v — model of  compute_phase_diagram  (koala/phase_diagrams.py:136-151) on top of
   mpire 2.10.2's WorkerPool.map for a numpy-array argument, as read from
   site-packages/mpire/pool.py:406-481 (map), utils.py:67-124 (chunk_tasks), :127-151 (apply_numpy_chunking).
   Definitions only.

   map(func, array):  apply_numpy_chunking cuts the array into chunks with
   chunk_tasks(array, len(array), chunk_size=None, n_splits = n_jobs * 4); each chunk becomes one task
   (make_single_arguments, then chunk_size = 1); map tags the tasks with their index (enumerate), hands them to
   map_unordered, which returns the (index, result) pairs in COMPLETION order; map sorts them by index
   (sorted(..., key = index)) and, the results being numpy arrays, np.concatenate-s them.
   The pool itself (processes, queues, scheduling) is not modelled: it is an arbitrary function subject to the
   contract "every task's result is delivered exactly once" (Section variable in Proofs/ParMapFacts.v). *)
From Coq Require Import List ZArith QArith Qround Bool Arith.
Import ListNotations.

Section Chunking.
Context {A : Type}.

(* utils.py:101-124:
     chunk_size = n_tasks / n_splits                                  (a FLOAT)
     loop:  chunk = arr[done : done + max(1, math.ceil(cur))];  stop if empty;  yield;
            cur = (cur + chunk_size) - math.ceil(cur)                 (float arithmetic)
   The branch "n_elements_returned + len(chunk) > iterable_len" cannot be taken for an array of length
   iterable_len.  The float carry is outside the model: all it contributes is the sequence of integers
   math.ceil(cur) of the successive iterations, an ARBITRARY function [ceil_at : nat -> Z] here (the harness
   recomputes that sequence with the same float expressions and compares the resulting chunks with mpire's).
   [fuel]: every iteration consumes at least one element, so length xs + 1 iterations suffice. *)
Fixpoint chunk_by (fuel : nat) (ceil_at : nat -> Z) (i : nat) (xs : list A) : list (list A) :=
  match fuel with
  | O => []
  | S fuel' =>
    let c := Z.to_nat (Z.max 1 (ceil_at i)) in
    match firstn c xs with
    | [] => []
    | chunk => chunk :: chunk_by fuel' ceil_at (S i) (skipn c xs)
    end
  end.

Definition chunk_tasks_by (ceil_at : nat -> Z) (xs : list A) : list (list A) :=
  chunk_by (S (length xs)) ceil_at 0 xs.

(* the same loop with the carry computed exactly over Q (what the float code approximates; the two differ
   where the exact carry is an integer and the float one is a rounding error above it) *)
Fixpoint chunk_loop (fuel : nat) (chunk_size cur : Q) (xs : list A) : list (list A) :=
  match fuel with
  | O => []
  | S fuel' =>
    let c := Z.to_nat (Z.max 1 (Qceiling cur)) in
    match firstn c xs with
    | [] => []
    | chunk => chunk :: chunk_loop fuel' chunk_size (cur + chunk_size - inject_Z (Qceiling cur)) (skipn c xs)
    end
  end.

Definition chunk_tasks (xs : list A) (n_splits : positive) : list (list A) :=
  let q := Z.of_nat (length xs) # n_splits in
  chunk_loop (S (length xs)) q q xs.

(* enumerate(...) *)
Definition tag {X : Type} (l : list X) : list (nat * X) := combine (seq 0 (length l)) l.

(* sorted(results, key = lambda r: r[0]) — stable insertion sort on the index *)
Fixpoint insert_by_index {X : Type} (t : nat * X) (l : list (nat * X)) : list (nat * X) :=
  match l with
  | [] => [t]
  | h :: r => if Nat.ltb (fst h) (fst t) then h :: insert_by_index t r else t :: l
  end.
Definition sort_by_index {X : Type} (l : list (nat * X)) : list (nat * X) :=
  fold_right insert_by_index [] l.

End Chunking.

Section Compute.
Context {A B : Type}.
Variable f : A -> B.                      (* function(J, **extra_args), phase_diagrams.py:142 *)

(* phase_diagrams.py:141-142   np.array([function(J, **extra_args) for J in Js]) *)
Definition computation (chunk : list A) : list B := map f chunk.

(* what a pool that loses and duplicates nothing hands back, before any reordering *)
Definition tagged_results (chunks : list (list A)) : list (nat * list B) :=
  map (fun t => (fst t, computation (snd t))) (tag chunks).

(* pool.py:477-481 applied to the pairs in the order in which the pool delivered them *)
Definition collect (delivered : list (nat * list B)) : list B :=
  concat (map snd (sort_by_index delivered)).

(* pool.map(computation, sampling_points) with mpire's DEFAULT chunking (n_splits = 4 * n_jobs, exact carry) — the
   call koala made before fix 14cf9ed; the pool receives the function and the index-tagged tasks and returns
   (index, result) pairs in completion order *)
Definition parmap_default (pool : (list A -> list B) -> list (nat * list A) -> list (nat * list B))
           (n_jobs : positive) (xs : list A) : list B :=
  collect (pool computation (tag (chunk_tasks xs (4 * n_jobs)))).

(* the same with the float carry: chunk sizes from an arbitrary ceil sequence *)
Definition parmap_by (pool : (list A -> list B) -> list (nat * list A) -> list (nat * list B))
           (ceil_at : nat -> Z) (xs : list A) : list B :=
  collect (pool computation (tag (chunk_tasks_by ceil_at xs))).

(* the error path.  map announces the number of tasks before anything is chunked:
     iterable_len = get_n_chunks(...) = min(n_tasks, math.ceil(n_tasks / chunk_size)),  chunk_size = n_tasks / n_splits
   (utils.py:154-182, FLOAT arithmetic: an arbitrary number [predicted] here); imap_unordered creates the result
   iterator with that length (pool.py:737) and, once every chunk has been submitted, calls
   imap_iterator.set_length(<number of chunks actually produced>) (pool.py:776), which raises
   ValueError("Length of iterator has already been set to ..., but is now set to ...") when the two differ
   (async_result.py:197-208).  None = that ValueError. *)
Definition parmap_checked (pool : (list A -> list B) -> list (nat * list A) -> list (nat * list B))
           (ceil_at : nat -> Z) (predicted : nat) (xs : list A) : option (list B) :=
  let chunks := chunk_tasks_by ceil_at xs in
  if Nat.eqb predicted (length chunks) then Some (collect (pool computation (tag chunks))) else None.

(* compute_phase_diagram as it is NOW (phase_diagrams.py:145-150):
     chunk_size = max(1, -(-len(sampling_points) // (4 * n_jobs)))
     pool.map(computation, sampling_points, progress_bar=True, chunk_size=chunk_size)
   With an integer chunk_size every quantity of chunk_tasks is a Python int: ceil(cur) = chunk_size in every
   iteration and the carry is exact.  get_n_chunks = min(n_tasks, math.ceil(n_tasks / chunk_size)); the model uses
   the exact value (the float quotient of two small integers cannot cross an integer; K compares it with mpire's). *)
Definition koala_chunk_size (n : nat) (n_jobs : positive) : nat :=
  Nat.max 1 ((n + 4 * Pos.to_nat n_jobs - 1) / (4 * Pos.to_nat n_jobs)).

Definition n_chunks_exact (n cs : nat) : nat := Nat.min n ((n + cs - 1) / cs).

Definition parmap (pool : (list A -> list B) -> list (nat * list A) -> list (nat * list B))
           (n_jobs : positive) (xs : list A) : option (list B) :=
  let cs := koala_chunk_size (length xs) n_jobs in
  parmap_checked pool (fun _ => Z.of_nat cs) (n_chunks_exact (length xs) cs) xs.

Definition serial (xs : list A) : list B := map f xs.

End Compute.

(* the final  .T  (phase_diagrams.py:146) for vector-valued functions: rows = one result vector per point,
   d = length of the vectors; column j of the rows becomes row j.  (For scalar-valued functions .T of a
   one-dimensional array is the identity.) *)
Section Transpose.
Context {C : Type}.
Definition column (j : nat) (rows : list (list C)) : list C :=
  flat_map (fun r => match nth_error r j with Some c => [c] | None => [] end) rows.
Definition transpose (d : nat) (rows : list (list C)) : list (list C) :=
  map (fun j => column j rows) (seq 0 d).
End Transpose.

(* a concrete pool for running the model: delivers the results in the order given by a list of positions
   (a "schedule"); positions out of range are dropped, so it honours the contract iff the schedule is a
   permutation of 0 .. n-1 *)
Definition schedule_pool {A B : Type} (g : list A -> list B) (schedule : list nat)
           (tasks : list (nat * list A)) : list (nat * list B) :=
  flat_map (fun i => match nth_error tasks i with
                     | Some t => [(fst t, g (snd t))]
                     | None => [] end) schedule.
