(* Model/AStar.v — executable model of koala/flux_finder/pathfinding.py (generic A* part).
   Definitions only (no proofs).

   Nodes and edges are [nat] indices.  The graph is abstract: [adj n] is the list of
   (neighbour, shared edge) pairs in the order  zip( *adjacency(n))  yields them
   (pathfinding.py:37; adjacency = graph_utils.adjacent_plaquettes / vertex_neighbours).
   The cost function [h a b] is  heuristic(pos a, pos b)  (pathfinding.py:124-125 / 170-171).
   Costs are dyadic rationals (every float64 is one); the harness multiplies all of them by
   one common power of two, so the model works with the integer numerators: [h : nat -> nat -> Z].
   Order and addition are preserved by that scaling, so this is the model "over Q" of DESIGN C11
   with the common denominator factored out.  Float ADDITION in the implementation rounds; the
   model adds exactly and records the smallest gap of any comparison it branched on ([as_margin]),
   so that the harness can skip whole-path comparison on near-ties. *)
From Coq Require Import List ZArith Bool Arith.
Import ListNotations.
Open Scope Z_scope.

(* ---------- dictionaries: association lists, newest binding first ---------- *)
Fixpoint as_lookup {A : Type} (k : nat) (l : list (nat * A)) : option A :=
  match l with
  | [] => None
  | (k', v) :: r => if (k =? k')%nat then Some v else as_lookup k r
  end.

(* ---------- queue.PriorityQueue of (priority, node) tuples ---------- *)
Definition as_entry := (Z * nat)%type.
(* Python tuple order: priority first, then node index *)
Definition as_entry_ltb (a b : as_entry) : bool :=
  (fst a <? fst b) || ((fst a =? fst b) && (snd a <? snd b)%nat).
Fixpoint as_pq_min (x : as_entry) (l : list as_entry) : as_entry :=
  match l with
  | [] => x
  | y :: r => as_pq_min (if as_entry_ltb y x then y else x) r
  end.
Definition as_entry_eqb (a b : as_entry) : bool :=
  (fst a =? fst b) && (snd a =? snd b)%nat.
(* remove the first occurrence *)
Fixpoint as_pq_remove (x : as_entry) (l : list as_entry) : list as_entry :=
  match l with
  | [] => []
  | y :: r => if as_entry_eqb x y then r else y :: as_pq_remove x r
  end.
(* frontier.get(): the minimum entry and the remaining queue; None = queue empty *)
Definition as_pq_get (q : list as_entry) : option (as_entry * list as_entry) :=
  match q with
  | [] => None
  | x :: r => let m := as_pq_min x r in Some (m, as_pq_remove m q)
  end.

(* margin bookkeeping (ghost: never read by the algorithm) *)
Definition as_min_margin (m : option Z) (g : Z) : option Z :=
  match m with None => Some g | Some a => Some (Z.min a g) end.
(* gap between the popped priority and the priorities left in the queue *)
Definition as_pop_margin (m : option Z) (p : Z) (rest : list as_entry) : option Z :=
  fold_left (fun acc e => as_min_margin acc (fst e - p)) rest m.

Record as_state := mkAS {
  as_frontier : list as_entry;
  as_came : list (nat * option (nat * nat));   (* came_from[n] = (parent, edge); start: (None, None) *)
  as_cost : list (nat * Z);                    (* cost_so_far *)
  as_margin : option Z
}.

Inductive as_step :=
| AS_Continue (st : as_state)
| AS_Return (st : as_state)
| AS_KeyError.

Inductive as_result :=
| AS_Found (came : list (nat * option (nat * nat))) (cost : list (nat * Z)) (margin : option Z)
| AS_NotFound (margin : option Z)   (* PathFindingError, pathfinding.py:50 *)
| AS_Err.              (* KeyError on cost_so_far[current]: not reachable, see Proofs *)

Section AStar.
  Variable adj : nat -> list (nat * nat).
  Variable h : nat -> nat -> Z.
  Variable start goal : nat.
  Variable early : bool.

  (* pathfinding.py:41-52, the loop over the neighbours of [cur]
     (estimated_total_cost is write-only in the source and is not modelled) *)
  Fixpoint as_relax (cur : nat) (nbrs : list (nat * nat)) (st : as_state) : as_step :=
    match nbrs with
    | [] => AS_Continue st
    | (nxt, e) :: r =>
      if early && (nxt =? goal)%nat then                                   (* :38-40 *)
        AS_Return (mkAS (as_frontier st) ((nxt, Some (cur, e)) :: as_came st) (as_cost st) (as_margin st))
      else
        match as_lookup cur (as_cost st) with
        | None => AS_KeyError
        | Some cc =>
          let nc := cc + h cur nxt in                                       (* :42 *)
          let upd (mg : option Z) :=                                        (* :44-48 *)
              mkAS ((nc + h nxt goal, nxt) :: as_frontier st)
                   ((nxt, Some (cur, e)) :: as_came st)
                   ((nxt, nc) :: as_cost st) mg in
          match as_lookup nxt (as_cost st) with                             (* :43 *)
          | None => as_relax cur r (upd (as_margin st))
          | Some old =>
            let mg := as_min_margin (as_margin st) (Z.abs (nc - old)) in
            if nc <? old then as_relax cur r (upd mg)
            else as_relax cur r (mkAS (as_frontier st) (as_came st) (as_cost st) mg)
          end
        end
    end.

  (* pathfinding.py:29-55 (after fix 475bcae); [fuel] = maxits bounds the number of EXPANDED nodes:
       for i in range(maxits + 1): pop; if current == goal: return; if i == maxits: break; expand
     so popping the goal is free and the (maxits+1)-th pop of a non-goal node raises. *)
  Fixpoint as_loop (fuel : nat) (st : as_state) : as_result :=
    match as_pq_get (as_frontier st) with
    | None => AS_NotFound (as_margin st)                                    (* :32-33 break -> raise *)
    | Some ((p, cur), rest) =>
      let mg := as_pop_margin (as_margin st) p rest in
      if (cur =? goal)%nat then AS_Found (as_came st) (as_cost st) mg       (* :36-37 *)
      else
        match fuel with
        | O => AS_NotFound mg                                               (* :38-39 i == maxits: break -> raise *)
        | S f =>
          match as_relax cur (adj cur) (mkAS rest (as_came st) (as_cost st) mg) with
          | AS_Return st' => AS_Found (as_came st') (as_cost st') (as_margin st')
          | AS_KeyError => AS_Err
          | AS_Continue st' => as_loop f st'
          end
        end
    end.

  (* pathfinding.py:15-27 *)
  Definition as_init : as_state :=
    mkAS [(0, start)] [(start, None)] [(start, 0)] None.

  Definition as_forward (maxits : nat) : as_result := as_loop maxits as_init.
End AStar.

(* pathfinding.py:55-63.  Python loops [while nodes[-1] != start]; the model takes fuel
   (Proofs: 1 + length came_from suffices under the forward-pass invariant) and returns
   None for a KeyError / a (None, None) parent / fuel exhaustion (= endless loop).
   Result: nodes = [goal; ...; start], edges[i] joins nodes[i] and nodes[i+1]. *)
Fixpoint as_backward_loop (fuel : nat) (came : list (nat * option (nat * nat))) (start cur : nat)
  : option (list nat * list nat) :=
  if (cur =? start)%nat then Some ([cur], [])
  else match fuel with
       | O => None
       | S f =>
         match as_lookup cur came with
         | Some (Some (p, e)) =>
           match as_backward_loop f came start p with
           | Some (ns, es) => Some (cur :: ns, e :: es)
           | None => None
           end
         | _ => None
         end
       end.
Definition as_backward (came : list (nat * option (nat * nat))) (start goal : nat) :=
  as_backward_loop (S (length came)) came start goal.

Inductive as_path_result :=
| AS_Path (nodes edges : list nat) (margin : option Z)
| AS_PathFindingError (margin : option Z)
| AS_Crash.     (* KeyError / endless loop: shown unreachable in Proofs/AStarFacts.v *)

(* pathfinding.py:127-129 / 173-175 *)
Definition as_path (adj : nat -> list (nat * nat)) (h : nat -> nat -> Z)
           (start goal : nat) (early : bool) (maxits : nat) : as_path_result :=
  match as_forward adj h start goal early maxits with
  | AS_Found came _ mg =>
    match as_backward came start goal with
    | Some (ns, es) => AS_Path ns es mg
    | None => AS_Crash
    end
  | AS_NotFound mg => AS_PathFindingError mg
  | AS_Err => AS_Crash
  end.

(* ---------- spec checker for chains (run on the implementation's output) ---------- *)
(* [joined e a b] : abstract "edge e joins a and b" test supplied by the caller *)
Fixpoint as_chain_ok (joined : nat -> nat -> nat -> bool) (ns es : list nat) : bool :=
  match ns, es with
  | [_], [] => true
  | a :: ((b :: _) as r), e :: es' => joined e a b && as_chain_ok joined r es'
  | _, _ => false
  end.
Fixpoint as_nodup (l : list nat) : bool :=
  match l with
  | [] => true
  | x :: r => negb (existsb (Nat.eqb x) r) && as_nodup r
  end.
Definition as_valid_path (joined : nat -> nat -> nat -> bool) (start goal : nat) (ns es : list nat) : bool :=
  match ns with
  | [] => false
  | g :: _ => (g =? goal)%nat && (last ns g =? start)%nat
              && as_chain_ok joined ns es && as_nodup ns
  end.

(* exact cost of a node chain *)
Fixpoint as_chain_cost (h : nat -> nat -> Z) (ns : list nat) : Z :=
  match ns with
  | a :: ((b :: _) as r) => h b a + as_chain_cost h r
  | _ => 0
  end.

(* "edge e joins a and b" read off a two-column table: edges.adjacent_plaquettes (None = INVALID)
   for the plaquette graph, edges.indices for the vertex graph *)
Definition as_joined (tab : list (option nat * option nat)) (e a b : nat) : bool :=
  match nth_error tab e with
  | Some (Some x, Some y) => ((x =? a)%nat && (y =? b)%nat) || ((x =? b)%nat && (y =? a)%nat)
  | _ => false
  end.
