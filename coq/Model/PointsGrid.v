(* Model/PointsGrid.v — more of koala/pointsets.py than Model/Points.v (C19).  Definitions only (no proofs).

   (1) the grid bookkeeping of bluenoise AS CODED (pointsets.py:13-17, 27, 44):
         coords = [(x, y) for x in range(nx) for y in range(ny)];  cells = {coord: None ...}
         point_to_coord(p) = tuple(p.astype(np.uint32))            (truncation; cell size 1 = r, NOT r/sqrt 2)
         cells[point_to_coord(x0)] = 0;  cells[point_to_coord(x1)] = len(samples) - 1
       NB the dictionary is WRITTEN BUT NEVER READ in today's code (the TODO at pointsets.py:38-39 says so): the
       acceptance test scans all samples (Points.far_from_all).  There is no coded 3x3 / 5x5 neighbour window.
   (2) the neighbour-window acceptance test the TODO asks for, for an arbitrary rational cell size (b/a) * r and an
       arbitrary window half-width m, and the loop of Points.v over an arbitrary acceptance test [inner_gen] ..
       [run_gen]; Proofs/PointsGridFacts.v proves when the windowed test IS the full test.
   (3) hyperuniform's jittered grid as coded (pointsets.py:58-72): linspace origins, meshgrid order, offsets scaled
       by (1/nx, 1/ny), kicks added, crop — over ARBITRARY offsets and kicks (RNG, pareto, cos, sin produce them).

   Numbers as in Points.v: a point (X, Y) stands for (X / sc, Y / sc). *)
From Coq Require Import List ZArith Bool Arith QArith.
From Koala Require Import Model.Points.
Import ListNotations.
Open Scope Z_scope.

(* ------------------------------------------------------------------ (1) cells, as coded *)
(* cell of a point for cell size (b/a) * r, r = 1 = sc model units:  floor (a * X / (b * sc)).
   The code's point_to_coord is a = b = 1 (astype(uint32) truncates; samples are never negative, see
   PointsFacts.bluenoise_samples_in_domain, so truncation = floor). *)
Definition cellq (a b sc : Z) (p : pt) : Z * Z := (a * fst p / (b * sc), a * snd p / (b * sc)).
Definition point_to_coord (sc : Z) (p : pt) : Z * Z := cellq 1 1 sc p.

Definition coord_eqb (u v : Z * Z) : bool := (fst u =? fst v) && (snd u =? snd v).

(* a Python dict with tuple keys, in insertion order *)
Definition cells := list ((Z * Z) * option nat).

Fixpoint dict_set (d : cells) (key : Z * Z) (v : nat) : cells :=
  match d with
  | [] => [(key, Some v)]                         (* new key: appended (no KeyError: x = nx gives the key (nx, y)) *)
  | (k', v') :: r => if coord_eqb k' key then (k', Some v) :: r else (k', v') :: dict_set r key v
  end.

Fixpoint dict_get (d : cells) (key : Z * Z) : option (option nat) :=
  match d with
  | [] => None
  | (k', v') :: r => if coord_eqb k' key then Some v' else dict_get r key
  end.

(* pointsets.py:13-14 *)
Definition cells_init (nx ny : Z) : cells :=
  flat_map (fun x => map (fun y => ((Z.of_nat x, Z.of_nat y), @None nat)) (seq 0 (Z.to_nat ny))) (seq 0 (Z.to_nat nx)).

(* the dictionary after the samples [l] (numbered from [i]) have been recorded: lines 27 and 44 *)
Fixpoint cells_record (sc : Z) (d : cells) (i : nat) (l : list pt) : cells :=
  match l with
  | [] => d
  | p :: r => cells_record sc (dict_set d (point_to_coord sc p) i) (S i) r
  end.

Definition cells_after (sc nx ny : Z) (samples : list pt) : cells :=
  cells_record sc (cells_init nx ny) 0 samples.

(* ------------------------------------------------------------------ (2) neighbour window *)
(* s lies in the (2m+1) x (2m+1) block of cells around the cell of p *)
Definition in_window (a b sc m : Z) (p s : pt) : bool :=
  (Z.abs (fst (cellq a b sc p) - fst (cellq a b sc s)) <=? m) &&
  (Z.abs (snd (cellq a b sc p) - snd (cellq a b sc s)) <=? m).

(* the acceptance test restricted to the samples in the window *)
Definition far_from_window (a b sc m : Z) (samples : list pt) (p : pt) : bool :=
  forallb (fun s => negb (in_window a b sc m p s) || (sc * sc <? d2 p s)) samples.

(* the acceptance test through the dictionary AS CODED (one entry per cell, cell size r): look up the 3 x 3 (m = 1)
   or 5 x 5 (m = 2) block of keys around the candidate and test only the samples recorded there.  This is what
   "only checking points in neighbouring grid cells" would be with today's bookkeeping. *)
Definition zrange (lo n : Z) : list Z := map (fun i => lo + Z.of_nat i) (seq 0 (Z.to_nat n)).

Definition window_keys (c : Z * Z) (m : Z) : list (Z * Z) :=
  flat_map (fun x => map (fun y => (x, y)) (zrange (snd c - m) (2 * m + 1))) (zrange (fst c - m) (2 * m + 1)).

Definition far_from_cells (sc m : Z) (d : cells) (samples : list pt) (p : pt) : bool :=
  forallb (fun key => match dict_get d key with
                      | Some (Some i) => match nth_error samples i with
                                         | Some s => sc * sc <? d2 p s
                                         | None => true
                                         end
                      | _ => true
                      end) (window_keys (point_to_coord sc p) m).

(* Points.inner / step / run_trace / run over an arbitrary acceptance test *)
Fixpoint inner_gen (chk : list pt -> pt -> bool) (sc nx ny : Z) (samples : list pt) (i left : nat) (cands : list pt) : outcome :=
  match left with
  | O => NoChange
  | S left' =>
    match cands with
    | [] => NoChange
    | x1 :: rest =>
      if out_of_domain sc nx ny x1 then inner_gen chk sc nx ny samples (S i) left' rest
      else if chk samples x1 then Accept i x1
      else match left' with
           | O => Remove
           | S _ => inner_gen chk sc nx ny samples (S i) left' rest
           end
    end
  end.

Definition step_gen (chk : list pt -> pt -> bool) (sc nx ny : Z) (k : nat) (st : state) (it : nat * list pt) : option (state * outcome) :=
  let '(idx, cands) := it in
  if mem_nat idx (active st) then
    let o := inner_gen chk sc nx ny (samples st) 0 k cands in
    Some (match o with
          | Accept _ x1 => mkState (samples st ++ [x1]) (active st ++ [length (samples st)])
          | Remove => mkState (samples st) (remove_first idx (active st))
          | NoChange => st
          end, o)
  else None.

Fixpoint run_trace_gen (chk : list pt -> pt -> bool) (sc nx ny : Z) (k : nat) (st : state) (its : list (nat * list pt))
  : option (state * list outcome) :=
  match its with
  | [] => Some (st, [])
  | it :: rest =>
    match step_gen chk sc nx ny k st it with
    | None => None
    | Some (st', o) =>
      match run_trace_gen chk sc nx ny k st' rest with
      | None => None
      | Some (st'', os) => Some (st'', o :: os)
      end
    end
  end.

(* bluenoise with the windowed test for cell size (b/a) r and half-width m *)
Definition run_trace_window (a b m : Z) (sc nx ny : Z) (k : nat) (st : state) (its : list (nat * list pt)) :=
  run_trace_gen (far_from_window a b sc m) sc nx ny k st its.

(* counting outcomes of a trace *)
Definition is_accept (o : outcome) : bool := match o with Accept _ _ => true | _ => false end.
Definition is_remove (o : outcome) : bool := match o with Remove => true | _ => false end.
Definition is_nochange (o : outcome) : bool := match o with NoChange => true | _ => false end.
Definition count_out (f : outcome -> bool) (os : list outcome) : nat := length (filter f os).

(* the packing bound used for the count / termination statements: cells of side 2r/3 hold at most one sample *)
Definition max_samples (nx ny : Z) : Z := (3 * nx / 2 + 1) * (3 * ny / 2 + 1).

(* ------------------------------------------------------------------ (3) hyperuniform's jittered grid, as coded *)
(* pointsets.py:58-61  x = linspace(0, 1, nx), y = linspace(0, 1, ny); X, Y = meshgrid(x, y);
                       cell_origins = [X.flatten(), Y.flatten()].T
   meshgrid (default 'xy' indexing) + C-order flatten: row j = iy * nx + ix has origin (x[ix], y[iy]);
   linspace(0, 1, n)[i] = i / (n - 1) for n >= 2 and [0.] for n = 1  (numpy.linspace, endpoint=True).
   pointsets.py:63-65   cell_offsets = rng.uniform(0, 1, (nx*ny, 2)) * [1/nx, 1/ny]   — NB spacing of the origins is
                        1/(n-1) but the jitter is scaled by 1/n
   pointsets.py:69-72   final_points = cell_origins + cell_offsets + kicks
   [offs j], [kicks j] : the j-th offset draw (in [0, 1), times sc) and the j-th kick (times sc) — arbitrary here.

   Exact coordinate of point j on one axis with n grid lines, index i, offset o, kick k (all over sc):
       i / (n-1) + o / (sc * n) + k / sc  =  hu_num / hu_den        with dn = max 1 (n-1) *)
Definition hu_dn (n : nat) : Z := Z.of_nat (Nat.max 1 (n - 1)).
Definition hu_den (sc : Z) (n : nat) : Z := sc * Z.of_nat n * hu_dn n.
Definition hu_num (sc : Z) (n i : nat) (o k : Z) : Z :=
  Z.of_nat i * sc * Z.of_nat n + o * hu_dn n + k * Z.of_nat n * hu_dn n.

Definition hu_point (sc : Z) (nx ny : nat) (offs kicks : nat -> pt) (iy ix : nat) : pt :=
  let j := (iy * nx + ix)%nat in
  (hu_num sc nx ix (fst (offs j)) (fst (kicks j)), hu_num sc ny iy (snd (offs j)) (snd (kicks j))).

Definition hu_row (sc : Z) (nx ny : nat) (offs kicks : nat -> pt) (iy : nat) : list pt :=
  map (hu_point sc nx ny offs kicks iy) (seq 0 nx).

(* numerators of final_points, in the order of the code; the denominators are (hu_den sc nx, hu_den sc ny) *)
Definition hu_final (sc : Z) (nx ny : nat) (offs kicks : nat -> pt) : list pt :=
  flat_map (hu_row sc nx ny offs kicks) (seq 0 ny).

(* pointsets.py:74-75  all(final_points > 0) & all(final_points < 1) *)
Definition hu_inside (sc : Z) (nx ny : nat) (p : pt) : bool :=
  ((0 <? fst p) && (0 <? snd p)) && ((fst p <? hu_den sc nx) && (snd p <? hu_den sc ny)).

Definition hyperuniform_full (sc : Z) (nx ny : nat) (offs kicks : nat -> pt) : list pt :=
  filter (hu_inside sc nx ny) (hu_final sc nx ny offs kicks).

Definition hu_to_unit (sc : Z) (nx ny : nat) (p : pt) : Q * Q :=
  (Qmake (fst p) (Z.to_pos (hu_den sc nx)), Qmake (snd p) (Z.to_pos (hu_den sc ny))).

(* the same on the arrays the harness sends (rows of the two (nx*ny, 2) arrays) *)
Definition hu_final_l (sc : Z) (nx ny : nat) (offs kicks : list pt) : list pt :=
  hu_final sc nx ny (fun j => nth j offs (0, 0)) (fun j => nth j kicks (0, 0)).
Definition hyperuniform_full_l (sc : Z) (nx ny : nat) (offs kicks : list pt) : list pt :=
  hyperuniform_full sc nx ny (fun j => nth j offs (0, 0)) (fun j => nth j kicks (0, 0)).
