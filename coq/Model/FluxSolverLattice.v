(* Model/FluxSolverLattice.v — the flux-sector solver END TO END on the shared lattice model (Model/Lattice.v):
   everything ujk_from_fluxes / find_flux_sector reads off the lattice is COMPUTED here from L, nothing is an oracle
   except the two implementation-defined choices of the greedy pairing (set.pop order, float min: constrained to return
   a member) and the cost function h (float centre distances, fed in as scaled integers as in Model/AStar.v):

     lattice.plaquettes                  = find_all_plaquettes L                  (Model/Lattice.v, C01)
     lattice.edges.adjacent_plaquettes   = edges_plaquettes L ps                  (Model/Lattice.v, C02)
     adjacent_plaquettes(lattice, p)     = q_adjacent_plaquettes ps ep p          (Model/Queries.v, C02)
     path_between_plaquettes(l, a, b, maxits = l.n_edges)
                                         = the A* model (Model/AStar.v, C11), early stopping, budget nE L
     _greedy_plaquette_pairing           = greedy_pairing pick nearest            (Model/FluxSolver.v)
     fluxes_from_ujk                     = Flux.fluxes_real                       (Model/Flux.v, C05)

   Definitions only (no proofs). *)
From Coq Require Import List ZArith Bool Arith.
From Koala Require Import Model.Lattice Model.Queries Model.AStar Model.Flux Model.FluxSolver.
Import ListNotations.
Open Scope Z_scope.

(* Plaquette.edges / Plaquette.directions as the (edge, +-1) list the solver model works on *)
Definition fsl_plaq (p : plaquette) : fs_plaq := combine (p_edges p) (map sgn (p_dirs p)).
Definition fsl_plaqs (ps : list plaquette) : list fs_plaq := map fsl_plaq ps.

(* pathfinding.py:120-121  adjacency(a) = adjacent_plaquettes(l, a);  zip( *adjacency(a)) (pathfinding.py:41) *)
Definition fsl_adj (ps : list plaquette) (ep : list ep_row) (a : nat) : list (nat * nat) :=
  match q_adjacent_plaquettes ps ep a with
  | Some (ns, es) => combine ns es
  | None => []
  end.

(* path_between_plaquettes(l, a, b, maxits = l.n_edges)  (flux_finder.py:192-195); None = PathFindingError / crash *)
Definition fsl_path (ps : list plaquette) (ep : list ep_row) (h : nat -> nat -> Z) (maxits : nat) (a b : nat)
  : option (list nat * list nat) :=
  match as_path (fsl_adj ps ep) h a b true maxits with
  | AS_Path ns es _ => Some (ns, es)
  | _ => None
  end.

Section LatticeSolver.
  Variable L : lattice.
  Variable h : nat -> nat -> Z.                      (* heuristic(center a, center b), scaled *)
  Variable pick : list nat -> nat.                   (* set.pop *)
  Variable nearest : nat -> list nat -> nat.         (* min((distance, other) ...) *)

  (* ujk_from_fluxes(lattice, target, guess);  None = the plaquette finder raised (LatticeException) *)
  Definition lat_ujk_from_fluxes (target guess : list Z) : option fs_result :=
    match find_all_plaquettes L with
    | None => None
    | Some ps =>
      let ep := edges_plaquettes L ps in
      Some (fs_solve (fs_fluxes_ujk (fsl_plaqs ps)) ep (greedy_pairing pick nearest)
                     (fsl_path ps ep h (nE L)) target guess)
    end.

  (* the deprecated pair: find_flux_sector(lattice, target, guess) with fluxes_from_bonds *)
  Definition lat_fluxes_from_bonds (u : list Z) : option (list Z) :=
    option_map (fun ps => fs_fluxes_bonds (fsl_plaqs ps) u) (find_all_plaquettes L).
  Definition lat_find_flux_sector (target guess : list Z) : option fs_result :=
    match find_all_plaquettes L with
    | None => None
    | Some ps =>
      let ep := edges_plaquettes L ps in
      Some (fs_solve (fs_fluxes_bonds (fsl_plaqs ps)) ep (greedy_pairing pick nearest)
                     (fsl_path ps ep h (nE L)) target guess)
    end.
End LatticeSolver.

(* ---------- the solver on given tables with the modelled A* as the path search (what the correspondence run
   executes on the implementation's own plaquette list and adjacency table) ---------- *)
Definition fs_solve_astar (conv : bool) (ps : list plaquette) (ep : list ep_row) (h : nat -> nat -> Z)
           (pick : list nat -> nat) (nearest : nat -> list nat -> nat) (target guess : list Z) : fs_result :=
  fs_solve ((if conv then fs_fluxes_bonds else fs_fluxes_ujk) (fsl_plaqs ps)) ep (greedy_pairing pick nearest)
           (fsl_path ps ep h (length ep)) target guess.

(* ---------- open boundaries ---------- *)
(* an edge with exactly one plaquette: (Some q, None) or (None, Some q) in edges.adjacent_plaquettes *)
Definition fs_boundary_of (ep : list ep_row) (e : nat) : option nat :=
  match nth_error ep e with
  | Some (Some q, None) => Some q
  | Some (None, Some q) => Some q
  | _ => None
  end.
(* first boundary edge and its plaquette *)
Fixpoint fs_find_boundary_from (k : nat) (ep : list ep_row) : option (nat * nat) :=
  match ep with
  | [] => None
  | (Some q, None) :: _ => Some (k, q)
  | (None, Some q) :: _ => Some (k, q)
  | _ :: r => fs_find_boundary_from (S k) r
  end.
Definition fs_find_boundary (ep : list ep_row) : option (nat * nat) := fs_find_boundary_from 0 ep.

(* first index where two flux vectors differ *)
Fixpoint fs_first_diff_from (k : nat) (a b : list Z) : option nat :=
  match a, b with
  | x :: a', y :: b' => if x =? y then fs_first_diff_from (S k) a' b' else Some k
  | _, _ => None
  end.

(* completion through the boundary (NOT in koala: the witness of "every sector is reachable on an open lattice"):
   given bonds u whose fluxes miss the target on at most one plaquette r, push the defect out through boundary edge e0
   of plaquette q0: flip the edges of a plaquette path r -> q0 and e0 itself *)
Definition fs_complete_open (flux : list Z -> list Z) (ep : list ep_row)
           (path : nat -> nat -> option (list nat * list nat)) (target u : list Z) : option (list Z) :=
  match fs_first_diff_from 0 (flux u) target with
  | None => Some u
  | Some r =>
    match fs_find_boundary ep with
    | None => None
    | Some (e0, q0) =>
      if (r =? q0)%nat then Some (fs_neg_at e0 u)
      else match path r q0 with
           | Some (_, es) => Some (fs_neg_at e0 (fs_neg_set es u))
           | None => None
           end
    end
  end.

(* plaquette-graph connectivity, decided: every plaquette is reached from plaquette 0 by F rounds of
   neighbourhood expansion over two-sided edges *)
Definition fs_two_sided_nbrs (ep : list ep_row) (q : nat) : list nat :=
  flat_map (fun r : ep_row => match r with
                     | (Some a, Some b) => (if (a =? q)%nat then [b] else []) ++ (if (b =? q)%nat then [a] else [])
                     | _ => []
                     end) ep.
Definition fs_expand (ep : list ep_row) (seen : list nat) : list nat :=
  fold_left (fun acc q => fold_left (fun acc' x => if fs_mem x acc' then acc' else x :: acc') (fs_two_sided_nbrs ep q) acc)
            seen seen.
Fixpoint fs_reach (ep : list ep_row) (fuel : nat) (seen : list nat) : list nat :=
  match fuel with O => seen | S f => fs_reach ep f (fs_expand ep seen) end.
Definition fs_connected_b (ep : list ep_row) (F : nat) : bool :=
  match F with
  | O => true
  | _ => let r := fs_reach ep F [0%nat] in forallb (fun q => fs_mem q r) (seq 0 F)
  end.
