(* Model/Points.v — executable model of koala/pointsets.py (bluenoise, hyperuniform, uniform).
   Definitions only (no proofs).

   Numbers: every float64 coordinate is a dyadic rational; the harness multiplies all
   coordinates of one run by one common power of two [sc] (sc > 0) so that they are
   integers.  A point (X, Y) of the model stands for (X / sc, Y / sc).  The grid extents
   nx, ny are integers, so "x > nx" is  X > sc * nx  and  "|p - q| > r" with r = 1 is
   (X - X')^2 + (Y - Y')^2 > sc^2  (squared distances, exact).

   What is modelled: the accept/reject bookkeeping of bluenoise (pointsets.py:8-52) over an
   ARBITRARY stream of (chosen index, candidate points).  The RNG, cos and sin only
   produce the candidates x1 = x0 + disk_uniform(r, 2r) and the chosen index
   idx = rng.choice(active_cells); they are inputs here.  The [cells] dictionary of the
   code is written but never read (pointsets.py:14,27,44) and is not modelled. *)
From Coq Require Import List ZArith Bool Arith QArith.
Import ListNotations.
Open Scope Z_scope.

Definition pt := (Z * Z)%type.

(* squared Euclidean distance (scaled by sc^2) *)
Definition d2 (a b : pt) : Z :=
  (fst a - fst b) * (fst a - fst b) + (snd a - snd b) * (snd a - snd b).

(* pointsets.py:36   np.any(x1 < 0) or np.any(x1 > np.array([nx, ny])) *)
Definition out_of_domain (sc nx ny : Z) (p : pt) : bool :=
  ((fst p <? 0) || (snd p <? 0)) || ((sc * nx <? fst p) || (sc * ny <? snd p)).

(* pointsets.py:40   np.min(np.linalg.norm(x1 - np.array(samples), axis=-1)) > r   with r = 1
   (samples is never empty, so "min > r" is "all > r") *)
Definition far_from_all (sc : Z) (samples : list pt) (p : pt) : bool :=
  forallb (fun s => sc * sc <? d2 p s) samples.

(* result of the inner  for i in range(k)  loop, pointsets.py:34-49 *)
Inductive outcome :=
| Accept (i : nat) (p : pt)   (* candidate number i (0-based) was appended: break *)
| Remove                      (* candidate k-1 was inside the domain but too close: active_cells.remove(idx) *)
| NoChange.                   (* loop ran out without either (k = 0, or the k-th candidate was outside the
                                 domain: line 37 `continue` skips the `elif i == k - 1`), or the candidate
                                 stream ended early *)

(* [i] counts the candidates already consumed, [left] = k - i *)
Fixpoint inner (sc nx ny : Z) (samples : list pt) (i left : nat) (cands : list pt) : outcome :=
  match left with
  | O => NoChange
  | S left' =>
    match cands with
    | [] => NoChange
    | x1 :: rest =>
      if out_of_domain sc nx ny x1 then inner sc nx ny samples (S i) left' rest      (* line 37 continue *)
      else if far_from_all sc samples x1 then Accept i x1                              (* lines 40-45 *)
      else match left' with
           | O => Remove                                                               (* lines 46-47, i == k-1 *)
           | S _ => inner sc nx ny samples (S i) left' rest                            (* lines 48-49 *)
           end
    end
  end.

Record state := mkState { samples : list pt; active : list nat }.

(* list.remove(idx): removes the first occurrence *)
Fixpoint remove_first (i : nat) (l : list nat) : list nat :=
  match l with
  | [] => []
  | a :: r => if Nat.eqb a i then r else a :: remove_first i r
  end.

Definition mem_nat (i : nat) (l : list nat) : bool := existsb (Nat.eqb i) l.

(* one iteration of the  while active_cells  loop, pointsets.py:30-49.
   [idx] is the value returned by rng.choice(active_cells).  The contract of choice is that it
   returns an element of its argument; a stream violating it (also: any further iteration once
   active_cells is empty, when the code has left the loop) is an explicit error [None]. *)
Definition step (sc nx ny : Z) (k : nat) (st : state) (it : nat * list pt) : option (state * outcome) :=
  let '(idx, cands) := it in
  if mem_nat idx (active st) then
    let o := inner sc nx ny (samples st) 0 k cands in
    Some (match o with
          | Accept _ x1 => mkState (samples st ++ [x1]) (active st ++ [length (samples st)])
          | Remove => mkState (samples st) (remove_first idx (active st))
          | NoChange => st
          end, o)
  else None.

(* the whole loop over a finite prefix of the stream, with the trace of outcomes (newest last) *)
Fixpoint run_trace (sc nx ny : Z) (k : nat) (st : state) (its : list (nat * list pt))
  : option (state * list outcome) :=
  match its with
  | [] => Some (st, [])
  | it :: rest =>
    match step sc nx ny k st it with
    | None => None
    | Some (st', o) =>
      match run_trace sc nx ny k st' rest with
      | None => None
      | Some (st'', os) => Some (st'', o :: os)
      end
    end
  end.

Definition run (sc nx ny : Z) (k : nat) (st : state) (its : list (nat * list pt)) : option state :=
  match run_trace sc nx ny k st its with
  | None => None
  | Some (st', _) => Some st'
  end.

(* pointsets.py:24-28  samples = [x0]; active_cells = [0] *)
Definition init (x0 : pt) : state := mkState [x0] [0%nat].

(* pointsets.py:52  np.array(samples) / np.array([nx, ny])  as exact rationals *)
Definition normalise (sc nx ny : Z) (p : pt) : Q * Q :=
  (Qmake (fst p) (Z.to_pos (sc * nx)), Qmake (snd p) (Z.to_pos (sc * ny))).

Definition bluenoise (sc nx ny : Z) (k : nat) (x0 : pt) (its : list (nat * list pt)) : option (list (Q * Q)) :=
  match run sc nx ny k (init x0) its with
  | None => None
  | Some st => Some (map (normalise sc nx ny) (samples st))
  end.

(* the loop condition  while active_cells  : the code returns exactly when this holds *)
Definition finished (st : state) : bool := match active st with [] => true | _ => false end.

(* ---------- hyperuniform, pointsets.py:55-75 ----------
   final_points = initial_points + kicks is an arbitrary list of points (RNG, Pareto, cos, sin);
   the model is the crop  all(p > 0) & all(p < 1)  of lines 74-75. *)
Definition inside_open_unit (sc : Z) (p : pt) : bool :=
  ((0 <? fst p) && (0 <? snd p)) && ((fst p <? sc) && (snd p <? sc)).

Definition hyperuniform_crop (sc : Z) (final_points : list pt) : list pt :=
  filter (inside_open_unit sc) final_points.

(* the returned coordinates as exact rationals (X / sc, Y / sc) *)
Definition to_unit (sc : Z) (p : pt) : Q * Q :=
  (Qmake (fst p) (Z.to_pos sc), Qmake (snd p) (Z.to_pos sc)).

Definition hyperuniform (sc : Z) (final_points : list pt) : list (Q * Q) :=
  map (to_unit sc) (hyperuniform_crop sc final_points).

(* ---------- uniform, pointsets.py:78-82 ----------
   rng.uniform(size=(n, 2)): n rows taken from an arbitrary stream of draws. *)
Definition uniform (n : nat) (draw : nat -> pt) : list pt := map draw (seq 0 n).
