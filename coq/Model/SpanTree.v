(* Model/SpanTree.v — executable model of
     graph_utils.plaquette_spanning_tree   (graph_utils.py:57-127)
     flux_finder.n_to_ujk_flipped          (flux_finder.py:103-122)
   Definitions only (no proofs).

   The spanning-tree routine only reads two tables of the lattice:
     ep  = lattice.edges.adjacent_plaquettes  (INVALID = None), as in Model/Lattice.v
     pes = [p.edges for p in lattice.plaquettes]
   and, when shortest_edges_only, plaquette centres through float distances which are used
   ONLY to order the candidate edges of one iteration: the order is an oracle
   [order : iteration -> boundary_edges -> candidate list]. *)
From Coq Require Import List ZArith Bool Arith.
From Koala Require Import Model.Lattice.
Import ListNotations.
Open Scope Z_scope.

(* ---------- helpers ---------- *)
Definition memb (x : nat) (l : list nat) : bool := existsb (Nat.eqb x) l.

(* lattice.edges.adjacent_plaquettes[e]; "INVALID in edge_plaq" = some side is None *)
Definition ep_at (ep : list ep_row) (e : nat) : ep_row := nth e ep (None, None).
Definition two_sided (ep : list ep_row) (e : nat) : option (nat * nat) :=
  match ep_at ep e with
  | (Some a, Some b) => Some (a, b)
  | _ => None
  end.

(* a, c = np.unique(x, return_counts=True); a[c == 1]  : ascending values occurring exactly once *)
Fixpoint insert_nat (x : nat) (l : list nat) : list nat :=
  match l with
  | [] => [x]
  | y :: r => if (x <=? y)%nat then x :: y :: r else y :: insert_nat x r
  end.
Definition sort_nat (l : list nat) : list nat := fold_right insert_nat [] l.
Definition count_nat (x : nat) (l : list nat) : nat := length (filter (Nat.eqb x) l).
Definition uniq1 (l : list nat) : list nat :=
  filter (fun x => (count_nat x l =? 1)%nat) (sort_nat l).

(* ---------- candidate order oracles ---------- *)
Definition order_fn := nat -> list nat -> list nat.
(* shortest_edges_only = False : order = np.arange(len(boundary_edges)) *)
Definition order_id : order_fn := fun _ b => b.
(* shortest_edges_only = True : np.argsort(distances); distances depend on the edge only.
   Modelled as a stable sort by an integer key per edge (the harness passes the float
   distances exactly, as scaled integers); ties are broken by position, which numpy's
   default sort does not promise — the correspondence check skips inputs with ties among
   two-sided edges, and the theorems hold for EVERY order function that permutes its input. *)
Fixpoint insert_key (key : nat -> Z) (x : nat) (l : list nat) : list nat :=
  match l with
  | [] => [x]
  | y :: r => if key x <=? key y then x :: y :: r else y :: insert_key key x r
  end.
(* stable: elements are inserted from the right end in front of the first entry whose key is
   not smaller, so equal keys keep their order *)
Definition sort_key (key : nat -> Z) (l : list nat) : list nat := fold_right (insert_key key) [] l.
Definition order_by_key (keys : list Z) : order_fn := fun _ b => sort_key (fun e => nth e keys 0) b.

(* replay oracle: the edge chosen by an observed run is scanned first.  With it the model is the
   nondeterministic routine "each iteration picks SOME two-sided edge joining an inside plaquette
   to an outside one"; the correspondence check feeds the implementation's own tree and must get
   it back, whatever order the implementation scans its candidates in *)
Definition order_front (choice : list nat) : order_fn :=
  fun n b => match nth_error choice n with Some e => e :: b | None => b end.

(* ---------- one scan of the candidates  (graph_utils.py:95-125) ----------
   returns the first candidate edge that has a plaquette on both sides, one of them inside
   and one outside, together with the new (outside) plaquette
     position = np.where(outisde_plaquette_present)[0][0]                                *)
Fixpoint find_link (ep : list ep_row) (pin : list nat) (cands : list nat) : option (nat * nat) :=
  match cands with
  | [] => None
  | e :: r =>
    match two_sided ep e with
    | None => find_link ep pin r                         (* if INVALID in edge_plaq: continue *)
    | Some (a, b) =>
      let in_a := memb a pin in
      let in_b := memb b pin in
      let out_a := negb in_a in
      let out_b := negb in_b in
      if (out_a || out_b) && (in_a || in_b)
      then Some (e, if out_a then a else b)
      else find_link ep pin r
    end
  end.

(* ---------- the main loop  (graph_utils.py:78-125) ----------
   n: iteration number; iters: iterations left; pin: the entries of plaquettes_in that
   have been set (membership is all that is used; the -1 fillers never equal a plaquette
   index); bnd: boundary_edges.  One output entry per iteration: Some (edge, new plaquette)
   or None (no linking edge found: edges_in[n] stays -1, nothing changes). *)
Fixpoint tree_loop (order : order_fn) (ep : list ep_row) (pes : list (list nat))
         (n iters : nat) (pin bnd : list nat) : list (option (nat * nat)) :=
  match iters with
  | O => []
  | S k =>
    match find_link ep pin (order n bnd) with
    | None => None :: tree_loop order ep pes (S n) k pin bnd
    | Some (e, q) =>
      Some (e, q) :: tree_loop order ep pes (S n) k (pin ++ [q]) (uniq1 (bnd ++ nth q pes []))
    end
  end.

(* None = the routine raises (no plaquettes: np.full(-1, -1) is a ValueError) *)
Definition spanning_trace (order : order_fn) (ep : list ep_row) (pes : list (list nat))
  : option (list (option (nat * nat))) :=
  match pes with
  | [] => None
  | p0 :: _ => Some (tree_loop order ep pes 0%nat (length pes - 1) [0%nat] p0)
  end.
(* edges_in : -1 is None *)
Definition plaquette_spanning_tree (order : order_fn) (ep : list ep_row) (pes : list (list nat))
  : option (list (option nat)) :=
  option_map (map (option_map fst)) (spanning_trace order ep pes).

(* the tree as a list of edges when every iteration found a link *)
Fixpoint all_some {A} (l : list (option A)) : option (list A) :=
  match l with
  | [] => Some []
  | None :: _ => None
  | Some x :: r => option_map (cons x) (all_some r)
  end.

(* from the lattice (tables of the C01/C02 model) *)
Definition spanning_tree_of_lattice (order : order_fn) (L : lattice) : option (list (option nat)) :=
  match find_all_plaquettes L with
  | None => None
  | Some ps => plaquette_spanning_tree order (edges_plaquettes L ps) (map p_edges ps)
  end.

(* ---------- n_to_ujk_flipped  (flux_finder.py:116-122) ---------- *)
(* format(n, '0kb') : k binary digits, most significant first (n < 2^k) *)
Fixpoint bits_be (k : nat) (n : Z) : list bool :=
  match k with
  | O => []
  | S k' => Z.testbit n (Z.of_nat k') :: bits_be k' n
  end.
Definition b2z (b : bool) : Z := if b then 1 else 0.
(* ujk_flipped[min_spanning_set] = 1 - 2*flips, entry by entry (a later duplicate index wins) *)
Definition write_bond (u : list Z) (eb : nat * bool) : list Z := set_nth (fst eb) (1 - 2 * b2z (snd eb)) u.
(* None = ValueError (n negative, or n >= 2^k: the digit string is longer than the tree) *)
Definition n_to_ujk_flipped (n : Z) (u : list Z) (tree : list nat) : option (list Z) :=
  let k := length tree in
  if (0 <=? n) && (n <? 2 ^ Z.of_nat k)
  then Some (fold_left write_bond (combine tree (bits_be k n)) u)
  else None.

(* ---------- spanning-tree checker run on the implementation's output ----------
   tree: list of edges; F plaquettes 0..F-1.  Grows the set of plaquettes reachable from
   plaquette 0 through two-sided tree edges, F rounds; accepts iff the tree has F-1 distinct
   edges, all two-sided with sides < F, and every plaquette is reached. *)
Definition grow_once (ep : list ep_row) (tree : list nat) (reach : list nat) : list nat :=
  fold_left (fun r e =>
    match two_sided ep e with
    | None => r
    | Some (a, b) =>
      if memb a r && negb (memb b r) then b :: r
      else if memb b r && negb (memb a r) then a :: r
      else r
    end) tree reach.
Fixpoint grow (ep : list ep_row) (tree : list nat) (rounds : nat) (reach : list nat) : list nat :=
  match rounds with
  | O => reach
  | S k => grow ep tree k (grow_once ep tree reach)
  end.
Definition sides_ok (ep : list ep_row) (F : nat) (e : nat) : bool :=
  match two_sided ep e with
  | None => false
  | Some (a, b) => (a <? F)%nat && (b <? F)%nat
  end.
Definition is_spanning_tree (ep : list ep_row) (F : nat) (tree : list nat) : bool :=
  (S (length tree) =? F)%nat
  && nodupb tree
  && forallb (sides_ok ep F) tree
  && forallb (fun q => memb q (grow ep tree F [0%nat])) (seq 0 F).

(* ep table and plaquette edge lists describe the same incidence:
   plaquette q is a side of edge e  <->  e is in q's edge list  (C02's edge_sides),
   and every table entry is a plaquette index *)
Definition is_side (ep : list ep_row) (e q : nat) : bool :=
  match ep_at ep e with
  | (a, b) => (match a with Some x => (x =? q)%nat | None => false end)
              || (match b with Some x => (x =? q)%nat | None => false end)
  end.
Definition onat_lt (F : nat) (a : option nat) : bool :=
  match a with Some x => (x <? F)%nat | None => true end.
Definition ep_agrees (ep : list ep_row) (pes : list (list nat)) : bool :=
  forallb (fun row : ep_row => onat_lt (length pes) (fst row) && onat_lt (length pes) (snd row)) ep
  && forallb (fun q =>
    forallb (fun e => is_side ep e q) (nth q pes [])
    && forallb (fun e => negb (is_side ep e q) || memb e (nth q pes [])) (seq 0 (length ep)))
    (seq 0 (length pes)).
