(* Model/Lattice.v — executable model of koala/lattice.py on exact numbers.
   Definitions only (no proofs) so that the model keeps running when a proof breaks.

   Numbers: every float64 position is a dyadic rational; the harness multiplies all
   positions by one common power of two [scale] so that they are integers.  Edge
   vectors are therefore  pos[k] - pos[j] + scale * crossing  (scaled by [scale]).
   All predicates below are sign tests of polynomials, hence scale invariant. *)
From Coq Require Import List ZArith Bool Arith.
Import ListNotations.
Open Scope Z_scope.

(* ---------- vectors ---------- *)
Definition vec := (Z * Z)%type.
Definition vadd (a b : vec) : vec := (fst a + fst b, snd a + snd b).
Definition vsub (a b : vec) : vec := (fst a - fst b, snd a - snd b).
Definition vscale (k : Z) (a : vec) : vec := (k * fst a, k * snd a).
Definition vneg (a : vec) : vec := (- fst a, - snd a).
Definition vcross (a b : vec) : Z := fst a * snd b - snd a * fst b.
Definition vdot (a b : vec) : Z := fst a * fst b + snd a * snd b.
Definition vzero : vec := (0, 0).
Definition veqb (a b : vec) : bool := (fst a =? fst b) && (snd a =? snd b).
Definition vsum (l : list vec) : vec := fold_right vadd vzero l.

(* ---------- lattice ---------- *)
Record lattice := mkLattice {
  scale : Z;
  pos : list vec;
  edges : list (nat * nat);
  crossing : list vec
}.

Definition nV (L : lattice) : nat := length (pos L).
Definition nE (L : lattice) : nat := length (edges L).
Definition edge_at (L : lattice) (e : nat) : nat * nat := nth e (edges L) (0, 0)%nat.
Definition pos_at (L : lattice) (v : nat) : vec := nth v (pos L) vzero.
Definition cross_at (L : lattice) (e : nat) : vec := nth e (crossing L) vzero.

(* lattice.py:121-123  edge_vectors = pos[k] - pos[j] + crossing *)
Definition evec (L : lattice) (e : nat) : vec :=
  let '(j, k) := edge_at L e in
  vadd (vsub (pos_at L k) (pos_at L j)) (vscale (scale L) (cross_at L e)).

Definition vectors (L : lattice) : list vec := map (evec L) (seq 0 (nE L)).

(* well-formedness: indices in range, one crossing per edge, positive scale *)
Definition wf_edge (n : nat) (e : nat * nat) : bool :=
  (fst e <? n)%nat && (snd e <? n)%nat.
Definition wf_lattice (L : lattice) : bool :=
  (0 <? scale L) && (length (crossing L) =? nE L)%nat && forallb (wf_edge (nV L)) (edges L).
Definition no_self_loops (L : lattice) : bool :=
  forallb (fun e => negb (fst e =? snd e)%nat) (edges L).

(* ---------- rotation system: _sorted_vertex_adjacent_edges ---------- *)
(* np.nonzero((edges[:,0]==v) + (edges[:,1]==v)) : ascending edge ids incident on v *)
Definition incident_b (L : lattice) (v e : nat) : bool :=
  let '(j, k) := edge_at L e in (j =? v)%nat || (k =? v)%nat.
Definition incident (L : lattice) (v : nat) : list nat :=
  filter (incident_b L v) (seq 0 (nE L)).

(* outward vector of edge e at v: parity +1 if edges[e][0]==v else -1 *)
Definition outvec (L : lattice) (v e : nat) : vec :=
  if (fst (edge_at L e) =? v)%nat then evec L e else vneg (evec L e).

(* sort key  alpha(v) = arctan2(-vx, vy) mod 2pi  in [0,2pi).  Put (X,Y) = (vy, -vx):
   alpha = atan2(Y, X) mod 2pi.  half = 0 for alpha in [0,pi), 1 for [pi,2pi). *)
Definition half (v : vec) : Z :=
  let X := snd v in let Y := - fst v in
  if (0 <? Y) || ((Y =? 0) && (0 <? X)) then 0 else 1.
(* alpha v < alpha w *)
Definition ang_lt (v w : vec) : bool :=
  let Xv := snd v in let Yv := - fst v in
  let Xw := snd w in let Yw := - fst w in
  (half v <? half w) || ((half v =? half w) && (0 <? Xv * Yw - Yv * Xw)).

(* stable insertion into a list sorted by DEscending alpha: x goes in front of the
   first y with alpha y < alpha x (np.argsort(-alpha); equal keys keep input order) *)
Fixpoint insert_desc (key : nat -> vec) (x : nat) (l : list nat) : list nat :=
  match l with
  | [] => [x]
  | y :: r => if ang_lt (key y) (key x) then x :: y :: r else y :: insert_desc key x r
  end.
Definition sort_desc (key : nat -> vec) (l : list nat) : list nat :=
  fold_left (fun acc x => insert_desc key x acc) l [].

Definition sorted_adj (L : lattice) (v : nat) : list nat :=
  sort_desc (outvec L v) (incident L v).
Definition adj_table (L : lattice) : list (list nat) :=
  map (sorted_adj L) (seq 0 (nV L)).

(* smallest |cross|/... is not needed here; margins are computed by the harness *)

(* ---------- coordination numbers: np.bincount(np.sort(edges.flatten())) ---------- *)
Definition count_ends (L : lattice) (v : nat) : nat :=
  fold_right (fun e acc => ((if (fst e =? v)%nat then 1 else 0) + (if (snd e =? v)%nat then 1 else 0) + acc)%nat)
             0%nat (edges L).
Definition max_index (L : lattice) : option nat :=
  match edges L with
  | [] => None
  | _ => Some (fold_right (fun e acc => Nat.max (Nat.max (fst e) (snd e)) acc) 0%nat (edges L))
  end.
(* as coded today (bincount without minlength): length = highest used index + 1 *)
Definition coordination_bincount (L : lattice) : list nat :=
  match max_index L with
  | None => []
  | Some m => map (count_ends L) (seq 0 (S m))
  end.
(* what the property demands: one entry per vertex *)
Definition coordination (L : lattice) : list nat := map (count_ends L) (seq 0 (nV L)).

(* ---------- edge neighbours: _edge_neighbours ---------- *)
Definition share_vertex (a b : nat * nat) : bool :=
  (fst a =? fst b)%nat || (fst a =? snd b)%nat || (snd a =? fst b)%nat || (snd a =? snd b)%nat.
Definition edge_neighbours (L : lattice) (e : nat) : list nat :=
  filter (fun f => negb (f =? e)%nat && share_vertex (edge_at L e) (edge_at L f)) (seq 0 (nE L)).

(* ---------- darts and the face walk: _find_plaquette ---------- *)
(* direction: true = +1 (along the stored orientation), false = -1 *)
Definition dart := (nat * bool)%type.
Definition dart_eqb (a b : dart) : bool := (fst a =? fst b)%nat && eqb (snd a) (snd b).
Definition dtail (L : lattice) (d : dart) : nat :=
  let '(j, k) := edge_at L (fst d) in if snd d then j else k.
Definition dhead (L : lattice) (d : dart) : nat :=
  let '(j, k) := edge_at L (fst d) in if snd d then k else j.
(* the code's  edge[np.where(np.roll(edge,1)==cur)[0][0]] *)
Definition other_end (L : lattice) (e cur : nat) : nat :=
  let '(j, k) := edge_at L e in if (k =? cur)%nat then j else k.

Fixpoint index_of (x : nat) (l : list nat) : option nat :=
  match l with
  | [] => None
  | y :: r => if (y =? x)%nat then Some 0%nat else option_map S (index_of x r)
  end.
(* entry after the first occurrence of e, cyclically *)
Definition succ_in (row : list nat) (e : nat) : option nat :=
  match index_of e row with
  | None => None
  | Some i => Some (nth (Nat.modulo (S i) (length row)) row 0%nat)
  end.

(* one iteration of the while loop: from (edge, vertex) to (vertex', edge', dir') *)
Definition step_walk (L : lattice) (adj : list (list nat)) (ce cv : nat) : option (nat * nat * bool) :=
  let v := other_end L ce cv in
  match succ_in (nth v adj []) ce with
  | None => None
  | Some f => Some (v, f, (fst (edge_at L f) =? v)%nat)
  end.

(* the dart-level successor used in the theorems *)
Definition next_dart (L : lattice) (adj : list (list nat)) (d : dart) : option dart :=
  match step_walk L adj (fst d) (dtail L d) with
  | None => None
  | Some (_, f, b) => Some (f, b)
  end.

Inductive trace_result :=
| Closed (walk : list (nat * nat * bool))   (* (edge, vertex, direction) in order *)
| Stuck                                       (* LatticeException *)
| OutOfFuel
| BadIndex.                                   (* IndexError: cannot happen on wf lattices *)

Definition step_eqb (a b : nat * nat * bool) : bool :=
  (fst (fst a) =? fst (fst b))%nat && eqb (snd a) (snd b).

Fixpoint trace_loop (fuel : nat) (L : lattice) (adj : list (list nat)) (se : nat) (sd : bool)
         (ce cv : nat) (acc : list (nat * nat * bool)) : trace_result :=
  match fuel with
  | O => OutOfFuel
  | S fuel' =>
    match step_walk L adj ce cv with
    | None => BadIndex
    | Some (v', e', d') =>
      if (e' =? se)%nat && eqb d' sd then Closed (rev acc)
      else if existsb (step_eqb (e', v', d')) (removelast acc) then Stuck
      else trace_loop fuel' L adj se sd e' v' ((e', v', d') :: acc)
    end
  end.

Definition trace (L : lattice) (adj : list (list nat)) (se : nat) (sd : bool) : trace_result :=
  let sv := (let '(j, k) := edge_at L se in if sd then j else k) in
  trace_loop (S (2 * nE L)) L adj se sd se sv [(se, sv, sd)].

(* ---------- validity filters ---------- *)
Definition walk_edges (w : list (nat * nat * bool)) : list nat := map (fun s => fst (fst s)) w.
Definition walk_verts (w : list (nat * nat * bool)) : list nat := map (fun s => snd (fst s)) w.
Definition walk_dirs (w : list (nat * nat * bool)) : list bool := map (fun s => snd s) w.

Fixpoint nodupb (l : list nat) : bool :=
  match l with
  | [] => true
  | x :: r => negb (existsb (Nat.eqb x) r) && nodupb r
  end.

Definition sgn (b : bool) : Z := if b then 1 else -1.
Definition dvec (L : lattice) (s : nat * nat * bool) : vec :=
  vscale (sgn (snd s)) (evec L (fst (fst s))).
Definition dcross (L : lattice) (s : nat * nat * bool) : vec :=
  vscale (sgn (snd s)) (cross_at L (fst (fst s))).
Definition net_crossing (L : lattice) (w : list (nat * nat * bool)) : vec := vsum (map (dcross L) w).

(* exact winding number of the code's arctan2 construction (DESIGN appendix A) *)
Definition wP (v : vec) : vec := (snd v, fst v).                 (* (X,Y) = (vy, vx) *)
Definition w_up (p : vec) : bool := (0 <? snd p) || ((snd p =? 0) && (fst p <? 0)).
Definition w_lo (p : vec) : bool := (snd p <? 0) || ((snd p =? 0) && (0 <? fst p)).
Definition wrap_count (a b : vec) : Z :=
  let c := vcross a b in let d := vdot a b in
  if (0 <? c) && w_up a && (snd b <? 0) then 1
  else if ((c <? 0) || ((c =? 0) && (d <? 0))) && w_lo a && w_up b then -1
  else 0.
Definition winding (vs : list vec) : Z :=
  match vs with
  | [] => 0
  | _ =>
    let ps := map wP vs in
    let prev := last ps vzero :: removelast ps in
    fold_right Z.add 0 (map (fun ab => wrap_count (fst ab) (snd ab)) (combine prev ps))
  end.

(* polygon points: pos[v0] + cumsum(vectors)  *)
Fixpoint cumsum_from (p : vec) (vs : list vec) : list vec :=
  match vs with
  | [] => []
  | v :: r => let q := vadd p v in q :: cumsum_from q r
  end.
Definition poly_points (L : lattice) (w : list (nat * nat * bool)) : list vec :=
  match w with
  | [] => []
  | s :: _ => cumsum_from (pos_at L (snd (fst s))) (map (dvec L) w)
  end.
Definition rotl {A} (l : list A) : list A := match l with [] => [] | x :: r => r ++ [x] end.
(* twice the signed area (scaled by scale^2): sum px*py' - px'*py *)
Definition area2 (pts : list vec) : Z :=
  fold_right Z.add 0 (map (fun pq => vcross (fst pq) (snd pq)) (combine pts (rotl pts))).
(* centroid numerators (scaled by scale^3) ; centre = num / (3 * area2) (scaled by scale) *)
Definition centroid_num (pts : list vec) : vec :=
  vsum (map (fun pq => vscale (vcross (fst pq) (snd pq)) (vadd (fst pq) (snd pq))) (combine pts (rotl pts))).

Record plaquette := mkPlaq {
  p_verts : list nat;
  p_edges : list nat;
  p_dirs : list bool;
  p_cnum : vec;       (* centre = p_cnum / (3 * p_area2) in scaled coordinates *)
  p_area2 : Z;
  p_winding : Z
}.
Definition n_sides (p : plaquette) : nat := length (p_edges p).

Definition walk_valid (L : lattice) (w : list (nat * nat * bool)) : bool :=
  nodupb (walk_edges w) && veqb (net_crossing L w) vzero
  && (winding (map (dvec L) w) =? -1).

Definition mk_plaquette (L : lattice) (w : list (nat * nat * bool)) : plaquette :=
  let pts := poly_points L w in
  mkPlaq (walk_verts w) (walk_edges w) (walk_dirs w) (centroid_num pts) (area2 pts)
         (winding (map (dvec L) w)).

(* ---------- sweep: _find_all_plaquettes ---------- *)
(* visited darts kept as a list; membership by dart_eqb *)
Definition visited (vis : list dart) (d : dart) : bool := existsb (dart_eqb d) vis.
Definition walk_darts (w : list (nat * nat * bool)) : list dart := map (fun s => (fst (fst s), snd s)) w.

Definition sweep_one (L : lattice) (adj : list (list nat)) (d : dart)
           (st : option (list dart * list plaquette)) : option (list dart * list plaquette) :=
  match st with
  | None => None
  | Some (vis, acc) =>
    if visited vis d then Some (vis, acc)
    else match trace L adj (fst d) (snd d) with
         | Closed w =>
           let vis' := walk_darts w ++ vis in
           if walk_valid L w then Some (vis', mk_plaquette L w :: acc) else Some (vis', acc)
         | _ => None
         end
  end.

Definition all_darts (L : lattice) : list dart :=
  flat_map (fun e => [(e, true); (e, false)]) (seq 0 (nE L)).

(* None = the constructor raised (stuck walk); plaquettes in discovery order *)
Definition find_all_plaquettes (L : lattice) : option (list plaquette) :=
  let adj := adj_table L in
  match fold_left (fun st d => sweep_one L adj d st) (all_darts L) (Some ([], [])) with
  | None => None
  | Some (_, acc) => Some (rev acc)
  end.

(* ---------- plaquette tables (Lattice.plaquettes property) ---------- *)
(* INVALID is np.iinfo(int).max; modelled by None *)
Fixpoint set_nth {A} (n : nat) (x : A) (l : list A) : list A :=
  match l, n with
  | [], _ => []
  | _ :: r, O => x :: r
  | y :: r, S n' => y :: set_nth n' x r
  end.

(* edges_plaquettes[p.edges, dir_index] = n  (col 0 for +1, col 1 for -1) *)
Definition ep_row := (option nat * option nat)%type.
Definition ep_write (n : nat) (tab : list ep_row) (ed : nat * bool) : list ep_row :=
  let row := nth (fst ed) tab (None, None) in
  set_nth (fst ed) (if snd ed then (Some n, snd row) else (fst row, Some n)) tab.
Definition edges_plaquettes (L : lattice) (ps : list plaquette) : list ep_row :=
  fst (fold_left (fun (st : list ep_row * nat) (p : plaquette) =>
         (fold_left (ep_write (snd st)) (combine (p_edges p) (p_dirs p)) (fst st), S (snd st)))
       ps (repeat (None, None) (nE L), 0%nat)).

(* vertices_plaquettes: first INVALID slot of each (distinct) vertex row gets n;
   None = IndexError (no free slot) *)
Fixpoint set_first_invalid (n : nat) (row : list (option nat)) : option (list (option nat)) :=
  match row with
  | [] => None
  | None :: r => Some (Some n :: r)
  | Some x :: r => option_map (cons (Some x)) (set_first_invalid n r)
  end.
Fixpoint dedup (l : list nat) : list nat :=
  match l with
  | [] => []
  | x :: r => if existsb (Nat.eqb x) r then dedup r else x :: dedup r
  end.
Definition vp_write (n : nat) (tab : option (list (list (option nat)))) (v : nat) :=
  match tab with
  | None => None
  | Some t => match set_first_invalid n (nth v t []) with
              | None => None
              | Some row => Some (set_nth v row t)
              end
  end.
Definition max_coord (L : lattice) : nat := fold_right Nat.max 0%nat (coordination_bincount L).
Definition vertices_plaquettes (L : lattice) (ps : list plaquette) : option (list (list (option nat))) :=
  fst (fold_left (fun (st : option (list (list (option nat))) * nat) (p : plaquette) =>
         (fold_left (vp_write (snd st)) (dedup (p_verts p)) (fst st), S (snd st)))
       ps (Some (repeat (repeat None (max_coord L)) (nV L)), 0%nat)).

(* plaquette neighbours via  np.where(edge_plaquettes != n)[1]  *)
Definition onat_neqb (a : option nat) (n : nat) : bool :=
  match a with None => true | Some x => negb (x =? n)%nat end.
Definition roll_vals (rows : list ep_row) (n : nat) : list bool :=   (* false = col 0, true = col 1 *)
  flat_map (fun r => (if onat_neqb (fst r) n then [false] else []) ++
                     (if onat_neqb (snd r) n then [true] else [])) rows.
Definition plaquette_neighbours (ep : list ep_row) (n : nat) (p : plaquette) : list (option nat) :=
  let rows := map (fun e => nth e ep (None, None)) (p_edges p) in
  map (fun rc : ep_row * bool => if snd rc then snd (fst rc) else fst (fst rc)) (combine rows (roll_vals rows n)).

Definition all_plaquette_neighbours (L : lattice) (ps : list plaquette) : list (list (option nat)) :=
  let ep := edges_plaquettes L ps in
  map (fun np => plaquette_neighbours ep (fst np) (snd np)) (combine (seq 0 (length ps)) ps).

(* adjacency matrix as the set of True entries, row-major *)
Definition adjacency_true (L : lattice) (i j : nat) : bool :=
  existsb (fun e => ((fst e =? i)%nat && (snd e =? j)%nat) || ((fst e =? j)%nat && (snd e =? i)%nat)) (edges L).

(* ---------- every face walk with its three verdicts (used by the spec checker S:
   the property words the orientation filter as "positive area", the code as
   "winding number = -1"; both are reported so that they can be compared per input) ---------- *)
Record face := mkFace {
  f_walk : list (nat * nat * bool);
  f_nodup : bool;
  f_netzero : bool;
  f_winding : Z;
  f_area2 : Z
}.
Definition mk_face (L : lattice) (w : list (nat * nat * bool)) : face :=
  mkFace w (nodupb (walk_edges w)) (veqb (net_crossing L w) vzero)
         (winding (map (dvec L) w)) (area2 (poly_points L w)).
Definition faces_one (L : lattice) (adj : list (list nat)) (d : dart)
           (st : option (list dart * list face)) : option (list dart * list face) :=
  match st with
  | None => None
  | Some (vis, acc) =>
    if visited vis d then Some (vis, acc)
    else match trace L adj (fst d) (snd d) with
         | Closed w => Some (walk_darts w ++ vis, mk_face L w :: acc)
         | _ => None
         end
  end.
Definition all_faces (L : lattice) : option (list face) :=
  let adj := adj_table L in
  match fold_left (fun st d => faces_one L adj d st) (all_darts L) (Some ([], [])) with
  | None => None
  | Some (_, acc) => Some (rev acc)
  end.
