(* Model/Surgery.v — executable model of koala's lattice surgery (property C12):
     lattice.py     cut_boundaries (552-582), permute_vertices (523-549)
     graph_utils.py remove_vertices (130-165), remove_trailing_edges (168-194),
                    reorder_vertices (524-542)
   over the shared [lattice] record of Model/Lattice.v.  Definitions only.

   Second half: the SPECIFICATION side (what the property describes), as executable
   definitions too: [sub_lattice] (the sub-lattice on a list of kept vertices and a list of
   kept edges, renumbered by rank) and the degree notion of remove_trailing_edges. *)
From Coq Require Import List ZArith Bool Arith.
From Koala Require Import Model.Lattice.
Import ListNotations.
Open Scope Z_scope.

(* ------------------------------------------------------------------ fancy indexing *)
(* edges[idx], crossing[idx] for an index list idx (numpy fancy indexing, in range) *)
Definition select_edges (L : lattice) (idx : list nat) : lattice :=
  mkLattice (scale L) (pos L) (map (edge_at L) idx) (map (cross_at L) idx).

(* ------------------------------------------------------------------ cut_boundaries *)
(* lattice.py:568-576
     x_external = crossing[:,0] != 0 ; y_external = crossing[:,1] != 0
     condx = 1 - x_external*cut[0] ; condy = 1 - y_external*cut[1] ; cond = condx*condy
     internal_edge_ind = np.nonzero(cond)[0]                                            *)
Definition b2z (b : bool) : Z := if b then 1 else 0.
Definition cut_cond (bx by_ : bool) (c : vec) : Z :=
  let x_external := negb (fst c =? 0) in
  let y_external := negb (snd c =? 0) in
  let condx := 1 - b2z x_external * b2z bx in
  let condy := 1 - b2z y_external * b2z by_ in
  condx * condy.
Definition internal_edge_ind (L : lattice) (bx by_ : bool) : list nat :=
  filter (fun e => negb (cut_cond bx by_ (cross_at L e) =? 0)) (seq 0 (nE L)).
(* lattice.py:577-580  Lattice(vertices, edges[ind], crossing[ind]) *)
Definition cut_boundaries (L : lattice) (bx by_ : bool) : lattice :=
  select_edges L (internal_edge_ind L bx by_).

(* ------------------------------------------------------------------ remove_vertices *)
Definition memb (v : nat) (l : list nat) : bool := existsb (Nat.eqb v) l.

(* graph_utils.py:145-146  set_for_removal = full(nV, False); set_for_removal[indices] = True *)
Definition set_for_removal (n : nat) (indices : list nat) : list bool :=
  map (fun v => memb v indices) (seq 0 n).
(* graph_utils.py:149  np.cumsum(set_for_removal) *)
Fixpoint cumsum_b (acc : Z) (l : list bool) : list Z :=
  match l with
  | [] => []
  | b :: r => let a := acc + b2z b in a :: cumsum_b a r
  end.
(* graph_utils.py:150-151  new_index = arange(nV) - subtraction ; new_index[indices] = -1 *)
Definition new_index (n : nat) (indices : list nat) : list Z :=
  let sfr := set_for_removal n indices in
  let subtraction := cumsum_b 0 sfr in
  map (fun vs : nat * (bool * Z) =>
         let '(v, (removed, s)) := vs in if removed then -1 else Z.of_nat v - s)
      (combine (seq 0 n) (combine sfr subtraction)).
(* graph_utils.py:152  new_adjacency = new_index[edges.indices] *)
Definition new_adjacency (L : lattice) (indices : list nat) : list (Z * Z) :=
  let ni := new_index (nV L) indices in
  map (fun e : nat * nat => (nth (fst e) ni (-1), nth (snd e) ni (-1))) (edges L).
(* graph_utils.py:155  np.where(new_adjacency == -1)[0] : row index once per matching ENTRY,
   row-major (an edge both of whose ends go appears twice) *)
Definition edges_to_remove (L : lattice) (indices : list nat) : list nat :=
  flat_map (fun er : nat * (Z * Z) =>
              let '(e, (a, b)) := er in
              (if a =? -1 then [e] else []) ++ (if b =? -1 then [e] else []))
           (combine (seq 0 (nE L)) (new_adjacency L indices)).
(* np.delete(arr, rows, axis=0): drop the listed rows (duplicates allowed), keep order *)
Definition np_delete {A} (l : list A) (rows : list nat) : list A :=
  map snd (filter (fun ix : nat * A => negb (memb (fst ix) rows)) (combine (seq 0 (length l)) l)).
(* positions[~set_for_removal] *)
Definition mask_select {A} (l : list A) (mask : list bool) : list A :=
  map snd (filter (fun xm : bool * A => negb (fst xm)) (combine mask l)).

(* None = IndexError (an index >= n_vertices).  Result: new lattice, edges_to_remove *)
Definition remove_vertices (L : lattice) (indices : list nat) : option (lattice * list nat) :=
  if forallb (fun i => (i <? nV L)%nat) indices then
    let etr := edges_to_remove L indices in
    let new_vertices := mask_select (pos L) (set_for_removal (nV L) indices) in
    let new_adj := np_delete (new_adjacency L indices) etr in
    let new_crossing := np_delete (crossing L) etr in
    Some (mkLattice (scale L) new_vertices
                    (map (fun ab : Z * Z => (Z.to_nat (fst ab), Z.to_nat (snd ab))) new_adj)
                    new_crossing, etr)
  else None.

(* ------------------------------------------------------------------ remove_trailing_edges *)
(* graph_utils.py:182-184  number_of_connections = [len(a) for a in vertices.adjacent_edges]
                           dangling = argwhere(number_of_connections == 1)               *)
Definition number_of_connections (L : lattice) (v : nat) : nat := length (sorted_adj L v).
Definition dangling_vertices (L : lattice) : list nat :=
  filter (fun v => (number_of_connections L v =? 1)%nat) (seq 0 (nV L)).

Inductive trailing_result :=
| TrailDone (L : lattice)
| TrailOutOfFuel
| TrailBadIndex.          (* remove_vertices raised: impossible, dangling vertices are in range *)

(* graph_utils.py:186-194  while True: if no dangling: break; lattice = remove_vertices(...) *)
Fixpoint trailing_loop (fuel : nat) (L : lattice) : trailing_result :=
  match fuel with
  | O => TrailOutOfFuel
  | S fuel' =>
    match dangling_vertices L with
    | [] => TrailDone L
    | d => match remove_vertices L d with
           | None => TrailBadIndex
           | Some (L', _) => trailing_loop fuel' L'
           end
    end
  end.
Definition remove_trailing_edges (L : lattice) : trailing_result :=
  trailing_loop (S (nV L)) L.

(* ------------------------------------------------------------------ permute_vertices *)
(* lattice.py:540-542  inverse_ordering = zeros(nV); inverse_ordering[ordering] = arange(nV)
   (sequential assignment: for a repeated target the last write wins) *)
Definition inverse_ordering (n : nat) (ordering : list nat) : list nat :=
  fold_left (fun acc io => set_nth (snd io) (fst io) acc)
            (combine (seq 0 (length ordering)) ordering) (repeat 0%nat n).
(* None = IndexError / shape mismatch: len(ordering) != nV or an entry out of range *)
Definition permute_vertices (L : lattice) (ordering : list nat) : option lattice :=
  if (length ordering =? nV L)%nat && forallb (fun i => (i <? nV L)%nat) ordering then
    let inv := inverse_ordering (nV L) ordering in
    Some (mkLattice (scale L)
                    (map (pos_at L) ordering)                                   (* positions[ordering] *)
                    (map (fun e : nat * nat => (nth (fst e) inv 0%nat, nth (snd e) inv 0%nat)) (edges L))
                    (crossing L))
  else None.

(* ------------------------------------------------------------------ reorder_vertices *)
(* graph_utils.py:536  invperm = np.argsort(permutation): indices sorted by value.  Modelled as a
   stable insertion sort; numpy's default sort is not stable but a permutation has no ties. *)
Fixpoint insert_by (key : nat -> nat) (x : nat) (l : list nat) : list nat :=
  match l with
  | [] => [x]
  | y :: r => if (key x <? key y)%nat then x :: y :: r else y :: insert_by key x r
  end.
Definition argsort (l : list nat) : list nat :=
  fold_left (fun acc i => insert_by (fun j => nth j l 0%nat) i acc) (seq 0 (length l)) [].
(* graph_utils.py:538-541  new_pos = pos[invperm] ; new_edges = permutation[edges]
   None = IndexError (an edge end >= len(permutation)); pos[invperm] is always in range when
   len(permutation) <= nV *)
Definition reorder_vertices (L : lattice) (permutation : list nat) : option lattice :=
  if (length permutation <=? nV L)%nat
     && forallb (fun e : nat * nat => (fst e <? length permutation)%nat && (snd e <? length permutation)%nat) (edges L)
  then
    let invperm := argsort permutation in
    Some (mkLattice (scale L)
                    (map (pos_at L) invperm)
                    (map (fun e : nat * nat => (nth (fst e) permutation 0%nat, nth (snd e) permutation 0%nat)) (edges L))
                    (crossing L))
  else None.

(* ================================================================== SPECIFICATION SIDE *)
(* rank of v in a list of kept vertices (position of its first occurrence; length if absent) *)
Fixpoint rank (kv : list nat) (v : nat) : nat :=
  match kv with
  | [] => 0%nat
  | x :: r => if (x =? v)%nat then 0%nat else S (rank r v)
  end.

(* the sub-lattice of L on the kept vertices kv and kept edges ke (lists of original indices,
   in the order in which they are kept), vertices renumbered by rank *)
Definition sub_lattice (L : lattice) (kv ke : list nat) : lattice :=
  mkLattice (scale L)
            (map (pos_at L) kv)
            (map (fun e => (rank kv (fst (edge_at L e)), rank kv (snd (edge_at L e)))) ke)
            (map (cross_at L) ke).

(* "edge e crosses a selected boundary" *)
Definition crosses_selected (bx by_ : bool) (c : vec) : bool :=
  (bx && negb (fst c =? 0)) || (by_ && negb (snd c =? 0)).

(* both ends of edge e satisfy keep *)
Definition both_ends (L : lattice) (keep : nat -> bool) (e : nat) : bool :=
  keep (fst (edge_at L e)) && keep (snd (edge_at L e)).

(* degree as remove_trailing_edges counts it: number of edges of the set K (a predicate on the
   edge indices of L) incident on v.  Equals the graph degree when there are no self-loops. *)
Definition deg_in (L : lattice) (K : nat -> bool) (v : nat) : nat :=
  length (filter (fun e => K e && incident_b L v e) (seq 0 (nE L))).
Definition no_degree_one (L : lattice) (K : nat -> bool) : Prop :=
  forall v, deg_in L K v <> 1%nat.

(* ghost version of the loop that also tracks which ORIGINAL vertices / edges survive;
   used to state trailing_spec and by the harness to compare surviving original edge ids *)
Definition kept_vertices (L : lattice) (indices : list nat) : list nat :=
  filter (fun v => negb (memb v indices)) (seq 0 (nV L)).
Definition kept_edges (L : lattice) (indices : list nat) : list nat :=
  filter (both_ends L (fun v => negb (memb v indices))) (seq 0 (nE L)).

Fixpoint trailing_ghost (fuel : nat) (L : lattice) (kv ke : list nat) : option (list nat * list nat) :=
  match fuel with
  | O => None
  | S fuel' =>
    match dangling_vertices L with
    | [] => Some (kv, ke)
    | d => match remove_vertices L d with
           | None => None
           | Some (L', _) =>
             trailing_ghost fuel' L' (map (fun i => nth i kv 0%nat) (kept_vertices L d))
                                     (map (fun i => nth i ke 0%nat) (kept_edges L d))
           end
    end
  end.
Definition trailing_survivors (L : lattice) : option (list nat * list nat) :=
  trailing_ghost (S (nV L)) L (seq 0 (nV L)) (seq 0 (nE L)).
