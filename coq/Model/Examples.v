(* Model/Examples.v — executable models of the built-in generators of koala/example_graphs.py.
   Index arithmetic (edges, crossings, colourings) exactly, in Z, over the GENERATED next_direction
   closures (Gen/TilingGen.v).  Positions exactly where they are rational; see each generator.
   Definitions only. *)
From Coq Require Import List ZArith Bool Arith.
From Koala Require Import Gen.TilingGen Model.Lattice Model.Tiling.
Import ListNotations.
Open Scope Z_scope.

(* ================= honeycomb_lattice (example_graphs.py:246-344) ================= *)
(* n_vertical = int(np.round(n / sqrt 3)) = floor(n/sqrt3 + 1/2) = floor((2 n sqrt3 + 3) / 6)
   = floor((floor(sqrt(12 n^2)) + 3) / 6)   (n/sqrt3 is never a half-integer) *)
Definition honeycomb_nv (n : Z) : Z := (Z.sqrt (12 * n * n) + 3) / 6.

Definition hc_cross_h (n c : Z) (x : Z) : Z := if c mod n =? n - 1 then x else 0.
Definition hc_cross_v (n nv c : Z) (y : Z) : Z := if n * (nv - 1) <=? c then y else 0.

Definition honeycomb_edges (n : Z) : list (Z * Z) :=
  let nv := honeycomb_nv n in
  let cells := zrange (nv * n) in
  (* internal_ed + 4*c *)
  flat_map (fun c => [(0 + 4 * c, 1 + 4 * c); (2 + 4 * c, 1 + 4 * c); (2 + 4 * c, 3 + 4 * c)]) cells
  (* ext_hor *)
  ++ map (fun c => (2 + 4 * c, 1 + 4 * honeycomb_next_direction n nv c (1, 0))) cells
  (* ext_ver *)
  ++ map (fun c => (4 * honeycomb_next_direction n nv c (0, 1), 3 + 4 * c)) cells
  (* ext_diag *)
  ++ map (fun c => (4 * honeycomb_next_direction n nv c (1, 1), 3 + 4 * c)) cells.

(* crossing_hor[arange(nv)*n + (n-1), 0] = 1; crossing_ver[arange(n*(nv-1), n*nv), 1] = -1;
   crossing_diag: both masks with -1 *)
Definition honeycomb_crossing (n : Z) : list (Z * Z) :=
  let nv := honeycomb_nv n in
  let cells := zrange (nv * n) in
  flat_map (fun _ => [(0, 0); (0, 0); (0, 0)]) cells
  ++ map (fun c => (hc_cross_h n c 1, 0)) cells
  ++ map (fun c => (0, hc_cross_v n nv c (-1))) cells
  ++ map (fun c => (hc_cross_h n c (-1), hc_cross_v n nv c (-1))) cells.

(* np.array([0,2,0]*N + [1,1]*N + [2]*N) *)
Definition honeycomb_coloring (n : Z) : list Z :=
  let cells := zrange (honeycomb_nv n * n) in
  flat_map (fun _ => [0; 2; 0]) cells ++ flat_map (fun _ => [1; 1]) cells ++ flat_map (fun _ => [2]) cells.

(* positions: site k of cell (h, v) = (c mod n, c / n) is
     ( (xk + h) / n ,  (sqrt3*yk/12 + 0.01 + v*sqrt3) / (sqrt3*nv) )
       = ( (xk4 + 4h) / (4n) ,  ((yk + 12 v) + 12*delta) / (12 nv) ),   delta = 0.01/sqrt3,
   xk4 in {1,1,3,3}, yk in {1,5,7,11}.  The y-coordinate is rational up to the UNIFORM translation
   delta/nv, which is irrational; the model uses delta to 18 decimals (12*delta*10^18 rounded).  The
   rotation system, the areas and the census are invariant under a uniform translation. *)
Definition hc_D : Z := 1000000000000000000.
Definition hc_delta12 : Z := 69282032302755092.
Definition honeycomb_scale (n : Z) : Z := 12 * n * honeycomb_nv n * hc_D.
Definition honeycomb_pos (n : Z) : list (Z * Z) :=
  let nv := honeycomb_nv n in
  flat_map (fun c =>
     let h := c mod n in let v := c / n in
     map (fun xy : Z * Z => ((fst xy + 4 * h) * (3 * nv * hc_D), ((snd xy + 12 * v) * hc_D + hc_delta12) * n))
         [(1, 1); (1, 5); (3, 7); (3, 11)])
   (zrange (nv * n)).
Definition honeycomb (n : Z) : zlattice :=
  mkZL (honeycomb_scale n) (honeycomb_pos n) (honeycomb_edges n) (honeycomb_crossing n).

(* ================= hex_square_oct_lattice (example_graphs.py:347-406) ================= *)
Definition hso_edges (n : Z) : list (Z * Z) :=
  let cells := zrange (n * n) in
  flat_map (fun c => [(0 + 6 * c, 1 + 6 * c); (1 + 6 * c, 2 + 6 * c); (2 + 6 * c, 3 + 6 * c);
                      (3 + 6 * c, 4 + 6 * c); (4 + 6 * c, 5 + 6 * c); (5 + 6 * c, 0 + 6 * c)]) cells
  ++ map (fun c => (4 + 6 * c, 2 + 6 * hso_next_direction n c (1, 0))) cells
  ++ map (fun c => (1 + 6 * hso_next_direction n c (1, 0), 5 + 6 * c)) cells
  ++ map (fun c => (6 * hso_next_direction n c (0, 1), 3 + 6 * c)) cells.
Definition hso_crossing (n : Z) : list (Z * Z) :=
  let cells := zrange (n * n) in
  flat_map (fun _ => [(0, 0); (0, 0); (0, 0); (0, 0); (0, 0); (0, 0)]) cells
  ++ map (fun c => (hc_cross_h n c 1, 0)) cells
  ++ map (fun c => (hc_cross_h n c (-1), 0)) cells
  ++ map (fun c => (0, hc_cross_v n n c (-1))) cells.
(* site_coordinates in hundredths (decimal literals); all_sites = (site + (h, v)) / n; scale 100 n *)
Definition hso_pos (n : Z) : list (Z * Z) :=
  flat_map (fun c =>
     let h := c mod n in let v := c / n in
     map (fun xy : Z * Z => (fst xy + 100 * h, snd xy + 100 * v))
         [(50, 17); (20, 35); (20, 65); (50, 82); (80, 65); (80, 35)])
   (zrange (n * n)).
Definition hex_square_oct (n : Z) : zlattice :=
  mkZL (100 * n) (hso_pos n) (hso_edges n) (hso_crossing n).

(* ================= tri_non_lattice (example_graphs.py:409-445) ================= *)
Definition tri_non_cell : unit_cell :=
  mkCell 10 [(4, 1); (1, 4); (4, 4); (6, 6)]
         [(0, 1); (1, 2); (2, 0); (3, 2); (3, 0); (1, 3)]
         [(0, 0); (0, 0); (0, 0); (0, 0); (0, 1); (-1, 0)].
Definition tri_non (nx ny : Z) : zlattice := tile_unit_cell tri_non_cell nx ny.
Definition tri_non_coloring (nx ny : Z) : list Z := tile_coloring [1; 2; 0; 1; 2; 0] nx ny.

(* ================= square_lattice (example_graphs.py:707-736) ================= *)
(* vertices_array[i, j] = i*ny + j; positions[i*ny + j] = ((2i+1)/(2nx), (2j+1)/(2ny));
   edges_x[c] = (roll(va,1,0)[i,j], va[i,j]) = (((i-1) mod nx)*ny + j, c), crossing (i == 0, 0);
   edges_y[c] = (i*ny + (j-1) mod ny, c), crossing (0, j == 0);   i = c / ny, j = c mod ny *)
Definition square_edges (nx ny : Z) : list (Z * Z) :=
  let cells := zrange (nx * ny) in
  map (fun c => (((c / ny - 1) mod nx) * ny + c mod ny, c)) cells
  ++ map (fun c => ((c / ny) * ny + (c mod ny - 1) mod ny, c)) cells.
Definition square_crossing (nx ny : Z) : list (Z * Z) :=
  let cells := zrange (nx * ny) in
  map (fun c => (b2z (c / ny =? 0), 0)) cells ++ map (fun c => (0, b2z (c mod ny =? 0))) cells.
Definition square_pos (nx ny : Z) : list (Z * Z) :=
  map (fun c => ((2 * (c / ny) + 1) * ny, (2 * (c mod ny) + 1) * nx)) (zrange (nx * ny)).
Definition square (nx ny : Z) : zlattice :=
  mkZL (2 * nx * ny) (square_pos nx ny) (square_edges nx ny) (square_crossing nx ny).

(* ================= single_plaquette / higher_coordination_number_example ================= *)
(* positions use cos/sin: taken from the implementation (exact dyadics, common [scale]) *)
Definition polygon_edges (n : Z) : list (Z * Z) := map (fun i => (i, (i + 1) mod n)) (zrange n).
Definition single_plaquette (s : Z) (ps : list (Z * Z)) (n : Z) : zlattice :=
  mkZL s ps (polygon_edges n) (map (fun _ => (0, 0)) (zrange n)).
(* the centre (0.5, 0.5) is vertex n; scale must be even (it is a power of two >= 2) *)
Definition higher_coordination (s : Z) (ps : list (Z * Z)) (n : Z) : zlattice :=
  mkZL s (ps ++ [(s / 2, s / 2)])
       (polygon_edges n ++ map (fun i => (i, n)) (zrange n))
       (map (fun _ => (0, 0)) (zrange n) ++ map (fun _ => (0, 0)) (zrange n)).

(* ================= n_ladder (example_graphs.py:173-212) ================= *)
(* positions (np.linspace, optional sin wobble) taken from the implementation *)
Definition ladder_edges (n : Z) : list (Z * Z) :=
  map (fun i => (i, (i + 1) mod n)) (zrange n)
  ++ map (fun i => (i + n, (i + 1) mod n + n)) (zrange n)
  ++ map (fun i => (i, i + n)) (zrange n).
Definition ladder_crossing (n : Z) : list (Z * Z) :=
  let hor := map (fun i => (b2z (i =? n - 1), 0)) (zrange n) in
  hor ++ hor ++ map (fun _ => (0, 0)) (zrange n).
Definition n_ladder (s : Z) (ps : list (Z * Z)) (n : Z) : zlattice :=
  mkZL s ps (ladder_edges n) (ladder_crossing n).
(* exact positions without wobble: x_i = 0.05 + 0.9 i/(n-1), y = 0.3 / 0.7; scale 20 (n-1) *)
Definition ladder_pos (n : Z) : list (Z * Z) :=
  map (fun i => (n - 1 + 18 * i, 6 * (n - 1))) (zrange n)
  ++ map (fun i => (n - 1 + 18 * i, 14 * (n - 1))) (zrange n).
Definition n_ladder_straight (n : Z) : zlattice := n_ladder (20 * (n - 1)) (ladder_pos n) n.

(* ================= make_honeycomb (example_graphs.py:629-632) ================= *)
Definition make_honeycomb_ujk (n : Z) : list Z := map (fun _ => 1) (honeycomb_edges n).
(* flux of a plaquette for bond variables u (flux_finder.fluxes_from_bonds, real=True):
   sign_real[n_sides mod 4] * prod(u[e] * direction) *)
Definition flux_of (u : list Z) (p : plaquette) : Z :=
  let sgn4 := nth (Nat.modulo (n_sides p) 4) [1; -1; -1; 1] 0 in
  sgn4 * fold_right Z.mul 1 (map (fun ed : nat * bool => nth (fst ed) u 0 * (if snd ed then 1 else -1))
                                 (combine (p_edges p) (p_dirs p))).
(* ground_state_ansatz(6) = +1 on every hexagon *)
Definition honeycomb_flux_sector_ok (n : Z) : bool :=
  match find_all_plaquettes (to_lattice (honeycomb n)) with
  | None => false
  | Some ps => forallb (fun p => flux_of (make_honeycomb_ujk n) p =? 1) ps
  end.

(* ================= spec predicates per generator (used by the theorems and by S) ================= *)
Definition honeycomb_ok (n : Z) : bool :=
  let L := to_lattice (honeycomb n) in
  closed_tiling L [(6%nat, Z.to_nat (2 * n * honeycomb_nv n))] && all_degree L 3.
Definition hso_ok (n : Z) : bool :=
  let L := to_lattice (hex_square_oct n) in
  closed_tiling L [(4%nat, Z.to_nat (n * n)); (6%nat, Z.to_nat (n * n)); (8%nat, Z.to_nat (n * n))]
  && all_degree L 3.
Definition tri_non_ok (nx ny : Z) : bool :=
  let L := to_lattice (tri_non nx ny) in
  closed_tiling L [(3%nat, Z.to_nat (nx * ny)); (9%nat, Z.to_nat (nx * ny))] && all_degree L 3.
Definition square_ok (nx ny : Z) : bool :=
  let L := to_lattice (square nx ny) in
  closed_tiling L [(4%nat, Z.to_nat (nx * ny))] && all_degree L 4.
Definition ladder_ok (n : Z) : bool :=
  open_census (to_lattice (n_ladder_straight n)) [(4%nat, Z.to_nat n)].
