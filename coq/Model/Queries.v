(* Model/Queries.v — executable model of the query helpers of koala/graph_utils.py (C02).
   Definitions only.  Exact numbers as in Model/Lattice.v (positions scaled by [scale L]). *)
From Coq Require Import List ZArith Bool Arith.
From Koala Require Import Model.Lattice.
Import ListNotations.
Open Scope Z_scope.

(* graph_utils.py:197-227  vertex_neighbours(lattice, v)
     edge_indices = np.where(np.any(v == adjacency, axis=-1))[0]          ascending edge ids touching v
     start_or_end = (edges != v)[:, 1]                                     True iff edges[e][1] != v
     vertex_indices = take_along_axis(edges, start_or_end.astype(int))     edges[e][1] if True else edges[e][0] *)
Definition q_touch (L : lattice) (v e : nat) : bool :=
  ((fst (edge_at L e) =? v) || (snd (edge_at L e) =? v))%nat.
Definition q_edge_ids (L : lattice) (v : nat) : list nat := filter (q_touch L v) (seq 0 (nE L)).
Definition q_start_or_end (L : lattice) (v e : nat) : bool := negb (snd (edge_at L e) =? v)%nat.
Definition q_far_end (L : lattice) (v e : nat) : nat :=
  if q_start_or_end L v e then snd (edge_at L e) else fst (edge_at L e).
(* returns (vertex_indices, edge_indices) *)
Definition vertex_neighbours (L : lattice) (v : nat) : list nat * list nat :=
  let es := q_edge_ids L v in (map (q_far_end L v) es, es).

(* graph_utils.py:230-248  edge_neighbours(lattice, e) *)
Definition q_edge_neighbours (L : lattice) (e : nat) : list nat :=
  let v1 := fst (edge_at L e) in
  let v2 := snd (edge_at L e) in
  filter (fun f => (((fst (edge_at L f) =? v1) || (snd (edge_at L f) =? v1))
                    || ((fst (edge_at L f) =? v2) || (snd (edge_at L f) =? v2)))%nat
                   && negb (f =? e)%nat)          (* mask[edge_index] = False *)
         (seq 0 (nE L)).

(* graph_utils.py:288-315  get_edge_vectors(v, edge_indices, l)
     pos[other] - pos[v] + (2*start_or_end - 1) * crossing[e] *)
Definition q_edge_vector (L : lattice) (v e : nat) : vec :=
  let soe := q_start_or_end L v e in
  vadd (vsub (pos_at L (q_far_end L v e)) (pos_at L v))
       (vscale (if soe then 1 else -1) (vscale (scale L) (cross_at L e))).
Definition get_edge_vectors (L : lattice) (v : nat) (es : list nat) : list vec := map (q_edge_vector L v) es.

(* graph_utils.py:251-272  clockwise_about(v, g)
     angles = arctan2(y, x); angles = where(angles > 0, angles, 2*pi + angles)   -> beta in (0, 2*pi]
     ordering = argsort(angles)                                                  ascending
   Exact comparator: half2 = 0 for beta in (0, pi], 1 for beta in (pi, 2*pi] (the positive x axis itself,
   angle 0 -> 2*pi, sorts LAST); inside one half beta v < beta w iff cross(v, w) > 0. *)
Definition half2 (v : vec) : Z :=
  if (0 <? snd v) || ((snd v =? 0) && (fst v <? 0)) then 0 else 1.
Definition ang2_lt (v w : vec) : bool :=
  (half2 v <? half2 w) || ((half2 v =? half2 w) && (0 <? vcross v w)).
(* stable insertion into a list sorted by ascending beta: x goes in front of the first y with beta x < beta y *)
Fixpoint insert_asc (key : nat -> vec) (x : nat) (l : list nat) : list nat :=
  match l with
  | [] => [x]
  | y :: r => if ang2_lt (key x) (key y) then x :: y :: r else y :: insert_asc key x r
  end.
Definition sort_asc (key : nat -> vec) (l : list nat) : list nat :=
  fold_left (fun acc x => insert_asc key x acc) l [].
(* returns (ordered_vertex_indices, ordered_edge_indices) *)
Definition clockwise_about (L : lattice) (v : nat) : list nat * list nat :=
  let es := sort_asc (q_edge_vector L v) (q_edge_ids L v) in (map (q_far_end L v) es, es).
Definition clockwise_edges_about (L : lattice) (v : nat) : list nat := snd (clockwise_about L v).

(* graph_utils.py:318-347  adjacent_plaquettes(lattice, p_index)
     rows = lattice.edges.adjacent_plaquettes[p.edges]; drop rows containing INVALID;
     other = rows[:,0] if rows[:,1] == p_index else rows[:,1]
   returns (plaquette_indices, edge_indices); None = IndexError (p_index out of range) *)
Definition q_adjacent_plaquettes (ps : list plaquette) (ep : list ep_row) (pidx : nat)
  : option (list nat * list nat) :=
  match nth_error ps pidx with
  | None => None
  | Some p =>
    let valid := flat_map (fun e => match nth e ep (None, None) with
                                    | (Some a, Some b) => [(e, (a, b))]
                                    | _ => []
                                    end) (p_edges p) in
    Some (map (fun r => if (snd (snd r) =? pidx)%nat then fst (snd r) else snd (snd r)) valid,
          map (fun r => fst r) valid)
  end.

(* every query of one lattice, for the correspondence run *)
Definition all_vertex_neighbours (L : lattice) : list (list nat * list nat) :=
  map (vertex_neighbours L) (seq 0 (nV L)).
Definition all_q_edge_neighbours (L : lattice) : list (list nat) :=
  map (q_edge_neighbours L) (seq 0 (nE L)).
Definition all_clockwise_about (L : lattice) : list (list nat * list nat) :=
  map (clockwise_about L) (seq 0 (nV L)).
Definition all_edge_vectors (L : lattice) : list (list vec) :=
  map (fun v => get_edge_vectors L v (q_edge_ids L v)) (seq 0 (nV L)).
Definition all_q_adjacent_plaquettes (L : lattice) (ps : list plaquette) : list (option (list nat * list nat)) :=
  let ep := edges_plaquettes L ps in
  map (q_adjacent_plaquettes ps ep) (seq 0 (length ps)).
