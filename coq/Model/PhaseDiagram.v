(* Model/PhaseDiagram.v — compute_phase_diagram end to end (koala/phase_diagrams.py:136-156) on top of
   Model/ParMap.v, and the plot transforms of the two sampling functions (phase_diagrams.py:52-58, 84-107)
   over exact rationals.  Definitions only.

   compute_phase_diagram(sampling_points, function, extra_args, n_jobs):
       chunk_size = max(1, -(-len(sampling_points) // (4 * n_jobs)))
       data = pool.map(computation, sampling_points, chunk_size=chunk_size).T ;  return data
   pool.map returns np.concatenate of the per-chunk arrays np.array([function(J) for J in Js]):
     * function returns a number      -> shape (n,),    .T is the identity                [cpd_scalar]
     * function returns a d-vector    -> shape (n, d),  .T has shape (d, n)               [cpd_vector]
     * function returns an a x b matrix -> shape (n, a, b), .T REVERSES the axes: (b, a, n) [cpd_matrix]
   numpy reads d (resp. a, b) off the array itself: shape[1] of a non-empty array = length of its first row. *)
From Coq Require Import List ZArith QArith Bool Arith.
From Koala Require Import Model.Sampling Model.ParMap.
Import ListNotations.

Section Compute.
Context {A C : Type}.

(* the tasks handed to the pool by the call as coded now (integer chunk size) *)
Definition koala_chunks (n_jobs : positive) (xs : list A) : list (list A) :=
  chunk_tasks_by (fun _ => Z.of_nat (koala_chunk_size (length xs) n_jobs)) xs.

(* the calls of [function] made by the workers, task by task: computation maps it over the chunk *)
Definition evaluated_points (n_jobs : positive) (xs : list A) : list A := concat (koala_chunks n_jobs xs).

Definition ncols {X : Type} (rows : list (list X)) : nat := match rows with [] => 0%nat | r :: _ => length r end.

Definition cpd_scalar (f : A -> C) (pool : (list A -> list C) -> list (nat * list A) -> list (nat * list C))
           (n_jobs : positive) (xs : list A) : option (list C) :=
  parmap f pool n_jobs xs.

Definition cpd_vector (f : A -> list C)
           (pool : (list A -> list (list C)) -> list (nat * list A) -> list (nat * list (list C)))
           (n_jobs : positive) (xs : list A) : option (list (list C)) :=
  option_map (fun rows => transpose (ncols rows) rows) (parmap f pool n_jobs xs).

(* .T of a three-dimensional array (n, a, b): result[k][j][i] = rows[i][j][k] *)
Definition fibre (j k : nat) (rows : list (list (list C))) : list C :=
  flat_map (fun m => match nth_error m j with
                     | Some r => match nth_error r k with Some c => [c] | None => [] end
                     | None => [] end) rows.
Definition transpose3 (a b : nat) (rows : list (list (list C))) : list (list (list C)) :=
  map (fun k => map (fun j => fibre j k rows) (seq 0 a)) (seq 0 b).

Definition cpd_matrix (f : A -> list (list C))
           (pool : (list A -> list (list (list C))) -> list (nat * list A) -> list (nat * list (list (list C))))
           (n_jobs : positive) (xs : list A) : option (list (list (list C))) :=
  option_map (fun rows => transpose3 (ncols rows) (match rows with [] => 0%nat | m :: _ => ncols m end) rows)
             (parmap f pool n_jobs xs).

End Compute.

(* ------------------------------------------------------------------ plot transforms, exact
   skew = [[1, cos(pi/3)], [0, sin(pi/3)]] with cos(pi/3) = 1/2; the second cartesian coordinate is kept in
   UNITS OF sin(pi/3) = sqrt(3)/2 (the only irrational involved), i.e. the model's (X, Y) stands for the
   cartesian point (X, Y * sqrt(3)/2).  In these units everything the code does is rational:
     centerp = (1/2, tan(pi/6)/2) = (1/2, (1/3) * sqrt(3)/2)                      -> (1/2, 1/3)
     rotation(t), t = -2 pi i / 3:  cos t = 1 (i = 0), -1/2 (i = 1, 2);  sin t = 0, -sqrt(3)/2, +sqrt(3)/2
       x' = cos t * x - sin t * y           -> X' = c * X - (3/4) * sg * Y        (sin t * y = sg * (3/4) * Y)
       y' = sin t * x + cos t * y           -> Y' = sg * X + c * Y
     with sg = 0, -1, +1 the sign of sin t. *)
Open Scope Q_scope.

Definition skew (p : Q * Q) : Q * Q := (fst p + (1 # 2) * snd p, snd p).

Definition centerp : Q * Q := (1 # 2, 1 # 3).

Definition rot_cos (i : nat) : Q := match i with O => 1 | _ => - (1 # 2) end.
Definition rot_sgn (i : nat) : Q := match i with O => 0 | S O => - 1 | _ => 1 end.

Definition rotate_about_centre (i : nat) (q : Q * Q) : Q * Q :=
  let x := fst q - fst centerp in
  let y := snd q - snd centerp in
  (rot_cos i * x - (3 # 4) * rot_sgn i * y + fst centerp,
   rot_sgn i * x + rot_cos i * y + snd centerp).

(* one of the six point lists handed to mtri.Triangulation: lpoints = points[:, ::-1] if reflect; skew; rotate *)
Definition plot_transform (reflect : bool) (i : nat) (p : Q * Q) : Q * Q :=
  rotate_about_centre i (skew (if reflect then (snd p, fst p) else p)).

Definition nonsym_nodes (s : nat) : list (Q * Q) := map skew (nonsym_points s).
Definition sym_nodes (s : nat) : list (list (Q * Q)) :=
  flat_map (fun reflect => map (fun i => map (plot_transform reflect i) (sym_points s)) [0; 1; 2]%nat) [false; true].

(* barycentric -> cartesian with the corners the plots use (plot_triangle: (0,0), (cos, sin), (1,0)):
   a triple (Jx, Jy, Jz) is drawn at Jx * (1, 0) + Jy * (1/2, 1) + Jz * (0, 0) *)
Definition bary_to_cart (t : Q * Q * Q) : Q * Q :=
  let '(x, y, z) := t in (x * 1 + y * (1 # 2) + z * 0, x * 0 + y * 1 + z * 0).

(* the coordinate permutation of the triple that each of the six images amounts to *)
Definition permute_triple (reflect : bool) (i : nat) (t : Q * Q * Q) : Q * Q * Q :=
  let '(x, y, z) := t in
  let '(x, y, z) := if reflect then (y, x, z) else (x, y, z) in
  match i with O => (x, y, z) | S O => (y, z, x) | _ => (z, x, y) end.
