(* Model/TableSpec.v — executable (boolean) hypotheses of the plaquette-table theorems of C02.
   Definitions only.  They restate, as booleans, what C01 guarantees about the plaquette list returned
   by the sweep: no directed edge lies in two plaquettes (nor twice in one), every plaquette is a walk of
   the lattice (one direction per edge, edge ids in range, vertex i is the tail of dart i) and uses no
   edge twice (the first validity filter of _find_plaquette, lattice.py:430). *)
From Coq Require Import List ZArith Bool Arith.
From Koala Require Import Model.Lattice.
Import ListNotations.

Definition plaq_darts (p : plaquette) : list dart := combine (p_edges p) (p_dirs p).
Definition all_plaq_darts (ps : list plaquette) : list dart := flat_map plaq_darts ps.
Fixpoint dart_nodupb (l : list dart) : bool :=
  match l with
  | [] => true
  | d :: r => negb (existsb (dart_eqb d) r) && dart_nodupb r
  end.
(* "no directed edge lies in two plaquettes (nor twice in one)": C01's sweep_partition, as a boolean *)
Definition darts_disjoint (ps : list plaquette) : bool := dart_nodupb (all_plaq_darts ps).

Fixpoint list_nat_eqb (a b : list nat) : bool :=
  match a, b with
  | [], [] => true
  | x :: a', y :: b' => (x =? y)%nat && list_nat_eqb a' b'
  | _, _ => false
  end.
(* the shape of a traced walk (C01 walk_consistent): one direction per edge, edges in range, the vertex
   list is the list of tails of the darts *)
Definition plaq_walk_ok (L : lattice) (p : plaquette) : bool :=
  (length (p_dirs p) =? length (p_edges p))%nat
  && forallb (fun e => e <? nE L)%nat (p_edges p)
  && list_nat_eqb (p_verts p) (map (dtail L) (plaq_darts p)).
(* all hypotheses of the plaquette-table theorems, as one boolean *)
Definition plaq_list_ok (L : lattice) (ps : list plaquette) : bool :=
  darts_disjoint ps && forallb (fun p => plaq_walk_ok L p && nodupb (p_edges p)) ps.

(* ---------- genericity at a vertex (hypothesis of the cyclic-order statement about clockwise_about) ----------
   no zero outward vector and no two edges leaving in the same direction (the property's "generic vertex
   positions"), and no self-loop at v *)
Definition generic_keysb (key : nat -> vec) (l : list nat) : bool :=
  forallb (fun a => negb (veqb (key a) vzero)) l &&
  forallb (fun a => forallb (fun b => (a =? b)%nat || ang_lt (key a) (key b) || ang_lt (key b) (key a)) l) l.
Definition generic_at (L : lattice) (v : nat) : bool :=
  forallb (fun e => negb (fst (edge_at L e) =? snd (edge_at L e))%nat) (incident L v)
  && generic_keysb (outvec L v) (incident L v).
Definition generic_count (L : lattice) : nat := length (filter (generic_at L) (seq 0 (nV L))).
