(* Model/DeBruijn.v — the de Bruijn multigrid DUAL CONSTRUCTION of quasicrystals.de_brujin_grid, over Q,
   with abstract direction vectors (any rationals: in the correspondence run they are the float64 values of
   cos/sin the code computed, exact as dyadics; in the theorems they are arbitrary).
   Definitions only; lemmas in Proofs/DeBruijnFacts.v.

   quasicrystals.py line by line:
     70-75   line_offsets = arange(n) - (n-1)//2 ; total_offsets = line_offsets + grid_offsets[b] ;
             c_values[b,l] = total_offsets[b,l] * normals[b]                          -> line_offset, c_value
     96-107  M = [m1, -m2]^T-columns ; nu = inv(M) @ (c2 - c1) ; pos1 = m1*nu[0] + c1 -> intersect (Cramer)
     148-150 scaled_verts = all_vertices * scaling + 0.5                             -> scaled
     164-165 starting_positions = (scaling * c_values + 0.5)[:, 0, :]                -> start_pos
     167-170 find_pent_index: sum((point - starting_positions) * normals, axis=1) / scaling // 1
                                                                                      -> cell_raw, pent_index_raw
     172-175 map_to_position: (sum(index*cos(angles)), sum(index*sin(angles)))       -> map_to_position
     179     mask = any((idx < 0) + (idx >= number_of_lines))                         -> in_window (negated)
   The star vectors of map_to_position are (cos, sin)(angles) = the line gradients. *)
From Coq Require Import List ZArith Bool Arith QArith Qround.
Import ListNotations.
Open Scope Q_scope.

Definition qvec := (Q * Q)%type.
Definition qv_zero : qvec := (0, 0).
Definition qv_add (a b : qvec) : qvec := (fst a + fst b, snd a + snd b).
Definition qv_sub (a b : qvec) : qvec := (fst a - fst b, snd a - snd b).
Definition qv_scale (c : Q) (a : qvec) : qvec := (c * fst a, c * snd a).
Definition qv_dot (a b : qvec) : Q := fst a * fst b + snd a * snd b.
Definition qv_cross (a b : qvec) : Q := fst a * snd b - snd a * fst b.
Definition qv_rot90 (a : qvec) : qvec := (- snd a, fst a).
Definition qv_norm2 (a : qvec) : Q := qv_dot a a.

(* ---------- the functions the code evaluates per dual vertex (raw: on whatever arrays they are given) ---------- *)
(* find_pent_index, one bundle: ((point - start) . normal) / scaling *)
Definition cell_raw (scaling : Q) (start n q : qvec) : Q := qv_dot (qv_sub q start) n / scaling.

(* find_pent_index: ... // 1 for every bundle *)
Fixpoint pent_index_raw (scaling : Q) (starts normals : list qvec) (q : qvec) : list Z :=
  match starts, normals with
  | s :: ss, n :: ns => Qfloor (cell_raw scaling s n q) :: pent_index_raw scaling ss ns q
  | _, _ => []
  end.
Fixpoint cell_coords_raw (scaling : Q) (starts normals : list qvec) (q : qvec) : list Q :=
  match starts, normals with
  | s :: ss, n :: ns => cell_raw scaling s n q :: cell_coords_raw scaling ss ns q
  | _, _ => []
  end.

(* map_to_position: sum_b index[b] * star[b] *)
Fixpoint map_to_position (stars : list qvec) (idx : list Z) : qvec :=
  match stars, idx with
  | e :: es, k :: ks => qv_add (qv_scale (inject_Z k) e) (map_to_position es ks)
  | _, _ => qv_zero
  end.

(* kept by the clipping mask: every index in 0 .. number_of_lines-1 *)
Definition in_window (n : Z) (idx : list Z) : bool := forallb (fun k => (0 <=? k)%Z && (k <? n)%Z) idx.

(* the dual vertex of a point: its position in the tiling (before the final rescaling into the unit square) *)
Definition dual_vertex_raw (scaling : Q) (starts normals stars : list qvec) (q : qvec) : qvec :=
  map_to_position stars (pent_index_raw scaling starts normals q).

(* ---------- the grid ---------- *)
Record grid := mkGrid {
  g_grads : list qvec;      (* gradients[b] = (cos, sin)(angles[b]) : direction of the lines of bundle b, and star vector b *)
  g_normals : list qvec;    (* normals[b]   = (cos, sin)(angles[b] + pi/2) *)
  g_offsets : list Q;       (* grid_offsets[b] *)
  g_nlines : nat;           (* number_of_lines *)
  g_scaling : Q }.          (* scaling = 0.98 / (2 * max |all_vertices|) *)

Definition n_bundles (g : grid) : nat := length (g_grads g).
Definition grad (g : grid) (b : nat) : qvec := nth b (g_grads g) qv_zero.
Definition normal (g : grid) (b : nat) : qvec := nth b (g_normals g) qv_zero.
Definition offset (g : grid) (b : nat) : Q := nth b (g_offsets g) 0.

Definition line_offset (n l : nat) : Q := inject_Z (Z.of_nat l - (Z.of_nat n - 1) / 2).
Definition c_value (g : grid) (b l : nat) : qvec :=
  qv_scale (line_offset (g_nlines g) l + offset g b) (normal g b).

(* intersection of the lines  m1*nu0 + c1  and  m2*nu1 + c2 ; la.inv raises on a singular matrix *)
Definition intersect (m1 m2 c1 c2 : qvec) : option (Q * Q * qvec) :=
  let det := fst m2 * snd m1 - fst m1 * snd m2 in
  if Qeq_bool det 0 then None
  else
    let cx := fst c2 - fst c1 in let cy := snd c2 - snd c1 in
    let nu0 := (fst m2 * cy - snd m2 * cx) / det in
    let nu1 := (fst m1 * cy - snd m1 * cx) / det in
    Some (nu0, nu1, qv_add (qv_scale nu0 m1) c1).

Definition grid_vertex (g : grid) (b1 l1 b2 l2 : nat) : option (Q * Q * qvec) :=
  intersect (grad g b1) (grad g b2) (c_value g b1 l1) (c_value g b2 l2).

(* all_vertices in the code's order: b1 < b2, l1, l2 *)
Definition all_grid_vertices (g : grid) : list (option (Q * Q * qvec)) :=
  flat_map (fun b1 => flat_map (fun b2 => flat_map (fun l1 => map (fun l2 => grid_vertex g b1 l1 b2 l2)
     (seq 0 (g_nlines g))) (seq 0 (g_nlines g))) (seq (S b1) (n_bundles g - S b1))) (seq 0 (n_bundles g)).

Definition scaled (g : grid) (p : qvec) : qvec := qv_add (qv_scale (g_scaling g) p) (1 # 2, 1 # 2).
Definition start_pos (g : grid) (b : nat) : qvec := scaled g (c_value g b 0).
Definition start_positions (g : grid) : list qvec := map (start_pos g) (seq 0 (n_bundles g)).

Definition cell_coord (g : grid) (b : nat) (q : qvec) : Q := cell_raw (g_scaling g) (start_pos g b) (normal g b) q.
Definition pent_index (g : grid) (q : qvec) : list Z := pent_index_raw (g_scaling g) (start_positions g) (g_normals g) q.
Definition dual_vertex (g : grid) (q : qvec) : qvec := map_to_position (g_grads g) (pent_index g q).

(* ---------- index-level certificate of one face of the tiling ---------- *)
(* D is zero except for one entry +1 or -1: Some (position, sign) *)
Fixpoint unit_step (D : list Z) : option (nat * Z) :=
  match D with
  | [] => None
  | d :: r =>
    if (d =? 0)%Z then match unit_step r with Some (i, s) => Some (S i, s) | None => None end
    else if ((d =? 1)%Z || (d =? -1)%Z) && forallb (fun x => (x =? 0)%Z) r then Some (O, d)
    else None
  end.
Fixpoint zsub_list (a b : list Z) : list Z :=
  match a, b with
  | x :: a', y :: b' => (x - y)%Z :: zsub_list a' b'
  | _, _ => []
  end.
Fixpoint zlist_eqb (a b : list Z) : bool :=
  match a, b with
  | [], [] => true
  | x :: a', y :: b' => (x =? y)%Z && zlist_eqb a' b'
  | _, _ => false
  end.

(* the four index vectors met around a face, in order: K1 = K0 + s e_i, K2 = K1 + t e_j, K3 = K2 - s e_i, K0 = K3 - t e_j, i <> j *)
Definition quad_steps (B : nat) (K0 K1 K2 K3 : list Z) : option (nat * Z * (nat * Z)) :=
  if negb ((length K0 =? B)%nat && (length K1 =? B)%nat && (length K2 =? B)%nat && (length K3 =? B)%nat) then None
  else
    match unit_step (zsub_list K1 K0), unit_step (zsub_list K2 K1) with
    | Some (i, s), Some (j, t) =>
      if negb (i =? j)%nat && zlist_eqb (zsub_list K2 K3) (zsub_list K1 K0) && zlist_eqb (zsub_list K3 K0) (zsub_list K2 K1)
      then Some (i, s, (j, t)) else None
    | _, _ => None
    end.

(* ---------- what the correspondence driver evaluates (on the arrays captured from the running generator) ---------- *)
Definition qmin (a b : Q) : Q := if Qle_bool a b then a else b.
(* distance of a cell coordinate from the nearest integer: the predicate margin of "// 1" *)
Definition cell_margin (c : Q) : Q := let f := c - inject_Z (Qfloor c) in qmin f (1 - f).
Definition point_margin (scaling : Q) (starts normals : list qvec) (q : qvec) : Q :=
  fold_right (fun c m => qmin (cell_margin c) m) 1 (cell_coords_raw scaling starts normals q).

(* per dual vertex: index vector, margin, kept by the window?, position sum_b K_b star_b  (cell coordinates computed once;
   rationals left unreduced for the driver, reduced in db_eval_red for the in-Coq cross-check) *)
Definition db_eval (n : Z) (scaling : Q) (starts normals stars : list qvec) (q : qvec) : list Z * Q * bool * qvec :=
  let cs := cell_coords_raw scaling starts normals q in
  let K := map Qfloor cs in
  (K, fold_right (fun c m => qmin (cell_margin c) m) 1 cs, in_window n K, map_to_position stars K).
Definition qv_red (p : qvec) : qvec := (Qred (fst p), Qred (snd p)).
Definition db_eval_red (n : Z) (scaling : Q) (starts normals stars : list qvec) (q : qvec) : list Z * Q * bool * qvec :=
  match db_eval n scaling starts normals stars q with
  | (K, m, w, p) => (K, Qred m, w, qv_red p)
  end.

(* certificate of every face (vertex indices around the face) from the index vectors of the vertices *)
Definition face_certs (B : nat) (Ks : list (list Z)) (faces : list (list nat)) : list (option (nat * Z * (nat * Z))) :=
  map (fun f => match f with
                | [a; b; c; d] => quad_steps B (nth a Ks []) (nth b Ks []) (nth c Ks []) (nth d Ks [])
                | _ => None
                end) faces.

(* one entry of all_vertices, and starting_positions, of a grid *)
Definition grid_point (g : grid) (b1 l1 b2 l2 : nat) : option qvec :=
  match grid_vertex g b1 l1 b2 l2 with Some (_, _, p) => Some p | None => None end.
Definition grid_point_red (g : grid) (b1 l1 b2 l2 : nat) : option qvec :=
  match grid_point g b1 l1 b2 l2 with Some p => Some (qv_red p) | None => None end.
Definition grid_starts_red (g : grid) : list qvec := map qv_red (start_positions g).
