(* Model/Plot.v — executable model of the argument handling and the replication rules of
   koala/plotting.py, over Q (every float64 is a dyadic rational; the harness passes
   the lattice exactly).  Definitions only (no proofs).

   Mirrors, function by function:
     _process_plot_args / _broadcast_args   plotting.py:263-336
     plot_vertices                          plotting.py:50-60
     plot_edges (+ arrows)                  plotting.py:95-135, 229-260
     _line_fully_in_unit_cell               plotting.py:407-417
     _lines_cross_unit_cell                 plotting.py:420-461
     plot_plaquettes                        plotting.py:167-208
     _lines_cross_any_cell_boundary         plotting.py:692-721
     _replicate_polygon                     plotting.py:724-727
     line_intersection                      plotting.py:734-790
   Python exceptions are explicit: IndexError / ValueError. *)
From Coq Require Import List ZArith QArith Bool Qminmax Qabs Arith.
From Koala Require Import Model.Clip.
Import ListNotations.
Open Scope Q_scope.

Inductive err := IndexError | ValueError.
Inductive result (A : Type) := Ok (a : A) | Error (e : err).
Arguments Ok {A} a.
Arguments Error {A} e.

Definition bind {A B : Type} (r : result A) (f : A -> result B) : result B :=
  match r with Ok a => f a | Error e => Error e end.

Fixpoint mapM {A B : Type} (f : A -> result B) (l : list A) : result (list B) :=
  match l with
  | [] => Ok []
  | a :: r => bind (f a) (fun b => bind (mapM f r) (fun bs => Ok (b :: bs)))
  end.

(* ---------- subset -> indices:  np.arange(N)[subset]   (plotting.py:325) ---------- *)
Inductive subset :=
| SSlice (start stop step : option Z)     (* slice(start, stop, step) *)
| SMask (m : list bool)                   (* boolean array *)
| SIdx (l : list Z).                      (* integer index list, negative = from the end *)

(* Python's slice.indices(N) followed by range(start, stop, step) *)
Definition slice_step (c : option Z) : Z := match c with None => 1%Z | Some s => s end.
Definition slice_lower (st : Z) : Z := if (0 <? st)%Z then 0%Z else (-1)%Z.
Definition slice_upper (N st : Z) : Z := if (0 <? st)%Z then N else (N - 1)%Z.
Definition slice_clamp (N st v : Z) : Z :=
  if (v <? 0)%Z then Z.max (v + N) (slice_lower st) else Z.min v (slice_upper N st).
Definition slice_start (N st : Z) (a : option Z) : Z :=
  match a with
  | None => if (st <? 0)%Z then slice_upper N st else slice_lower st
  | Some v => slice_clamp N st v
  end.
Definition slice_stop (N st : Z) (b : option Z) : Z :=
  match b with
  | None => if (st <? 0)%Z then slice_lower st else slice_upper N st
  | Some v => slice_clamp N st v
  end.
(* len(range(s, e, st)) *)
Definition slice_count (st s e : Z) : Z :=
  if (0 <? st)%Z
  then (if (s <? e)%Z then ((e - s - 1) / st + 1)%Z else 0%Z)
  else (if (e <? s)%Z then ((s - e - 1) / (- st) + 1)%Z else 0%Z).
Definition slice_indices (N : Z) (start stop step : option Z) : result (list nat) :=
  let st := slice_step step in
  if (st =? 0)%Z then Error ValueError else
  let s := slice_start N st start in
  let e := slice_stop N st stop in
  Ok (map (fun i => Z.to_nat (s + Z.of_nat i * st)%Z) (seq 0 (Z.to_nat (slice_count st s e)))).

Fixpoint mask_indices (i : nat) (m : list bool) : list nat :=
  match m with
  | [] => []
  | b :: r => (if b then [i] else []) ++ mask_indices (S i) r
  end.

Definition wrap_index (N : Z) (z : Z) : result nat :=
  if ((- N <=? z) && (z <? N))%Z then Ok (Z.to_nat (if (z <? 0)%Z then z + N else z)%Z)
  else Error IndexError.

Definition subset_indices (N : nat) (s : subset) : result (list nat) :=
  match s with
  | SSlice a b c => slice_indices (Z.of_nat N) a b c
  (* numpy: a boolean index must have length N — except that an EMPTY boolean array is accepted for any N *)
  | SMask m => if ((length m =? N) || (length m =? 0))%nat then Ok (mask_indices 0 m) else Error IndexError
  | SIdx l => mapM (wrap_index (Z.of_nat N)) l
  end.

(* ---------- _broadcast_args (plotting.py:263-289) ---------- *)
Inductive labels :=
| LScalar (z : Z)             (* isinstance(arg, int): np.full(N, arg) *)
| LList (l : list Z).         (* array: full size or subset size *)

Definition broadcast_args (arg : labels) (idx : list nat) (N : nat) : result (list Z) :=
  let a := match arg with LScalar z => repeat z N | LList l => l end in
  if (length a =? N)%nat then Ok (map (fun i => nth i a 0%Z) idx)       (* arg[subset] *)
  else if (length a =? length idx)%nat then Ok a
  else Error ValueError.

(* color_scheme[labels]  (plotting.py:328): numpy integer indexing, negatives wrap *)
Definition scheme_at {C : Type} (scheme : list C) (z : Z) : result C :=
  let K := Z.of_nat (length scheme) in
  if ((- K <=? z) && (z <? K))%Z then
    match nth_error scheme (Z.to_nat (if (z <? 0)%Z then z + K else z)%Z) with
    | Some c => Ok c
    | None => Error IndexError
    end
  else Error IndexError.

(* _process_plot_args: (subset indices, colours) *)
Definition process_plot_args {C : Type} (N : nat) (s : subset) (lab : labels) (scheme : list C)
  : result (list nat * list C) :=
  bind (subset_indices N s) (fun idx =>
  bind (broadcast_args lab idx N) (fun l =>
  bind (mapM (scheme_at scheme) l) (fun cols => Ok (idx, cols)))).

Definition colours {C : Type} (N : nat) (s : subset) (lab : labels) (scheme : list C) : result (list C) :=
  bind (process_plot_args N s lab scheme) (fun ic => Ok (snd ic)).

(* ---------- the lattice as the plotting code reads it ---------- *)
Record plat := mkPlat {
  ppos : list point;              (* vertices.positions *)
  pedges : list (nat * nat);      (* edges.indices *)
  pcross : list (Z * Z)           (* edges.crossing *)
}.
Definition zpoint (d : Z * Z) : point := (inject_Z (fst d), inject_Z (snd d)).
Definition pos_at (L : plat) (v : nat) : point := nth v (ppos L) (0, 0).
Definition edge_at (L : plat) (e : nat) : nat * nat := nth e (pedges L) (0, 0)%nat.
Definition cross_at (L : plat) (e : nat) : Z * Z := nth e (pcross L) (0, 0)%Z.
Definition psub (a b : point) : point := (px a - px b, py a - py b).
Definition pred_ (p : point) : point := (Qred (px p), Qred (py p)).

(* plotting.py:99-100  edge_vertices = positions[indices[e]];  edge_vertices[0] -= crossing[e] *)
Definition edge_seg (L : plat) (e : nat) : seg :=
  let '(j, k) := edge_at L e in
  (pred_ (psub (pos_at L j) (zpoint (cross_at L e))), pos_at L k).

(* generate_point_array([0,0], padding=1): itertools.product((-1,0,1), repeat=2) *)
Definition nine : list (Z * Z) :=
  [(-1, -1); (-1, 0); (-1, 1); (0, -1); (0, 0); (0, 1); (1, -1); (1, 0); (1, 1)]%Z.

(* ---------- visibility (plotting.py:407-461) ---------- *)
Definition line_fully_in_unit_cell (s : seg) : bool :=
  let inside := fun c : Q => Qltb 0 c && Qltb c 1 in
  inside (px (seg_start s)) && inside (py (seg_start s)) &&
  inside (px (seg_end s)) && inside (py (seg_end s)).

(* t = (l - end) / (start - end);  t[~isfinite(t)] = 0.5 * (l == end)   (plotting.py:450-454) *)
Definition t_param (l e s : Q) : Q :=
  if Qeqb (s - e) 0 then (if Qeqb l e then 1 # 2 else 0) else (l - e) / (s - e).

(* one of the four (cell line l, coordinate) tests: sc/ec = start/end of the tested
   coordinate, so/eo = start/end of the other coordinate  (plotting.py:458-460) *)
Definition cross_test (l sc ec so eo : Q) : bool :=
  let t := t_param l ec sc in
  let other := lerp so eo t in
  Qltb 0 t && Qleb t 1 && Qltb 0 other && Qleb other 1.

Definition lines_cross_unit_cell (s : seg) : bool :=
  let xs := px (seg_start s) in let ys := py (seg_start s) in
  let xe := px (seg_end s) in let ye := py (seg_end s) in
  cross_test 0 xs xe ys ye || cross_test 0 ys ye xs xe ||
  cross_test 1 xs xe ys ye || cross_test 1 ys ye xs xe.

Definition visible (s : seg) : bool := lines_cross_unit_cell s || line_fully_in_unit_cell s.

(* ---------- plot_vertices ---------- *)
Definition plot_vertices {C : Type} (L : plat) (s : subset) (lab : labels) (scheme : list C)
  : result (list (point * C)) :=
  bind (process_plot_args (length (ppos L)) s lab scheme) (fun ic =>
  Ok (combine (map (pos_at L) (fst ic)) (snd ic))).

(* ---------- plot_edges ---------- *)
(* the 9*n replicated lines with their tiled colour and direction, translate-major *)
Definition replicate_edges {C : Type} (L : plat) (idx : list nat) (cols : list C) (dirs : list Z)
  : list (seg * (C * Z)) :=
  flat_map (fun d =>
    map (fun icd => (seg_translate (edge_seg L (fst icd)) (zpoint d), snd icd))
        (combine idx (combine cols dirs))) nine.

(* result: the drawn segments with colour and arrow direction (directions = None is
   modelled by the scalar 1 and the harness ignores the arrows) *)
Definition plot_edges {C : Type} (L : plat) (s : subset) (lab : labels) (scheme : list C)
           (directions : labels) : result (list (seg * (C * Z))) :=
  let N := length (pedges L) in
  bind (process_plot_args N s lab scheme) (fun ic =>
  bind (broadcast_args directions (fst ic) N) (fun dirs =>
  Ok (filter (fun x => visible (fst x)) (replicate_edges L (fst ic) (snd ic) dirs)))).

(* _plot_edge_arrows (identity unit cell): the arrow ends at the centre of the drawn
   piece and points along (edge[1] - edge[0]) * direction.  Returns (2*centre, vector). *)
Definition arrow_of (s : seg) (dire : Z) : point * point :=
  (padd (seg_start s) (seg_end s),
   (inject_Z dire * (px (seg_end s) - px (seg_start s)), inject_Z dire * (py (seg_end s) - py (seg_start s)))).

(* ---------- plot_plaquettes ---------- *)
Record plaq := mkPlaq {
  pl_v0 : nat;                     (* p.vertices[0] *)
  pl_edges : list (nat * bool)     (* p.edges with p.directions (true = +1) *)
}.
(* lattice.py: edges.vectors = pos[k] - pos[j] + crossing *)
Definition edge_vec (L : plat) (e : nat) : point :=
  let '(j, k) := edge_at L e in padd (psub (pos_at L k) (pos_at L j)) (zpoint (cross_at L e)).
Definition dvec (L : plat) (ed : nat * bool) : point :=
  let v := edge_vec L (fst ed) in if snd ed then v else (- px v, - py v).
Fixpoint cumsum (acc : point) (l : list point) : list point :=
  match l with
  | [] => []
  | v :: r => let a := pred_ (padd acc v) in a :: cumsum a r
  end.
(* plotting.py:177-181 *)
Definition plaq_points (L : plat) (p : plaq) : polygon :=
  cumsum (pos_at L (pl_v0 p)) (map (dvec L) (pl_edges p)).
(* plotting.py:184  lines = zip(points, roll(points, -1)) *)
Definition rotl {A : Type} (l : list A) : list A :=
  match l with [] => [] | a :: r => r ++ [a] end.
Definition poly_lines (pts : polygon) : list seg := combine pts (rotl pts).

(* _lines_cross_any_cell_boundary: cross[line][b][c] = 0 < t <= 1 *)
Definition crosses_line (l : Q) (xaxis : bool) (s : seg) : bool :=
  let t := t_param l (coord xaxis (seg_end s)) (coord xaxis (seg_start s)) in
  Qltb 0 t && Qleb t 1.
Definition any_crosses (l : Q) (xaxis : bool) (lines : list seg) : bool :=
  existsb (crosses_line l xaxis) lines.
(* plotting.py:191-196 *)
Definition pads (lines : list seg) (xaxis : bool) : list Z :=
  (if any_crosses 1 xaxis lines then [(-1)%Z] else []) ++ [0%Z] ++
  (if any_crosses 0 xaxis lines then [1%Z] else []).
(* _replicate_polygon: itertools.product(padx, pady) *)
Definition replicate_polygon (pts : polygon) (padx pady : list Z) : list polygon :=
  flat_map (fun dx => map (fun dy => ptranslate pts (zpoint (dx, dy))) pady) padx.
Definition plaq_polygons (L : plat) (p : plaq) : list polygon :=
  let pts := plaq_points L p in
  let lines := poly_lines pts in
  replicate_polygon pts (pads lines true) (pads lines false).

(* the plaquettes are passed in already subsetted by the harness? no: subset here *)
Definition plot_plaquettes {C : Type} (L : plat) (pls : list plaq) (s : subset) (lab : labels)
           (scheme : list C) : result (list (list polygon * C)) :=
  bind (process_plot_args (length pls) s lab scheme) (fun ic =>
  Ok (combine (map (fun i => plaq_polygons L (nth i pls (mkPlaq 0 []))) (fst ic)) (snd ic))).

(* ---------- line_intersection (plotting.py:734-790), one pair of segments ---------- *)
Definition cross2 (a b : point) : Q := px a * py b - py a * px b.
Definition line_intersection (tol : Q) (l1 l2 : seg) : bool :=
  let s1 := fst l1 in let e1 := snd l1 in let d1 := psub e1 s1 in
  let s2 := fst l2 in let e2 := snd l2 in let d2 := psub e2 s2 in
  let d2xd1 := cross2 d2 d1 in
  let disp := cross2 (psub s1 s2) d1 in
  (* float division by an exact zero gives inf/nan and every comparison below is False *)
  let t1 := disp / d2xd1 in
  let t2 := cross2 (psub s2 s1) d2 / cross2 d1 d2 in
  let tstar1 := (px s1 - px s2) / px d1 in
  let tstar2 := (px s1 - px s2) / px d2 in
  let are_parallel := Qltb (Qabs d2xd1) tol in
  let are_colinear := are_parallel && Qltb (Qabs disp) tol in
  let t_in_range := negb (Qeqb d2xd1 0) &&
                    Qleb 0 t1 && Qleb t1 1 && Qleb 0 t2 && Qleb t2 1 in
  let t_star_in_range :=
      (negb (Qeqb (px d1) 0) && Qleb (-(1)) tstar1 && Qleb tstar1 1) ||
      (negb (Qeqb (px d2) 0) && Qleb (-(1)) tstar2 && Qleb tstar2 1) in
  if negb are_parallel then t_in_range
  else if negb are_colinear then false
  else t_star_in_range.

(* the exact predicate for non-parallel segments, decided by Cramer's rule without division:
   exists s t in [0,1], s1 + s*d1 = s2 + t*d2 *)
Definition segments_meet_exact (l1 l2 : seg) : bool :=
  let s1 := fst l1 in let d1 := psub (snd l1) s1 in
  let s2 := fst l2 in let d2 := psub (snd l2) s2 in
  let c := cross2 d1 d2 in
  let ns := cross2 (psub s2 s1) d2 in     (* s * c *)
  let nt := cross2 (psub s2 s1) d1 in     (* t * c *)
  if Qltb 0 c then Qleb 0 ns && Qleb ns c && Qleb 0 nt && Qleb nt c
  else if Qltb c 0 then Qleb c ns && Qleb ns 0 && Qleb c nt && Qleb nt 0
  else false.
