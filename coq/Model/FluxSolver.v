(* Model/FluxSolver.v — executable model of koala/flux_finder/flux_finder.py:
   fluxes_from_ujk, ujk_from_fluxes, _flip_adjacent_fluxes, _flip_isolated_fluxes and the deprecated pair
   fluxes_from_bonds / find_flux_sector.  Definitions only (no proofs).

   A plaquette is its list of (edge index, direction) pairs (Plaquette.edges / .directions);
   [ep] is lattice.edges.adjacent_plaquettes with INVALID as None; bonds / fluxes are lists of Z.
   The greedy pairing (Python set.pop order and float min: implementation defined) is an ARBITRARY
   function [pairing]; the A* path search is an oracle [path] (contract: C11, see Proofs). *)
From Coq Require Import List ZArith Bool Arith.
From Koala Require Import Model.AStar.
Import ListNotations.
Open Scope Z_scope.

Definition fs_plaq := list (nat * Z).

(* ---------- arrays ---------- *)
Definition fs_at (u : list Z) (i : nat) : Z := nth i u 0.
(* a[i] *= -1 *)
Fixpoint fs_neg_at (i : nat) (u : list Z) : list Z :=
  match u, i with
  | [], _ => []
  | x :: r, O => (- x) :: r
  | x :: r, S j => x :: fs_neg_at j r
  end.
(* a[idx] *= -1 with a list of indices: numpy evaluates a[idx] * -1 and assigns it back, so an index
   that occurs twice is still negated ONCE *)
Fixpoint fs_neg_set_from (k : nat) (idx : list nat) (u : list Z) : list Z :=
  match u with
  | [] => []
  | x :: r => (if existsb (Nat.eqb k) idx then - x else x) :: fs_neg_set_from (S k) idx r
  end.
Definition fs_neg_set (idx : list nat) (u : list Z) : list Z := fs_neg_set_from 0 idx u.

Fixpoint fs_map2 (f : Z -> Z -> Z) (a b : list Z) : list Z :=
  match a, b with
  | x :: a', y :: b' => f x y :: fs_map2 f a' b'
  | _, _ => []
  end.
Definition fs_count (P : Z -> bool) (l : list Z) : nat := length (filter P l).
Definition fs_prod (l : list Z) : Z := fold_right Z.mul 1 l.
Definition fs_is_m1 (x : Z) : bool := x =? -1.
Definition fs_nonzero (x : Z) : bool := negb (x =? 0).

(* ---------- fluxes ---------- *)
(* flux_finder.py:42-46   fluxes[i] = np.prod(-ujk[p.edges] * p.directions) *)
Definition fs_flux_ujk (u : list Z) (p : fs_plaq) : Z :=
  fs_prod (map (fun ed => - fs_at u (fst ed) * snd ed) p).
Definition fs_fluxes_ujk (P : list fs_plaq) (u : list Z) : list Z := map (fs_flux_ujk u) P.

(* flux_finder.py:233-234  sign_real = [1, -1, -1, 1][n_sides % 4] *)
Definition fs_sign_real (n : nat) : Z :=
  match (n mod 4)%nat with
  | 0%nat => 1 | 1%nat => -1 | 2%nat => -1 | _ => 1
  end.
(* flux_finder.py:230-239 (real=True)  fluxes[i] = sign * np.prod(ujk[p.edges] * p.directions) *)
Definition fs_flux_bonds (u : list Z) (p : fs_plaq) : Z :=
  fs_sign_real (length p) * fs_prod (map (fun ed => fs_at u (fst ed) * snd ed) p).
Definition fs_fluxes_bonds (P : list fs_plaq) (u : list Z) : list Z := map (fs_flux_bonds u) P.

(* ---------- step 2: _flip_adjacent_fluxes, flux_finder.py:157-176 ---------- *)
Fixpoint fs_flip_adjacent (ep : list (option nat * option nat)) (e : nat) (bonds ftf : list Z)
  : list Z * list Z :=
  match ep with
  | [] => (bonds, ftf)
  | (Some a, Some b) :: r =>
    if (fs_at ftf a =? -1) && (fs_at ftf b =? -1)                                 (* :164 *)
    then fs_flip_adjacent r (S e) (fs_neg_at e bonds) (fs_neg_at b (fs_neg_at a ftf))   (* :165-167 *)
    else fs_flip_adjacent r (S e) bonds ftf
  | _ => (bonds, ftf)                                                              (* :162-163 break *)
  end.

(* ---------- steps 3-5: _flip_isolated_fluxes, flux_finder.py:179-200 ---------- *)
(* np.where(fluxes == -1)[0] *)
Fixpoint fs_where_neg_from (k : nat) (f : list Z) : list nat :=
  match f with
  | [] => []
  | x :: r => if x =? -1 then k :: fs_where_neg_from (S k) r else fs_where_neg_from (S k) r
  end.
Definition fs_where_neg (f : list Z) : list nat := fs_where_neg_from 0 f.

Section Solver.
  Variable flux : list Z -> list Z.                                (* fluxes_from_ujk(lattice, .) *)
  Variable ep : list (option nat * option nat).
  Variable pairing : list nat -> list (nat * nat).                  (* _greedy_plaquette_pairing *)
  Variable path : nat -> nat -> option (list nat * list nat).       (* path_between_plaquettes(l, a, b, maxits=n_edges); None = PathFindingError *)

  (* :191-198 *)
  Fixpoint fs_flip_pairs (pairs : list (nat * nat)) (bonds ftf : list Z) : option (list Z * list Z) :=
    match pairs with
    | [] => Some (bonds, ftf)
    | (a, b) :: r =>
      match path a b with
      | None => None
      | Some (_, es) => fs_flip_pairs r (fs_neg_set es bonds) (fs_neg_at b (fs_neg_at a ftf))
      end
    end.
  Definition fs_flip_isolated (bonds ftf : list Z) : option (list Z * list Z) :=
    fs_flip_pairs (pairing (fs_where_neg ftf)) bonds ftf.

  Inductive fs_result :=
  | FS_Ok (bonds : list Z)
  | FS_LeftoverError      (* ValueError flux_finder.py:88-91 / 284-287 *)
  | FS_MismatchError      (* ValueError flux_finder.py:95-98 / 291-294 *)
  | FS_PathError.         (* PathFindingError propagating out of path_between_plaquettes *)

  (* ujk_from_fluxes, flux_finder.py:68-100 (and find_flux_sector, :264-296, with the other [flux]).
     The copies at :72-73 are what makes the arguments immutable: the model is functional. *)
  Definition fs_solve (target guess : list Z) : fs_result :=
    let init := flux guess in                                                 (* :75 *)
    let ftf := fs_map2 Z.div target init in                                   (* :78  floor division *)
    let '(b1, f1) := fs_flip_adjacent ep 0 guess ftf in                       (* :81 *)
    match fs_flip_isolated b1 f1 with                                         (* :85 *)
    | None => FS_PathError
    | Some (b2, f2) =>
      if (1 <? fs_count fs_is_m1 f2)%nat then FS_LeftoverError      (* :88 *)
      else
        let found := flux b2 in                                               (* :93 *)
        if (1 <? fs_count fs_nonzero (fs_map2 Z.sub found target))%nat
        then FS_MismatchError                                                 (* :95 *)
        else FS_Ok b2                                                         (* :100 astype(int8): values are +-1 *)
    end.
End Solver.

(* ---------- contracts as boolean checkers (run on the implementation's own values by the harness) ---------- *)
(* the pairing returns a perfect matching of the defect list, minus its last element when odd
   (flux_finder.py:142-143 plaquettes[:-1]) *)
Fixpoint fs_flatten (pairs : list (nat * nat)) : list nat :=
  match pairs with [] => [] | (a, b) :: r => a :: b :: fs_flatten r end.
Definition fs_drop_last_if_odd (l : list nat) : list nat :=
  if Nat.odd (length l) then removelast l else l.
Definition fs_subset (a b : list nat) : bool := forallb (fun x => existsb (Nat.eqb x) b) a.
Definition fs_pairing_ok (defects : list nat) (pairs : list (nat * nat)) : bool :=
  let fl := fs_flatten pairs in
  let want := fs_drop_last_if_odd defects in
  as_nodup fl && fs_subset fl want && fs_subset want fl.

(* the path oracle meets the C11 contract on a pair: a valid simple chain from goal b back to start a *)
Definition fs_path_ok (ep : list (option nat * option nat)) (a b : nat) (r : option (list nat * list nat)) : bool :=
  match r with
  | Some (ns, es) => as_valid_path (as_joined ep) a b ns es
  | None => false
  end.

(* ---------- well-formedness of the (plaquettes, adjacent_plaquettes) tables ---------- *)
Definition fs_b2n (b : bool) : nat := if b then 1%nat else 0%nat.
Definition fs_oeqb (o : option nat) (q : nat) : bool :=
  match o with Some x => (x =? q)%nat | None => false end.
(* how many sides of edge e are plaquette q according to edges.adjacent_plaquettes *)
Definition fs_sides (ep : list (option nat * option nat)) (e q : nat) : nat :=
  match nth_error ep e with
  | Some (x, y) => (fs_b2n (fs_oeqb x q) + fs_b2n (fs_oeqb y q))%nat
  | None => 0%nat
  end.
Definition fs_count_edge (p : fs_plaq) (e : nat) : nat :=
  length (filter (fun ed => (fst ed =? e)%nat) p).
(* every plaquette contains edge e exactly as often as it is a side of e (C02 edge_sides), for e < bound *)
Definition fs_wf (P : list fs_plaq) (ep : list (option nat * option nat)) : bool :=
  forallb (fun q =>
    let p := nth q P [] in
    forallb (fun ed => (fst ed <? length ep)%nat && ((snd ed =? 1) || (snd ed =? -1))) p
    && forallb (fun e => (fs_count_edge p e =? fs_sides ep e q)%nat) (seq 0 (length ep)))
  (seq 0 (length P))
  && forallb (fun xy => match xy with
                        | (x, y) => match x with Some a => (a <? length P)%nat | None => true end
                                    && match y with Some b => (b <? length P)%nat | None => true end
                        end) ep.
Definition fs_pm1 (l : list Z) : bool := forallb (fun x => (x =? 1) || (x =? -1)) l.

(* ---------- _greedy_plaquette_pairing as coded, flux_finder.py:141-154 ----------
   The two implementation-defined choices are ORACLES:
     pick    : which element  to_pair.pop()  yields (CPython: hash-table order) — any member of the non-empty set;
     nearest : which element  min((distance_func(cur, o), o) for o in to_pair)  selects (float distance, ties by
               the tuple's second component, NaN behaviour) — any member of the non-empty set it ranges over.
   A Python set is a duplicate-free list here (its order is irrelevant: the oracles see all of it). *)
Definition fs_mem (x : nat) (l : list nat) : bool := existsb (Nat.eqb x) l.
(* :145  set(plaquettes) *)
Fixpoint fs_set_of (l : list nat) : list nat :=
  match l with
  | [] => []
  | x :: r => if fs_mem x r then fs_set_of r else x :: fs_set_of r
  end.
(* the set without x (what .pop() leaves behind / .remove(x)) *)
Definition fs_set_remove (x : nat) (s : list nat) : list nat := filter (fun y => negb (y =? x)%nat) s.

Inductive fs_greedy_result :=
| FG_Pairs (pairs : list (nat * nat))     (* :154 np.array(pairs) *)
| FG_MinEmptyError                        (* :149 ValueError: min() arg is an empty sequence (cur was the last element) *)
| FG_OutOfFuel.                           (* model artefact: the while loop did not end within the fuel *)

Section Greedy.
  Variable pick : list nat -> nat.
  Variable nearest : nat -> list nat -> nat.

  Fixpoint fs_greedy_loop (fuel : nat) (to_pair : list nat) : fs_greedy_result :=
    match to_pair with
    | [] => FG_Pairs []                                                   (* :147 while to_pair: *)
    | _ :: _ =>
      match fuel with
      | O => FG_OutOfFuel
      | S f =>
        let cur := pick to_pair in                                        (* :148 cur = to_pair.pop() *)
        let rest := fs_set_remove cur to_pair in
        match rest with
        | [] => FG_MinEmptyError                                          (* :149 min over an empty generator *)
        | _ :: _ =>
          let closest := nearest cur rest in                              (* :149-150 *)
          match fs_greedy_loop f (fs_set_remove closest rest) with        (* :152 to_pair.remove(closest) *)
          | FG_Pairs ps => FG_Pairs ((cur, closest) :: ps)                (* :151 pairs.append((cur, closest)) *)
          | err => err
          end
        end
      end
    end.

  (* :142-145  an odd array loses its last entry; fuel = size of the set *)
  Definition fs_greedy_run (defects : list nat) : fs_greedy_result :=
    let s := fs_set_of (fs_drop_last_if_odd defects) in
    fs_greedy_loop (length s) s.
  (* as a [pairing] argument of fs_solve (the error cases are proved unreachable on duplicate-free input:
     Proofs/GreedyPairingFacts.v greedy_pairing_no_error) *)
  Definition greedy_pairing (defects : list nat) : list (nat * nat) :=
    match fs_greedy_run defects with FG_Pairs ps => ps | _ => [] end.
End Greedy.

(* oracles replaying the choices the implementation made (captured pairs, in order): pick = the first captured
   `cur` still in the set; nearest = the `closest` captured with that `cur`; any member (the head) when the
   captured value is not admissible, so that both are admissible oracles whatever was captured *)
Definition fs_replay_pick (caps : list (nat * nat)) (l : list nat) : nat :=
  match find (fun ab => fs_mem (fst ab) l) caps with
  | Some ab => fst ab
  | None => hd 0%nat l
  end.
Definition fs_replay_nearest (caps : list (nat * nat)) (c : nat) (l : list nat) : nat :=
  match find (fun ab => (fst ab =? c)%nat) caps with
  | Some ab => if fs_mem (snd ab) l then snd ab else hd 0%nat l
  | None => hd 0%nat l
  end.
