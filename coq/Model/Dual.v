(* Model/Dual.v — executable model of graph_utils.make_dual (graph_utils.py:15-53) over Q.
   Definitions only.  (C13)

   The plaquette centres of Model/Lattice.v are exact: centre = p_cnum / (3 * p_area2) in
   coordinates scaled by [scale L], i.e. the real centre is  p_cnum / (3 * p_area2 * scale). *)
From Coq Require Import List ZArith Bool Arith QArith Qround.
From Koala Require Import Model.Lattice.
Import ListNotations.
Open Scope Z_scope.

Definition qvec := (Q * Q)%type.

Record qlattice := mkQLattice {
  qpos : list qvec;                (* real coordinates (not scaled) *)
  qedges : list (nat * nat);
  qcrossing : list vec
}.

Definition zdivq (a b : Z) : Q := (inject_Z a / inject_Z b)%Q.

(* p.center (lattice.py:449-458), exactly *)
Definition centre (L : lattice) (p : plaquette) : qvec :=
  let den := 3 * p_area2 p * scale L in
  (zdivq (fst (p_cnum p)) den, zdivq (snd (p_cnum p)) den).

(* x % 1 on rationals: x - floor x, in [0,1) *)
Definition qmod1 (x : Q) : Q := (x - inject_Z (Qfloor x))%Q.
Definition qmod1v (c : qvec) : qvec := (qmod1 (fst c), qmod1 (snd c)).

(* np.round: round half to even *)
Definition qround_half_even (x : Q) : Z :=
  let f := Qfloor x in
  let r := (x - inject_Z f)%Q in
  match (r ?= 1 # 2)%Q with
  | Lt => f
  | Gt => f + 1
  | Eq => if Z.even f then f else f + 1
  end.

Definition qvsub (a b : qvec) : qvec := ((fst a - fst b)%Q, (snd a - snd b)%Q).
Definition qvzero : qvec := (0%Q, 0%Q).

(* graph_utils.py:33-35  rows of edges.adjacent_plaquettes without INVALID, in edge order *)
Definition cleaned_edges (ep : list ep_row) : list (nat * nat) :=
  flat_map (fun r : ep_row => match r with
                              | (Some a, Some b) => [(a, b)]
                              | _ => []
                              end) ep.

(* graph_utils.py:39-40  np.round(dual_verts[cleaned[:,0]] - dual_verts[cleaned[:,1]]) *)
Definition dual_crossing_of (dv : list qvec) (ab : nat * nat) : vec :=
  let d := qvsub (nth (fst ab) dv qvzero) (nth (snd ab) dv qvzero) in
  (qround_half_even (fst d), qround_half_even (snd d)).

Definition row4 := (nat * nat * (Z * Z))%type.
Definition row4_eqb (r s : row4) : bool :=
  (fst (fst r) =? fst (fst s))%nat && (snd (fst r) =? snd (fst s))%nat
  && (fst (snd r) =? fst (snd s)) && (snd (snd r) =? snd (snd s)).
Fixpoint rows_nodup (l : list row4) : bool :=
  match l with
  | [] => true
  | r :: t => negb (existsb (row4_eqb r) t) && rows_nodup t
  end.

Inductive dual_result :=
| DualOk (D : qlattice)
| DualStuck            (* lattice.plaquettes raised LatticeException *)
| DualDuplicate.       (* the duplicate-edge guard, graph_utils.py:44-49 *)

Definition make_dual (L : lattice) : dual_result :=
  match find_all_plaquettes L with
  | None => DualStuck
  | Some ps =>
    let dual_verts := map (fun p => qmod1v (centre L p)) ps in          (* py:30 *)
    let cleaned := cleaned_edges (edges_plaquettes L ps) in              (* py:33-35 *)
    let dual_cross := map (dual_crossing_of dual_verts) cleaned in       (* py:39-40 *)
    if rows_nodup (combine cleaned dual_cross)                           (* py:44-49 *)
    then DualOk (mkQLattice dual_verts cleaned dual_cross)
    else DualDuplicate
  end.

(* edge vector of the dual lattice: pos[b] - pos[a] + crossing *)
Definition qevec (D : qlattice) (i : nat) : qvec :=
  let ab := nth i (qedges D) (0%nat, 0%nat) in
  let c := nth i (qcrossing D) vzero in
  let pa := nth (fst ab) (qpos D) qvzero in
  let pb := nth (snd ab) (qpos D) qvzero in
  ((fst pb - fst pa + inject_Z (fst c))%Q, (snd pb - snd pa + inject_Z (snd c))%Q).
