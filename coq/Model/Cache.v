(* Model/Cache.v — state machine of the lazily cached attributes of a koala Lattice (C02).
   Definitions only.

   Python objects modelled (lattice.py):
     Lattice.plaquettes            functools.cached_property, lattice.py:181-217; as a side effect sets the
                                   plain attributes _vertices_adjacent_plaquettes / _edges_adjacent_plaquettes
                                   (lattice.py:206-207) and fills Plaquette.adjacent_plaquettes (209-215)
     Lattice.n_plaquettes          cached_property, lattice.py:219-221   (len(self.plaquettes))
     Edges.adjacent_plaquettes     cached_property, lattice.py:70-73     (touch _parent.plaquettes, then read
                                                                          _parent._edges_adjacent_plaquettes)
     Vertices.adjacent_plaquettes  cached_property, lattice.py:98-101

   cached_property semantics: if the attribute name is in the instance __dict__ return it; otherwise run the
   function, store the result, return it.  If the function raises, nothing is stored.  In [plaquettes] every
   statement that can raise (_find_all_plaquettes: LatticeException; set_first_invalid: IndexError) comes
   before the two side-effect assignments, so a raising access leaves the state unchanged.

   A freshly constructed lattice AND a freshly unpickled one (lattice.py:263-270: __setstate__ calls __init__
   on the stored arrays) start in [cinit]. *)
From Coq Require Import List ZArith Bool Arith.
From Koala Require Import Model.Lattice.
Import ListNotations.

Definition vtable := list (list (option nat)).
(* the plaquette list as observed through the public attribute: the walks, and for each its adjacent_plaquettes *)
Definition plaq_value := (list plaquette * list (list (option nat)))%type.

Record cstate := mkC {
  c_plaq  : option plaq_value;      (* Lattice.__dict__['plaquettes'] *)
  c_nplaq : option nat;             (* Lattice.__dict__['n_plaquettes'] *)
  c_etab  : option (list ep_row);   (* Lattice._edges_adjacent_plaquettes (plain attribute) *)
  c_vtab  : option vtable;          (* Lattice._vertices_adjacent_plaquettes (plain attribute) *)
  c_eadj  : option (list ep_row);   (* Edges.__dict__['adjacent_plaquettes'] *)
  c_vadj  : option vtable           (* Vertices.__dict__['adjacent_plaquettes'] *)
}.
Definition cinit : cstate := mkC None None None None None None.

Inductive op := GetPlaquettes | GetNPlaquettes | GetEdgeAdj | GetVertexAdj.

Inductive value :=
| VPlaq (p : plaq_value)
| VNat (n : nat)
| VEdge (t : list ep_row)
| VVert (t : vtable)
| VRaise          (* LatticeException (stuck walk) or IndexError (no INVALID slot left) from [plaquettes] *)
| VAttrError.     (* reading _edges_/_vertices_adjacent_plaquettes before they were ever assigned *)

(* the body of the [plaquettes] property, lattice.py:183-217; None = it raised *)
Definition compute_plaquettes (L : lattice) : option (plaq_value * list ep_row * vtable) :=
  match find_all_plaquettes L with
  | None => None
  | Some ps =>
    match vertices_plaquettes L ps with
    | None => None
    | Some vt => Some ((ps, all_plaquette_neighbours L ps), edges_plaquettes L ps, vt)
    end
  end.

(* self.plaquettes : returns the new state and Some value, or None when it raised *)
Definition access_plaquettes (L : lattice) (st : cstate) : cstate * option plaq_value :=
  match c_plaq st with
  | Some p => (st, Some p)
  | None =>
    match compute_plaquettes L with
    | None => (st, None)
    | Some (p, et, vt) =>
      (mkC (Some p) (c_nplaq st) (Some et) (Some vt) (c_eadj st) (c_vadj st), Some p)
    end
  end.

Definition step (L : lattice) (st : cstate) (o : op) : cstate * value :=
  match o with
  | GetPlaquettes =>
    let '(st', r) := access_plaquettes L st in
    (st', match r with Some p => VPlaq p | None => VRaise end)
  | GetNPlaquettes =>
    match c_nplaq st with
    | Some n => (st, VNat n)
    | None =>
      let '(st', r) := access_plaquettes L st in
      match r with
      | None => (st', VRaise)
      | Some p => (mkC (c_plaq st') (Some (length (fst p))) (c_etab st') (c_vtab st') (c_eadj st') (c_vadj st'),
                   VNat (length (fst p)))
      end
    end
  | GetEdgeAdj =>
    match c_eadj st with
    | Some t => (st, VEdge t)
    | None =>
      let '(st', r) := access_plaquettes L st in       (* self._parent.plaquettes *)
      match r with
      | None => (st', VRaise)
      | Some _ =>
        match c_etab st' with                          (* return self._parent._edges_adjacent_plaquettes *)
        | None => (st', VAttrError)
        | Some t => (mkC (c_plaq st') (c_nplaq st') (c_etab st') (c_vtab st') (Some t) (c_vadj st'), VEdge t)
        end
      end
    end
  | GetVertexAdj =>
    match c_vadj st with
    | Some t => (st, VVert t)
    | None =>
      let '(st', r) := access_plaquettes L st in
      match r with
      | None => (st', VRaise)
      | Some _ =>
        match c_vtab st' with
        | None => (st', VAttrError)
        | Some t => (mkC (c_plaq st') (c_nplaq st') (c_etab st') (c_vtab st') (c_eadj st') (Some t), VVert t)
        end
      end
    end
  end.

(* run a history; values in the order the accesses were made *)
Fixpoint run (L : lattice) (st : cstate) (ops : list op) : cstate * list value :=
  match ops with
  | [] => (st, [])
  | o :: r => let '(st', v) := step L st o in
              let '(st'', vs) := run L st' r in (st'', v :: vs)
  end.

(* the history-free meaning of each attribute: a function of the lattice alone *)
Definition pure_value_of (cp : option (plaq_value * list ep_row * vtable)) (o : op) : value :=
  match cp with
  | None => VRaise
  | Some (p, et, vt) =>
    match o with
    | GetPlaquettes => VPlaq p
    | GetNPlaquettes => VNat (length (fst p))
    | GetEdgeAdj => VEdge et
    | GetVertexAdj => VVert vt
    end
  end.
Definition pure_value (L : lattice) (o : op) : value := pure_value_of (compute_plaquettes L) o.
