(* Model/Metric.v — the two metrics of koala/flux_finder/pathfinding.py:74-85 on exact rationals.
   Definitions only.  The implementation returns np.linalg.norm = sqrt of the quantities below;
   sqrt is monotone and stays in the shell: the model works with SQUARED distances over Q. *)
From Coq Require Import QArith Qabs Qminmax.
Open Scope Q_scope.

Definition mt_pt := (Q * Q)%type.
Definition mt_sq (x : Q) : Q := x * x.

(* pathfinding.py:74-76  straight_line_length(a, b) = ||a - b||_2 *)
Definition mt_euclid_sq (a b : mt_pt) : Q :=
  mt_sq (fst a - fst b) + mt_sq (snd a - snd b).

(* pathfinding.py:79-85 AS CODED (after fix bc5f751):
     delta = np.abs(a - b); delta = np.minimum(delta, 1 - delta); norm(delta) *)
Definition mt_wrap (d : Q) : Q := Qmin (Qabs d) (1 - Qabs d).
Definition mt_periodic_sq (a b : mt_pt) : Q :=
  mt_sq (mt_wrap (fst a - fst b)) + mt_sq (mt_wrap (snd a - snd b)).

(* the unit square [0,1)^2 *)
Definition mt_in_unit (a : mt_pt) : Prop :=
  0 <= fst a /\ fst a < 1 /\ 0 <= snd a /\ snd a < 1.
