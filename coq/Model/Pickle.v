(* Model/Pickle.v — executable model of Lattice.__getstate__ / __setstate__ / __eq__ / __ne__
   (koala/lattice.py:222-269, as the code is after fixes 8051f8a, 1d3446a, 98a8b3d, d5da286).
   Definitions only.  Numbers: positions are exact rationals (every float64 is a dyadic
   rational), integer arrays carry a dtype tag and every cast goes through [wrap], so a
   narrowing that loses information is visible in the model.

   Not modelled (outside the number domain Q): NaN / +-inf positions.  A position whose
   float32 cast overflows to +-inf is an explicit outcome [GSPosOverflow] of [getstate]
   (the code itself only emits a RuntimeWarning there and pickles inf).  Subclasses of Lattice
   (isinstance asymmetry) are not modelled; koala defines none. *)
From Coq Require Import List ZArith Bool Arith QArith Qabs.
Import ListNotations.
Open Scope Z_scope.

(* ------------------------------------------------------------------ dtypes *)
Inductive idtype := U8 | U16 | U32 | U64 | I8 | I64.
Inductive fdtype := F32 | F64.

Definition idtype_eqb (a b : idtype) : bool :=
  match a, b with
  | U8, U8 | U16, U16 | U32, U32 | U64, U64 | I8, I8 | I64, I64 => true
  | _, _ => false
  end.

(* np.iinfo(dtype).min / .max *)
Definition dt_min (d : idtype) : Z :=
  match d with I8 => -128 | I64 => -9223372036854775808 | _ => 0 end.
Definition dt_max (d : idtype) : Z :=
  match d with
  | U8 => 255 | U16 => 65535 | U32 => 4294967295 | U64 => 18446744073709551615
  | I8 => 127 | I64 => 9223372036854775807
  end.
Definition dt_card (d : idtype) : Z := dt_max d - dt_min d + 1.
(* C integer conversion as done by ndarray.astype between integer dtypes: modular *)
Definition wrap (d : idtype) (z : Z) : Z := (z - dt_min d) mod (dt_card d) + dt_min d.
Definition in_range (d : idtype) (z : Z) : bool := (dt_min d <=? z) && (z <=? dt_max d).

Definition zpair := (Z * Z)%type.
Definition wrap2 (d : idtype) (p : zpair) : zpair := (wrap d (fst p), wrap d (snd p)).
Definition zpair_eqb (a b : zpair) : bool := (fst a =? fst b) && (snd a =? snd b).
Definition in_range2 (d : idtype) (p : zpair) : bool := in_range d (fst p) && in_range d (snd p).

(* ------------------------------------------------------------------ float32 rounding on Q *)
(* 2^k as a rational, k any integer *)
Definition Qpow2 (k : Z) : Q :=
  if 0 <=? k then inject_Z (2 ^ k) else 1 # Z.to_pos (2 ^ (- k)).

(* 2^e <= n/d, for n, d > 0 *)
Definition pow2_le (e n d : Z) : bool :=
  if 0 <=? e then 2 ^ e * d <=? n else d <=? n * 2 ^ (- e).

(* floor(log2 (n/d)) for n, d > 0:  with a = log2 n, b = log2 d it is a-b or a-b-1 *)
Definition ilog2_frac (n d : Z) : Z :=
  let e0 := Z.log2 n - Z.log2 d in
  if pow2_le e0 n d then e0 else e0 - 1.

(* exponent of the unit in the last place of the float32 nearest to x:
   24 significant bits for normal numbers, fixed 2^-149 in the subnormal range *)
Definition f32_qexp (x : Q) : Z :=
  Z.max (ilog2_frac (Z.abs (Qnum x)) (Zpos (Qden x)) - 23) (-149).

(* round n/d (d > 0) to the nearest integer, ties to even *)
Definition rne (n d : Z) : Z :=
  let fl := n / d in
  let rm := n mod d in
  match 2 * rm ?= d with
  | Lt => fl
  | Gt => fl + 1
  | Eq => if Z.even fl then fl else fl + 1
  end.
Definition rneQ (m : Q) : Z := rne (Qnum m) (Zpos (Qden m)).

(* the finite value the IEEE-754 binary32 round-to-nearest-even cast would produce,
   ignoring overflow (see f32_overflows) *)
Definition round32 (x : Q) : Q :=
  if Qnum x =? 0 then 0%Q
  else let q := f32_qexp x in
       (inject_Z (rneQ (x * Qpow2 (- q))) * Qpow2 q)%Q.

(* ndarray.astype(np.float32) yields +-inf when the rounded magnitude reaches 2^128 *)
Definition f32_overflows (x : Q) : bool := Qle_bool (Qpow2 128) (Qabs (round32 x)).

Definition qpair := (Q * Q)%type.
Definition round32_2 (p : qpair) : qpair := (round32 (fst p), round32 (snd p)).
Definition overflows2 (p : qpair) : bool := f32_overflows (fst p) || f32_overflows (snd p).

(* ------------------------------------------------------------------ lattices *)
(* which cached attributes have been populated (functools.cached_property entries in
   __dict__ of the lattice / its Vertices / its Edges) *)
Record cache := mkCache {
  c_plaquettes : bool;
  c_n_plaquettes : bool;
  c_edges_adjacent_plaquettes : bool;
  c_vertices_adjacent_plaquettes : bool
}.
Definition fresh_cache : cache := mkCache false false false false.

Record lat := mkLat {
  l_pos : list qpair;   l_pos_dt : fdtype;     (* vertices.positions  (V,2) *)
  l_idx : list zpair;   l_idx_dt : idtype;     (* edges.indices       (E,2) *)
  l_cross : list zpair; l_cross_dt : idtype;   (* edges.crossing      (E,2) *)
  l_cache : cache
}.

(* self.n_vertices = positions.shape[0] *)
Definition n_vertices (L : lat) : Z := Z.of_nat (length (l_pos L)).
Definition n_edges (L : lat) : Z := Z.of_nat (length (l_idx L)).

Definition with_cache (c : cache) (L : lat) : lat :=
  mkLat (l_pos L) (l_pos_dt L) (l_idx L) (l_idx_dt L) (l_cross L) (l_cross_dt L) c.

(* Lattice.__init__ (lattice.py:119-160): stores the three arrays as given; nothing cached *)
Definition init (p : list qpair) (pd : fdtype) (i : list zpair) (id : idtype)
           (c : list zpair) (cd : idtype) : lat :=
  mkLat p pd i id c cd fresh_cache.

(* array invariants + what the constructor needs: stored values representable in their dtype,
   one crossing row per edge, indices address existing vertices *)
Definition wf_index (n : Z) (p : zpair) : bool :=
  (0 <=? fst p) && (fst p <? n) && (0 <=? snd p) && (snd p <? n).
Definition wf_lat (L : lat) : bool :=
  (length (l_cross L) =? length (l_idx L))%nat
  && forallb (wf_index (n_vertices L)) (l_idx L)
  && forallb (in_range2 (l_idx_dt L)) (l_idx L)
  && forallb (in_range2 (l_cross_dt L)) (l_cross L).

(* ------------------------------------------------------------------ __getstate__ *)
(* lattice.py:241-246
     for dtype in [np.uint8, np.uint16, np.uint32, np.uint64]:
         if self.n_vertices <= np.iinfo(dtype).max: edges = indices.astype(dtype); break
     else: raise ValueError
   (the same two definitions are regenerated from the source by translate/pickle_dtype.py
    into Gen/PickleGen.v; Proofs/PickleFacts.v proves them equal) *)
Definition index_dtype_candidates : list idtype := [U8; U16; U32; U64].
Definition fits (nv : Z) (d : idtype) : bool := nv <=? dt_max d.
Fixpoint first_fit (nv : Z) (ds : list idtype) : option idtype :=
  match ds with
  | [] => None
  | d :: r => if fits nv d then Some d else first_fit nv r
  end.
Definition select_index_dtype (nv : Z) : option idtype := first_fit nv index_dtype_candidates.

(* lattice.py:253-256  check_fits(array, dtype):
     assert array.size == 0 or (iinfo(dtype).min <= np.min(array) and np.max(array) <= iinfo(dtype).max) *)
Definition crossing_dtype : idtype := I8.
Definition flat (l : list zpair) : list Z := flat_map (fun p => [fst p; snd p]) l.
Definition list_min (x : Z) (l : list Z) : Z := fold_left Z.min l x.
Definition list_max (x : Z) (l : list Z) : Z := fold_left Z.max l x.
Definition check_fits_test (mn mx : Z) (d : idtype) : bool := (dt_min d <=? mn) && (mx <=? dt_max d).

Record tstate := mkT {
  s_pos : list qpair;                          (* float32 *)
  s_idx : list zpair;   s_idx_dt : idtype;
  s_cross : list zpair; s_cross_dt : idtype
}.

Inductive gs_result :=
| GSOk (s : tstate)
| GSTooManyVertices        (* ValueError("A lattice with > 2**64 vertices ...") *)
| GSCrossingRange          (* AssertionError from check_fits *)
| GSPosOverflow.           (* no exception in the code: a position became +-inf; outside Q *)

Definition getstate (L : lat) : gs_result :=
  match select_index_dtype (n_vertices L) with
  | None => GSTooManyVertices
  | Some d =>
    let edges := map (wrap2 d) (l_idx L) in
    let vertices := map round32_2 (l_pos L) in
    let fits_crossing :=
      match flat (l_cross L) with
      | [] => true                                           (* array.size == 0 *)
      | c0 :: cs => check_fits_test (list_min c0 cs) (list_max c0 cs) crossing_dtype
      end in
    if fits_crossing then
      if existsb overflows2 (l_pos L) then GSPosOverflow
      else GSOk (mkT vertices edges d (map (wrap2 crossing_dtype) (l_cross L)) crossing_dtype)
    else GSCrossingRange
  end.

(* ------------------------------------------------------------------ __setstate__ *)
Inductive state :=
| TupleState (t : tstate)      (* (vertices, edges, crossing) *)
| DictState (d : lat).         (* legacy: the object's whole __dict__, caches included *)

(* lattice.py:262-269: dict -> self.__dict__.update(state);
   tuple -> self.__init__(vertices, edges.astype(int), crossing.astype(int)) *)
Definition setstate (s : state) : lat :=
  match s with
  | DictState d => d
  | TupleState t =>
    init (s_pos t) F32 (map (wrap2 I64) (s_idx t)) I64 (map (wrap2 I64) (s_cross t)) I64
  end.

(* pickle.loads(pickle.dumps(L)); pickle's transport of the state is assumed faithful *)
Definition roundtrip (L : lat) : option lat :=
  match getstate L with
  | GSOk t => Some (setstate (TupleState t))
  | _ => None
  end.

(* ------------------------------------------------------------------ __eq__ / __ne__ *)
(* numpy broadcasting of two (n,2) / (m,2) arrays under an elementwise predicate followed by
   np.all: equal lengths zip, length 1 is stretched, anything else raises ValueError (None) *)
Fixpoint all2 {X} (f : X -> X -> bool) (A B : list X) : bool :=
  match A, B with
  | a :: A', b :: B' => f a b && all2 f A' B'
  | _, _ => true
  end.
Definition bcast_all {X} (f : X -> X -> bool) (A B : list X) : option bool :=
  if (length A =? length B)%nat then Some (all2 f A B)
  else match A, B with
       | [a], _ => Some (forallb (f a) B)
       | _, [b] => Some (forallb (fun a => f a b) A)
       | _, _ => None
       end.

(* lattice.py:229-234
     average_separation = 1 / np.sqrt(self.n_vertices)
     displacements = np.linalg.norm(self.positions - other.positions, axis=-1)
     np.all(displacements <= average_separation / 100)
   decided exactly:  |a-b|^2 * 10000 * nv <= 1     (nv = 0: the tolerance is inf) *)
Definition close2 (nv : Z) (a b : qpair) : bool :=
  let dx := (fst a - fst b)%Q in
  let dy := (snd a - snd b)%Q in
  Qle_bool ((dx * dx + dy * dy) * inject_Z (10000 * nv)) 1.

Definition shapes_differ (A B : lat) : bool :=
  negb (length (l_pos A) =? length (l_pos B))%nat || negb (length (l_idx A) =? length (l_idx B))%nat.

(* the three list elements of all([...]) are all evaluated before all() runs, so an
   exception in any of them propagates (None) *)
Definition eq_core (A B : lat) : option bool :=
  match bcast_all (close2 (n_vertices A)) (l_pos A) (l_pos B),
        bcast_all zpair_eqb (l_idx A) (l_idx B),
        bcast_all zpair_eqb (l_cross A) (l_cross B) with
  | Some p, Some i, Some c => Some (p && i && c)
  | _, _, _ => None
  end.

(* lattice.py:222-239.  None = the call raises *)
Definition lat_eq (A B : lat) : option bool :=
  if shapes_differ A B then Some false else eq_core A B.

(* the same code without the shape test of fix 8051f8a — only used by a refutation theorem *)
Definition lat_eq_noshape (A B : lat) : option bool := eq_core A B.

Inductive pyobj := PyLattice (L : lat) | PyOther.   (* PyOther: None, int, str, tuple ... *)
Definition py_eq (self : lat) (other : pyobj) : option bool :=
  match other with
  | PyOther => Some false                       (* not isinstance(other, self.__class__) *)
  | PyLattice B => lat_eq self B
  end.
Definition py_ne (self : lat) (other : pyobj) : option bool := option_map negb (py_eq self other).
