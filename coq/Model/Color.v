(* Model/Color.v — executable model of koala/graph_color.py (vertex_color, edge_color,
   color_lattice) and koala/graph_utils.py (edge_neighbours, dimerise) as coded at /repo HEAD
   (after fixes c7f4827, 3aec758, e1168b9).  Definitions only (no proofs).

   A graph is a list of edges (pairs of vertex numbers); parallel edges and self-loops are
   allowed, edges are identified by their position in the list (= row of
   lattice.edges.indices).  Vertex, edge and colour numbers are list positions, hence [nat];
   literals are [Z] (Model/Cnf.v).

   The SAT solver is NOT modelled: the functions that call it take it as Section variables
   [solve], [get_model], [enum_models] (contract stated in Proofs/ColorFacts.v, Section
   Solver). *)
From Coq Require Import List ZArith Bool Arith.
From Koala Require Import Model.Cnf.
Import ListNotations.

Definition edge := (nat * nat)%type.

Definition touches (e : edge) (v : nat) : bool := (fst e =? v) || (snd e =? v).

(* graph_utils.py:242-246   np.any(v1 == indices, axis=-1) | np.any(v2 == indices, axis=-1)
   with (v1, v2) = e1, evaluated on the row e2 *)
Definition shares (e1 e2 : edge) : bool := touches e2 (fst e1) || touches e2 (snd e1).

Definition e0 : edge := (0, 0).

(* graph_utils.py:230-248 edge_neighbours(lattice, i): the other edges that touch an endpoint
   of edge i, in increasing order (np.where).  (i >= n_edges: IndexError in numpy; never reached.) *)
Definition edge_neighbours (edges : list edge) (i : nat) : list nat :=
  filter (fun j => negb (j =? i) && shares (nth i edges e0) (nth j edges e0)) (seq 0 (length edges)).

(* graph_color.py:87-88, 149   l = arange(k * n).reshape(k, n) + 1 :  l[i, c] = i*n + c + 1 *)
Definition lit (n i c : nat) : Z := (Z.of_nat (i * n + c) + 1)%Z.

(* graph_color.py:97, 159   lits = [int(l[i, j]) for j in range(n_colors)] *)
Definition row_lits (n i : nat) : list Z := map (lit n i) (seq 0 n).

(* the shape shared by vertex_color and edge_color:
   - exactly one colour per item                    graph_color.py:96-102, 158-164
   - for every listed (ordered) conflict pair, one binary clause per colour
                                                    graph_color.py:105-107, 167-170
   - unit clauses for the fixed (colour, item) pairs  graph_color.py:173-174
   in the order the code adds them. *)
Definition color_cnf (k n : nat) (conf : list (nat * nat)) (fixed : list (nat * nat)) : cnf :=
  flat_map (fun i => equals1 (row_lits n i)) (seq 0 k)
  ++ flat_map (fun p => map (fun c => [(- lit n (fst p) c)%Z; (- lit n (snd p) c)%Z]) (seq 0 n)) conf
  ++ map (fun p => [lit n (snd p) (fst p)]) fixed.

(* graph_color.py:167-168   for i in range(n_edges): for j in edge_neighbours(lattice, i) *)
Definition edge_conflicts (edges : list edge) : list (nat * nat) :=
  flat_map (fun i => map (fun j => (i, j)) (edge_neighbours edges i)) (seq 0 (length edges)).

(* edge_color's formula.  [fixed] is a list of (colour, edge) pairs (graph_color.py:138, 173).
   None = outside the modelled domain: n_colors = 0 (CardEnc raises for n_edges > 0) or a fixed
   pair outside [0, n_colors) x [0, n_edges) (numpy raises IndexError, or silently wraps a
   negative index). *)
Definition edge_color_cnf (edges : list edge) (n : nat) (fixed : list (nat * nat)) : option cnf :=
  if (1 <=? n) && forallb (fun p => (fst p <? n) && (snd p <? length edges)) fixed
  then Some (color_cnf (length edges) n (edge_conflicts edges) fixed)
  else None.

(* graph_color.py:83   n_vertices = np.max(adjacency) + 1 *)
Definition nverts (adj : list edge) : nat :=
  S (list_max (flat_map (fun p => [fst p; snd p]) adj)).

(* vertex_color's formula (graph_color.py:83-107, after fix c7f4827: range(n_colors)).
   None: empty adjacency (np.max of an empty array raises ValueError) or n_colors = 0. *)
Definition vertex_color_cnf (adj : list edge) (n : nat) : option cnf :=
  match adj with
  | [] => None
  | _ => if 1 <=? n then Some (color_cnf (nverts adj) n adj []) else None
  end.

(* lattice.py:337-339  the edges at vertex v (the order of lattice.vertices.adjacent_edges[v] is
   angular; only the SET matters for the formula, we list them in increasing order) *)
Definition incident (edges : list edge) (v : nat) : list nat :=
  filter (fun e => touches (nth e edges e0) v) (seq 0 (length edges)).

(* graph_utils.py:482   lits = adjacent_edges[i] + 1 *)
Definition dlit (e : nat) : Z := (Z.of_nat e + 1)%Z.

(* graph_utils.py:479-488 dimerise's formula *)
Definition dimer_cnf (nv : nat) (edges : list edge) : cnf :=
  flat_map (fun v => equals1 (map dlit (incident edges v))) (seq 0 nv).

(* ---------------------------------------------------------------- decoding *)

(* np.array(model).reshape(k, n)[i]  (graph_color.py:114-120, 181-198) *)
Definition row (m : model) (n i : nat) : list Z :=
  map (fun j => nth (i * n + j) m 0%Z) (seq 0 n).

(* .argmax(axis=-1) *)
Definition decode_colors (k n : nat) (m : model) : list nat :=
  map (fun i => argmax (row m n i)) (seq 0 k).

(* graph_utils.py:494-503   (np.sign(model) + 1) // 2 *)
Definition decode_dimer (m : model) : list nat :=
  map (fun x => if (0 <? x)%Z then 1 else 0) m.

(* the inverse direction (used by the completeness / exactness theorems and by the harness:
   the encoding of a colouring returned by koala must satisfy the model's formula) *)
Definition val_of_colors (n : nat) (c : list nat) : valuation :=
  fun v => let p := Z.to_nat (v - 1) in nth (p / n) c 0 =? p mod n.

Definition encode_colors (k n : nat) (c : list nat) : model :=
  model_of_val (k * n) (val_of_colors n c).

Definition val_of_dimer (d : list nat) : valuation :=
  fun v => nth (Z.to_nat (v - 1)) d 0 =? 1.

Definition encode_dimer (d : list nat) : model :=
  model_of_val (length d) (val_of_dimer d).

(* ---------------------------------------------------------------- the functions that call the solver *)

Inductive mode := Single | FirstN (j : nat) | AllSolutions.

Inductive result :=
| Unsolvable                          (* (False, core) / ValueError of the convenience wrappers *)
| Solution (c : list nat)             (* one assignment, 1-d array *)
| Solutions (cs : list (list nat))    (* 2-d array, one row per assignment *)
| Invalid.                            (* outside the modelled domain (Python raises something else) *)

Section WithSolver.
  Variable solve : cnf -> bool.                  (* Solver.solve() after the clauses were added *)
  Variable get_model : cnf -> model.             (* Solver.get_model() after a successful solve *)
  Variable enum_models : cnf -> list model.      (* list(Solver.enum_models()) *)

  (* graph_color.py:128-200 *)
  Definition edge_color (edges : list edge) (n : nat) (md : mode) (fixed : list (nat * nat)) : result :=
    match edge_color_cnf edges n fixed with
    | None => Invalid
    | Some f =>
      if solve f then
        let dec := decode_colors (length edges) n in
        match md with
        | AllSolutions => Solutions (map dec (enum_models f))
        | FirstN j => Solutions (map dec (firstn j (enum_models f)))     (* itertools.islice *)
        | Single => Solution (dec (get_model f))
        end
      else Unsolvable
    end.

  (* graph_color.py:62-125 *)
  Definition vertex_color (adj : list edge) (n : nat) (all_solutions : bool) : result :=
    match vertex_color_cnf adj n with
    | None => Invalid
    | Some f =>
      if solve f then
        let dec := decode_colors (nverts adj) n in
        if all_solutions then Solutions (map dec (enum_models f))
        else Solution (dec (get_model f))
      else Unsolvable
    end.

  (* graph_color.py:203-215.  [cw] = clockwise_edges_about(vertex_index=0, g=lattice), an input
     here (the property names the library's own query as the reference order);
     fixed = enumerate(cw) = [(0, cw[0]); (1, cw[1]); ...].  Unsolvable = ValueError. *)
  Definition color_lattice (edges : list edge) (cw : list nat) : result :=
    edge_color edges 3 Single (combine (seq 0 (length cw)) cw).

  (* graph_utils.py:458-503.  n_solutions: Some 1 (default) -> 1-d array of the first enumerated
     model; Some j -> the first j; None -> all.  Unsolvable = ValueError. *)
  Definition dimerise (nv : nat) (edges : list edge) (n_solutions : option nat) : result :=
    let f := dimer_cnf nv edges in
    if solve f then
      match n_solutions with
      | Some 1 => match enum_models f with
                  | m :: _ => Solution (decode_dimer m)
                  | [] => Invalid          (* IndexError; excluded by the solver contract *)
                  end
      | Some j => Solutions (map decode_dimer (firstn j (enum_models f)))
      | None => Solutions (map decode_dimer (enum_models f))
      end
    else Unsolvable.
End WithSolver.

(* ---------------------------------------------------------------- spec checkers (S) *)

(* colours in range, edges meeting at a vertex differ, fixed colours honoured *)
Definition valid_edge_coloringb (edges : list edge) (n : nat) (fixed : list (nat * nat)) (c : list nat) : bool :=
  (length c =? length edges)
  && forallb (fun x => x <? n) c
  && forallb (fun i => forallb (fun j =>
        (i =? j) || negb (shares (nth i edges e0) (nth j edges e0)) || negb (nth i c 0 =? nth j c 0))
        (seq 0 (length edges))) (seq 0 (length edges))
  && forallb (fun p => nth (snd p) c 0 =? fst p) fixed.

(* one colour per vertex 0..max, in range, joined vertices differ *)
Definition valid_vertex_coloringb (adj : list edge) (n : nat) (c : list nat) : bool :=
  (length c =? nverts adj)
  && forallb (fun x => x <? n) c
  && forallb (fun p => negb (nth (fst p) c 0 =? nth (snd p) c 0)) adj.

(* entries 0/1, every vertex touches exactly one chosen edge *)
Definition valid_dimerb (nv : nat) (edges : list edge) (d : list nat) : bool :=
  (length d =? length edges)
  && forallb (fun x => x <? 2) d
  && forallb (fun v => length (filter (fun e => nth e d 0 =? 1) (incident edges v)) =? 1) (seq 0 nv).

(* ---------------------------------------------------------------- independent exhaustive counter

   Plain backtracking over the items 0..k-1 in order; [pre] holds the values already chosen
   (item j at position j).  [ok pre c]: value c is acceptable for item (length pre) given the
   earlier ones; [final]: last check on a complete assignment.  Does not use the CNF. *)
Section Backtrack.
  Variable n : nat.
  Variable ok : list nat -> nat -> bool.
  Variable final : list nat -> bool.

  Fixpoint bt_list (k : nat) (pre : list nat) : list (list nat) :=
    match k with
    | O => if final pre then [pre] else []
    | S k' => flat_map (fun c => if ok pre c then bt_list k' (pre ++ [c]) else []) (seq 0 n)
    end.

  Fixpoint bt_count (k : nat) (pre : list nat) : Z :=
    match k with
    | O => if final pre then 1%Z else 0%Z
    | S k' => fold_right (fun c acc => ((if ok pre c then bt_count k' (pre ++ [c]) else 0) + acc)%Z) 0%Z (seq 0 n)
    end.

  Fixpoint bt_exists (k : nat) (pre : list nat) : bool :=
    match k with
    | O => final pre
    | S k' => existsb (fun c => ok pre c && bt_exists k' (pre ++ [c])) (seq 0 n)
    end.
End Backtrack.

Definition ok_edge (edges : list edge) (fixed : list (nat * nat)) (pre : list nat) (c : nat) : bool :=
  let i := length pre in
  forallb (fun p => negb (snd p =? i) || (fst p =? c)) fixed
  && forallb (fun j => negb (shares (nth j edges e0) (nth i edges e0)) || negb (nth j pre 0 =? c)) (seq 0 i).

Definition no_final (x : list nat) : bool := true.

Definition list_edge_colourings (edges : list edge) (n : nat) (fixed : list (nat * nat)) : list (list nat) :=
  bt_list n (ok_edge edges fixed) no_final (length edges) [].
Definition count_edge_colourings (edges : list edge) (n : nat) (fixed : list (nat * nat)) : Z :=
  bt_count n (ok_edge edges fixed) no_final (length edges) [].
Definition exists_edge_colouring (edges : list edge) (n : nat) (fixed : list (nat * nat)) : bool :=
  bt_exists n (ok_edge edges fixed) no_final (length edges) [].

(* colour c for vertex i = length pre: no listed pair joins i to an earlier vertex of colour c,
   and no pair joins i to itself *)
Definition ok_vertex (adj : list edge) (pre : list nat) (c : nat) : bool :=
  let i := length pre in
  let col := fun x => if x =? i then c else nth x pre 0 in
  forallb (fun p => negb ((fst p =? i) && (snd p <=? i) && (col (snd p) =? c))
                    && negb ((snd p =? i) && (fst p <=? i) && (col (fst p) =? c))) adj.

Definition list_vertex_colourings (adj : list edge) (n : nat) : list (list nat) :=
  bt_list n (ok_vertex adj) no_final (nverts adj) [].
Definition count_vertex_colourings (adj : list edge) (n : nat) : Z :=
  bt_count n (ok_vertex adj) no_final (nverts adj) [].
Definition exists_vertex_colouring (adj : list edge) (n : nat) : bool :=
  bt_exists n (ok_vertex adj) no_final (nverts adj) [].

(* edge i = length pre may be chosen (c = 1) only if it shares no vertex with an earlier chosen edge *)
Definition ok_dimer (edges : list edge) (pre : list nat) (c : nat) : bool :=
  let i := length pre in
  (c =? 0) || forallb (fun j => negb (shares (nth j edges e0) (nth i edges e0)) || negb (nth j pre 0 =? 1)) (seq 0 i).

(* every vertex is touched by a chosen edge *)
Definition final_dimer (nv : nat) (edges : list edge) (d : list nat) : bool :=
  forallb (fun v => existsb (fun e => touches (nth e edges e0) v && (nth e d 0 =? 1)) (seq 0 (length edges))) (seq 0 nv).

Definition list_dimerisations (nv : nat) (edges : list edge) : list (list nat) :=
  bt_list 2 (ok_dimer edges) (final_dimer nv edges) (length edges) [].
Definition count_dimerisations (nv : nat) (edges : list edge) : Z :=
  bt_count 2 (ok_dimer edges) (final_dimer nv edges) (length edges) [].
Definition exists_dimerisation (nv : nat) (edges : list edge) : bool :=
  bt_exists 2 (ok_dimer edges) (final_dimer nv edges) (length edges) [].

(* brute-force enumeration through the formula itself (tiny instances; used by the
   correspondence run as a third, solver-free route) *)
Definition brute_edge_colourings (edges : list edge) (n : nat) (fixed : list (nat * nat)) : option (list (list nat)) :=
  match edge_color_cnf edges n fixed with
  | None => None
  | Some f => Some (map (decode_colors (length edges) n) (brute_models (length edges * n) f))
  end.
Definition brute_vertex_colourings (adj : list edge) (n : nat) : option (list (list nat)) :=
  match vertex_color_cnf adj n with
  | None => None
  | Some f => Some (map (decode_colors (nverts adj) n) (brute_models (nverts adj * n) f))
  end.
Definition brute_dimerisations (nv : nat) (edges : list edge) : list (list nat) :=
  map decode_dimer (brute_models (length edges) (dimer_cnf nv edges)).
