(* Model/Tiling2.v — exact checker for C17: the output of quasicrystals.de_brujin_grid /
   penrose_tiling is a connected, planar, edge-to-edge rhombus tiling inside the unit square.
   Definitions only; lemmas in Proofs/Tiling2Facts.v.

   The generator (quasicrystals.py:41-193: cos/sin/la.inv/argsort on irrational data) is NOT
   modelled.  [check_rhombus_tiling] decides the property on the generator's OUTPUT lattice, whose
   float64 positions enter exactly (scaled by the common power of two [scale L]).  The face census
   is the shared model Lattice.find_all_plaquettes (lattice.py:_find_all_plaquettes). *)
From Coq Require Import List ZArith Bool Arith.
From Koala Require Import Model.Lattice.
Import ListNotations.
Open Scope Z_scope.

(* ---------- simple conditions ---------- *)
(* open boundary: final Lattice is built with dual_clipped.edges.crossing, all zero (quasicrystals.py:190) *)
Definition zero_crossing (L : lattice) : bool := forallb (fun c => veqb c vzero) (crossing L).

Fixpoint all_distinct (l : list vec) : bool :=
  match l with
  | [] => true
  | p :: r => negb (existsb (veqb p) r) && all_distinct r
  end.

(* no dangling edges / isolated vertices *)
Definition degrees_ok (L : lattice) : bool :=
  forallb (fun v => (2 <=? count_ends L v)%nat) (seq 0 (nV L)).

(* inside the unit square [0,1]^2 *)
Definition in_unit_square (L : lattice) : bool :=
  forallb (fun p => (0 <=? fst p) && (fst p <=? scale L) && (0 <=? snd p) && (snd p <=? scale L)) (pos L).

(* ---------- connectivity: breadth-first search with fuel ---------- *)
Fixpoint add_at (u w : nat) (tab : list (list nat)) : list (list nat) :=
  match tab, u with
  | [], _ => []
  | row :: r, O => (w :: row) :: r
  | row :: r, S u' => row :: add_at u' w r
  end.
(* neighbour lists: for every edge (j,k): k into row j, j into row k *)
Definition adj_lists (L : lattice) : list (list nat) :=
  fold_left (fun tab e => add_at (fst e) (snd e) (add_at (snd e) (fst e) tab)) (edges L) (repeat [] (nV L)).

(* state: vertices discovered in this round (reversed), visited flags; out-of-range = visited *)
Definition visit (st : list nat * list bool) (w : nat) : list nat * list bool :=
  if nth w (snd st) true then st else (w :: fst st, set_nth w true (snd st)).

Fixpoint bfs (fuel : nat) (adj : list (list nat)) (frontier : list nat) (vis : list bool) : list bool :=
  match fuel with
  | O => vis
  | S f =>
    match frontier with
    | [] => vis
    | u :: rest =>
      let st := fold_left visit (nth u adj []) ([], vis) in
      bfs f adj (rest ++ rev (fst st)) (snd st)
    end
  end.

Definition reached (L : lattice) : list bool :=
  bfs (S (nV L)) (adj_lists L) [0%nat] (set_nth 0 true (repeat false (nV L))).

Definition connected_check (L : lattice) : bool :=
  (0 <? nV L)%nat && forallb (fun v => nth v (reached L) false) (seq 0 (nV L)).

(* ---------- no two edges cross ---------- *)
Definition orient (p q r : vec) : Z := vcross (vsub q p) (vsub r p).

(* an edge with its end points and bounding box *)
Record seg := mkSeg { sg_j : nat; sg_k : nat; sg_p : vec; sg_q : vec;
                      sg_xlo : Z; sg_xhi : Z; sg_ylo : Z; sg_yhi : Z }.
Definition mk_seg (L : lattice) (e : nat * nat) : seg :=
  let p := pos_at L (fst e) in let q := pos_at L (snd e) in
  mkSeg (fst e) (snd e) p q (Z.min (fst p) (fst q)) (Z.max (fst p) (fst q))
        (Z.min (snd p) (snd q)) (Z.max (snd p) (snd q)).
Definition segs (L : lattice) : list seg := map (mk_seg L) (edges L).

Definition bbox_disjoint (a b : seg) : bool :=
  (sg_xhi a <? sg_xlo b) || (sg_xhi b <? sg_xlo a) || (sg_yhi a <? sg_ylo b) || (sg_yhi b <? sg_ylo a).

(* the closed segments pq and rs have no common point (sufficient; complete except that
   collinear non-overlapping segments are recognised by their bounding boxes only) *)
Definition straddle_free (p q r s : vec) : bool :=
  (0 <? orient p q r * orient p q s) || (0 <? orient r s p * orient r s q).

(* segments c-a and c-b leaving the common end c meet only in c *)
Definition fan_ok (c a b : vec) : bool :=
  let A := vsub a c in let B := vsub b c in
  negb (vcross A B =? 0) || (vdot A B <=? 0).

Definition pair_ok (a b : seg) : bool :=
  bbox_disjoint a b ||
  (let jj := (sg_j a =? sg_j b)%nat in let jk := (sg_j a =? sg_k b)%nat in
   let kj := (sg_k a =? sg_j b)%nat in let kk := (sg_k a =? sg_k b)%nat in
   if (sg_j a =? sg_k a)%nat || (sg_j b =? sg_k b)%nat then false            (* self-loop *)
   else if (jj && kk) || (jk && kj) then false                               (* same pair of vertices *)
   else if jj then fan_ok (sg_p a) (sg_q a) (sg_q b)
   else if jk then fan_ok (sg_p a) (sg_q a) (sg_p b)
   else if kj then fan_ok (sg_q a) (sg_p a) (sg_q b)
   else if kk then fan_ok (sg_q a) (sg_p a) (sg_p b)
   else straddle_free (sg_p a) (sg_q a) (sg_p b) (sg_q b)).

Fixpoint pairs_ok {A} (chk : A -> A -> bool) (l : list A) : bool :=
  match l with
  | [] => true
  | x :: r => forallb (chk x) r && pairs_ok chk r
  end.

Definition no_crossing_check (L : lattice) : bool := pairs_ok pair_ok (segs L).

(* ---------- metric conditions, tolerance tn/td ---------- *)
Definition norm2 (v : vec) : Z := vdot v v.
Definition len2 (L : lattice) (e : nat * nat) : Z := norm2 (vsub (pos_at L (snd e)) (pos_at L (fst e))).

(* | l^2 / l0^2 - 1 | <= tn/td  for every edge, l0 = length of edge 0 *)
Definition lengths_ok (tn td : Z) (L : lattice) : bool :=
  match edges L with
  | [] => false
  | e0 :: _ =>
    let l0 := len2 L e0 in
    (0 <? l0) && forallb (fun e => Z.abs (len2 L e - l0) * td <=? tn * l0) (edges L)
  end.

(* | sin angle(v, d) | <= tn/td for some star direction d (rational approximation of
   (cos, sin)(2 pi b / B), any common denominator) *)
Definition parallel_to (tn td : Z) (v d : vec) : bool :=
  let c := vcross v d in c * c * (td * td) <=? tn * tn * (norm2 v * norm2 d).
Definition directions_ok (tn td : Z) (dirs : list vec) (L : lattice) : bool :=
  forallb (fun e => let v := vsub (pos_at L (snd e)) (pos_at L (fst e)) in
                    existsb (parallel_to tn td v) dirs) (edges L).

(* ---------- faces ---------- *)
(* a 4-sided plaquette P0 P1 P2 P3 is a parallelogram up to tolerance: |P0 + P2 - P1 - P3|^2 <= (tn/td)^2 l0^2 *)
Definition face_ok (tn td l0 : Z) (L : lattice) (p : plaquette) : bool :=
  match p_verts p with
  | [a; b; c; d] =>
    let w := vsub (vadd (pos_at L a) (pos_at L c)) (vadd (pos_at L b) (pos_at L d)) in
    norm2 w * (td * td) <=? tn * tn * l0
  | _ => false
  end.

Definition faces_ok (tn td : Z) (L : lattice) : bool :=
  match find_all_plaquettes L, edges L with
  | Some ps, e0 :: _ =>
    forallb (face_ok tn td (len2 L e0) L) ps &&
    (Z.of_nat (nV L) - Z.of_nat (nE L) + Z.of_nat (length ps) =? 1)
  | _, _ => false
  end.

(* ---------- the checker ---------- *)
Definition check_rhombus_tiling (tn td : Z) (use_dirs : bool) (dirs : list vec) (L : lattice) : bool :=
  wf_lattice L && (0 <=? tn) && (0 <? td) && zero_crossing L && no_self_loops L &&
  all_distinct (pos L) && degrees_ok L && in_unit_square L &&
  connected_check L && no_crossing_check L &&
  lengths_ok tn td L && (if use_dirs then directions_ok tn td dirs L else true) &&
  faces_ok tn td L.
