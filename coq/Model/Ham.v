(* Model/Ham.v — executable model of koala/hamiltonian.py (majorana_hamiltonian,
   majorana_to_fermion_ham, bisect_lattice) and of lattice.py permute_vertices.
   Definitions only (no proofs).  Proofs: Proofs/HamFacts.v (stdlib), Proofs/HamMx.v (MathComp).

   Numbers.  The harness hands in J = Jz / SJ (dyadic, one common power-of-two scale SJ), u in Z.
   The model works on the REAL integer array `ham` of hamiltonian.py:62-70 BEFORE the final
   `ham * 1.0j / 4.0` (line 72), multiplied by SJ:
        A4[r][c] = SJ * ham[r][c]        majorana_hamiltonian(...) = (i / (4 SJ)) * A4 .
   The prefactor i/4 stays symbolic (Proofs/HamMx.v: H = (i t) *: A4 for a real t). *)
From Coq Require Import List ZArith Bool Arith.
Import ListNotations.
Open Scope Z_scope.

Definition edge := (nat * nat)%type.

(* ---------- hamiltonian.py:63-64   Js = J[coloring] | J[0];  hoppings = 2 * Js * ujk ---------- *)
Definition Jsel (col : option (list nat)) (J : list Z) (e : nat) : Z :=
  match col with
  | Some c => nth (nth e c 0%nat) J 0
  | None => nth 0%nat J 0
  end.
Definition hoppings (nE : nat) (col : option (list nat)) (u J : list Z) : list Z :=
  map (fun e => 2 * Jsel col J e * nth e u 0) (seq 0 nE).

(* ---------- numpy arrays as lists of rows; np.add.at(ham, (rows, cols), vals) ---------- *)
Fixpoint upd_row (row : list Z) (c : nat) (v : Z) : list Z :=
  match row, c with
  | [], _ => []
  | x :: t, O => (x + v) :: t
  | x :: t, S c' => x :: upd_row t c' v
  end.
Fixpoint add_at (M : list (list Z)) (r c : nat) (v : Z) : list (list Z) :=
  match M, r with
  | [], _ => []
  | row :: t, O => upd_row row c v :: t
  | row :: t, S r' => row :: add_at t r' c v
  end.
(* unbuffered in-place accumulation, one (index, value) pair after the other: repeated indices add up *)
Fixpoint scatter_add (M : list (list Z)) (idx : list (nat * nat)) (vals : list Z) : list (list Z) :=
  match idx, vals with
  | (r, c) :: it, v :: vt => scatter_add (add_at M r c v) it vt
  | _, _ => M
  end.
Definition zeros (V : nat) : list (list Z) := repeat (repeat 0 V) V.
Definition entry (M : list (list Z)) (r c : nat) : Z := nth c (nth r M []) 0.

(* hamiltonian.py:62-70: ham = zeros; add.at(ham, (idx[:,1], idx[:,0]), hop); add.at(ham, (idx[:,0], idx[:,1]), -hop) *)
Definition ham_matrix (V : nat) (edges : list edge) (hop : list Z) : list (list Z) :=
  let M1 := scatter_add (zeros V) (map (fun e => (snd e, fst e)) edges) hop in
  scatter_add M1 edges (map Z.opp hop).
Definition ham_entry (V : nat) (edges : list edge) (hop : list Z) (r c : nat) : Z :=
  entry (ham_matrix V edges hop) r c.
Definition majorana4 (V : nat) (edges : list edge) (col : option (list nat)) (u J : list Z) : list (list Z) :=
  ham_matrix V edges (hoppings (length edges) col u J).

(* ---------- the property's formula: sum over edges (j,k) of the bond term with entry +h at [k,j],
   -h at [j,k], zero elsewhere ---------- *)
Definition bond_entry (e : edge) (h : Z) (r c : nat) : Z :=
  if (r =? snd e)%nat && (c =? fst e)%nat then h
  else if (r =? fst e)%nat && (c =? snd e)%nat then - h
  else 0.
Fixpoint bond_sum (edges : list edge) (hop : list Z) (r c : nat) : Z :=
  match edges, hop with
  | e :: et, h :: ht => bond_entry e h r c + bond_sum et ht r c
  | _, _ => 0
  end.

Definition wf_edges (V : nat) (edges : list edge) : bool :=
  forallb (fun e => (fst e <? V)%nat && (snd e <? V)%nat) edges.
Definition no_loops (edges : list edge) : bool := forallb (fun e => negb (fst e =? snd e)%nat) edges.

(* ---------- gauge transformation  u_jk -> g_j u_jk g_k ---------- *)
Definition gauge_u (edges : list edge) (g u : list Z) : list Z :=
  map (fun p => nth (fst (fst p)) g 0 * snd p * nth (snd (fst p)) g 0) (combine edges u).

(* ---------- lattice.py:523-548 permute_vertices ---------- *)
Fixpoint set_at {A} (l : list A) (n : nat) (x : A) : list A :=
  match l, n with
  | [], _ => []
  | _ :: t, O => x :: t
  | y :: t, S n' => y :: set_at t n' x
  end.
(* inverse_ordering = zeros(nverts); inverse_ordering[ordering] = arange(nverts)  (last write wins) *)
Definition inverse_ordering (V : nat) (ordering : list nat) : list nat :=
  fold_left (fun inv p => set_at inv (fst p) (snd p)) (combine ordering (seq 0 V)) (repeat 0%nat V).
Definition permute_edges (V : nat) (ordering : list nat) (edges : list edge) : list edge :=
  let inv := inverse_ordering V ordering in
  map (fun e => (nth (fst e) inv 0%nat, nth (snd e) inv 0%nat)) edges.
Definition permute_positions {A} (d : A) (ordering : list nat) (pos : list A) : list A :=
  map (fun i => nth i pos d) ordering.
Definition is_perm_of_range (V : nat) (ordering : list nat) : bool :=
  Nat.eqb (length ordering) V
  && forallb (fun v => Nat.eqb (count_occ Nat.eq_dec ordering v) 1) (seq 0 V).

(* ---------- hamiltonian.py:6-36 bisect_lattice ---------- *)
(* sublattice_labels = zeros; labels[dimer[:,0]] = 0; labels[dimer[:,1]] = 1 *)
Definition dimer_edges (edges : list edge) (sol : list nat) (along : nat) : list edge :=
  map fst (filter (fun p => Nat.eqb (snd p) along) (combine edges sol)).
Definition sublattice_labels (V : nat) (edges : list edge) (sol : list nat) (along : nat) : list nat :=
  let d := dimer_edges edges sol along in
  let l0 := fold_left (fun l e => set_at l (fst e) 0%nat) d (repeat 0%nat V) in
  fold_left (fun l e => set_at l (snd e) 1%nat) d l0.
(* np.argsort is an external routine (quicksort, not stable): ANY permutation that sorts the labels
   is an admissible result; this is its contract, checked on the implementation's output *)
Fixpoint sortedb (l : list nat) : bool :=
  match l with
  | x :: ((y :: _) as t) => (x <=? y)%nat && sortedb t
  | _ => true
  end.
Definition is_argsort (labels ordering : list nat) : bool :=
  is_perm_of_range (length labels) ordering
  && sortedb (map (fun i => nth i labels 0%nat) ordering).
Definition count_ends (edges : list edge) (v : nat) : nat :=
  length (filter (fun e => Nat.eqb (fst e) v) edges) + length (filter (fun e => Nat.eqb (snd e) v) edges).
Definition perfect_matching (V : nat) (d : list edge) : bool :=
  forallb (fun v => Nat.eqb (count_ends d v) 1) (seq 0 V) && wf_edges V d.
(* the property's conclusion, decidable: every edge of colour `along` has its first end in the first half
   and its second end in the second half *)
Definition opposite_halves (V : nat) (d : list edge) : bool :=
  forallb (fun e => (2 * fst e <? V)%nat && (V <=? 2 * snd e)%nat) d.

(* ---------- hamiltonian.py:77-101 majorana_to_fermion_ham on A4 (V = 2 n) ----------
   majorana_ham = (i/(4 SJ)) A4:   F = -i H[:n,:n] = A11/(4 SJ),  D = +i H[n:,n:] = -A22/(4 SJ),
   M = -i H[:n,n:] = A12/(4 SJ).  The model returns 4 SJ * (fermionic matrix) as Gaussian integers (re, im). *)
Definition gi := (Z * Z)%type.
Definition blkF (n : nat) (A : list (list Z)) (i j : nat) : Z := entry A i j.
Definition blkD (n : nat) (A : list (list Z)) (i j : nat) : Z := - entry A (n + i) (n + j).
Definition blkM (n : nat) (A : list (list Z)) (i j : nat) : Z := entry A i (n + j).
(* h = (M + M^T) + i (F - D) ;  d = (M^T - M) + i (F + D) *)
Definition fh (n : nat) (A : list (list Z)) (i j : nat) : gi :=
  (blkM n A i j + blkM n A j i, blkF n A i j - blkD n A i j).
Definition fd (n : nat) (A : list (list Z)) (i j : nat) : gi :=
  (blkM n A j i - blkM n A i j, blkF n A i j + blkD n A i j).
Definition giconj (z : gi) : gi := (fst z, - snd z).
Definition gineg (z : gi) : gi := (- fst z, - snd z).
(* [[h, d], [conj(d^T), -h^T]] *)
Definition fermion_entry (n : nat) (A : list (list Z)) (r c : nat) : gi :=
  if (r <? n)%nat then
    if (c <? n)%nat then fh n A r c else fd n A r (c - n)
  else
    if (c <? n)%nat then giconj (fd n A c (r - n)) else gineg (fh n A (c - n) (r - n)).
Definition fermion4 (V : nat) (A : list (list Z)) : list (list gi) :=
  let n := Nat.div V 2 in
  map (fun r => map (fun c => fermion_entry n A r c) (seq 0 (2 * n))) (seq 0 (2 * n)).

(* ---------- the explicit basis change W = [[1, i], [1, -i]] (x) 1_n  (W W^* = 2):
   entries of W * (2 H) and of (fermionic form) * W, both times 4 SJ, as Gaussian integers ---------- *)
Definition giadd (a b : gi) : gi := (fst a + fst b, snd a + snd b).
Definition gisub (a b : gi) : gi := (fst a - fst b, snd a - snd b).
Definition gi_i (a : gi) : gi := (- snd a, fst a).                      (* multiplication by i *)
Definition twoH (A : list (list Z)) (r c : nat) : gi := (0, 2 * entry A r c).   (* 4 SJ * 2 H = 2 i A4 *)
Definition W_twoH (n : nat) (A : list (list Z)) (r c : nat) : gi :=
  if (r <? n)%nat then giadd (twoH A r c) (gi_i (twoH A (n + r) c))
  else gisub (twoH A (r - n) c) (gi_i (twoH A r c)).
Definition F_W (n : nat) (A : list (list Z)) (r c : nat) : gi :=
  if (c <? n)%nat then giadd (fermion_entry n A r c) (fermion_entry n A r (n + c))
  else gi_i (gisub (fermion_entry n A r (c - n)) (fermion_entry n A r c)).
