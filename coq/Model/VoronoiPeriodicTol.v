(* Model/VoronoiPeriodicTol.v — index-level ("tolerant") periodicity of the Voronoi record near the unit cell.

   Model/VoronoiPeriodic.pvor_ok asks that the image in the cell of a vertex IS a vertex (exact replication): true for
   shift_vertices=True on dyadic inputs, never for Qhull's float circumcentres, which differ in the last bits between
   a triangle and its translate.  koala itself only uses the NEAREST vertex to the image (KDTree).  [pvor_t_ok] states
   the periodicity koala really relies on, through that nearest-vertex map [img] (definitions only):
   for every ridge crossing the cell boundary, with inner end i (in the cell) and outer end o (in the cell c <> 0):
     T1  the vertex nearest to the image of o lies in the cell;
     T2  it is not i (no vertex adjacent to its own periodic image);
     T3  the ridge occurs again on the other side: a finite ridge joining img(o) to a vertex a' outside the cell, in
         the cell -c, whose image is nearest to i;
   and the directed periodic edges (i, img o, c) of the crossing ridges are pairwise different (two ridges leaving the
   same vertex are not identified; a ridge and its translated copy give REVERSED directed edges).
   Proofs/VoronoiPostTol.v derives the graph-level and check_dual conclusions from it; the exact predicate implies it
   on every record the harness evaluates (both are evaluated). *)
From Coq Require Import List ZArith Bool Arith.
From Koala Require Import Model.Lattice Model.Delaunay Model.VoronoiPost Model.VoronoiPeriodic.
Import ListNotations.
Open Scope Z_scope.

Definition inner (S : Z) (vs : list pt) (r : Z * Z) : Z := if in_unit S (vat vs (fst r)) then fst r else snd r.
Definition outer (S : Z) (vs : list pt) (r : Z * Z) : Z := if in_unit S (vat vs (fst r)) then snd r else fst r.
(* index of the vertex nearest to the image in the cell of vertex o (what KDTree.query returns) *)
Definition img (S : Z) (vs : list pt) (o : Z) : nat := nearest vs (wrap S (vat vs o)).
(* the directed periodic edge of a crossing ridge, from its inner end *)
Definition dir_edge (S : Z) (vs : list pt) (r : Z * Z) : edge :=
  ((Z.to_nat (inner S vs r), img S vs (outer S vs r)), cell_pt S (vat vs (outer S vs r))).
Definition edge_eqb (e e' : edge) : bool := natpair_eqb (fst e) (fst e') && pt_eqb (snd e) (snd e').

(* nested [if]s, not [&&]: the nearest-vertex query is made only for the ridges at o' (matters for vm_compute, which is strict) *)
Definition is_translate_t (S : Z) (vs : list pt) (i : Z) (o' : nat) (c : pt) (r' : Z * Z) : bool :=
  if finite r' && ((fst r' =? Z.of_nat o') || (snd r' =? Z.of_nat o')) then
    let a' := if fst r' =? Z.of_nat o' then snd r' else fst r' in
    if in_unit S (vat vs a') then false
    else if (img S vs a' =? Z.to_nat i)%nat then pt_eqb (cell_pt S (vat vs a')) (pt_opp c) else false
  else false.

Definition cross_ok_t (S : Z) (vs : list pt) (rv : list (Z * Z)) (r : Z * Z) : bool :=
  let i := inner S vs r in
  let o := outer S vs r in
  let o' := img S vs o in
  in_unit S (nth o' vs (0, 0)) && negb (o' =? Z.to_nat i)%nat &&
  existsb (is_translate_t S vs i o' (cell_pt S (vat vs o))) rv.

Definition pvor_t_ok (S : Z) (vs : list pt) (rv : list (Z * Z)) : bool :=
  (0 <? S) &&
  forallb (ridge_wf (length vs)) rv &&
  forallb (fun r => negb (finite r) || negb (fst r =? snd r)) rv &&
  nodup_by pt_eqb vs &&
  nodup_by edge_eqb (map (dir_edge S vs) (select S vs 1 rv)) &&
  nodup_by pt_eqb (map upair (select S vs 2 rv)) &&
  forallb (cross_ok_t S vs rv) (select S vs 1 rv).

(* what the harness evaluates: (pvor_t_ok, trivalent_ok) of the record after the optional shift *)
Definition post_hyps_t (shift : bool) (S : Z) (points : list pt) (v : vor) : option (bool * bool) :=
  match shifted_vertices shift S points v with
  | Err _ => None
  | Ok (S', vs) => Some (pvor_t_ok S' vs (ridge_vertices v), trivalent_ok S' vs (ridge_vertices v))
  end.
