(* Model/Truncate.v — executable model of graph_utils.vertices_to_polygon (graph_utils.py:356-456),
   statement by statement.  Definitions only.  (C13)

   Numbers: the input lattice has integer positions scaled by [scale L] = S.  The new corners are
   pos[n] + vector/3; the output lattice is given with scale 3*S, i.e. every output position is the
   real position times 3*S (an integer).  In these units
        new_set   = 3*pos[n] + vector            (py:400)
        x // 1    = floor (X / (3*S))            (py:403)
        x % 1     = X mod (3*S)                  (py:404)
   which is exactly the code's arithmetic over the rationals. *)
From Coq Require Import List ZArith Bool Arith.
From Koala Require Import Model.Lattice.
Import ListNotations.
Open Scope Z_scope.

Definition memb (v : nat) (l : list nat) : bool := existsb (Nat.eqb v) l.

(* py:368-372  vertices=None -> all; scalar -> [scalar] (done by the caller); "n in vertices" *)
Definition in_sel (vs : option (list nat)) (n : nat) : bool :=
  match vs with None => true | Some l => memb n l end.

(* py:395 / 444  np.where(other_vertices != n)[1] : the columns (0/1) of the entries different from n,
   row-major.  Without self-loops: one entry per edge, the column of the OTHER end. *)
Definition first_or_second (L : lattice) (n : nat) (edges_from : list nat) : list nat :=
  flat_map (fun e => let '(j, k) := edge_at L e in
                     (if (j =? n)%nat then [] else [0%nat]) ++ (if (k =? n)%nat then [] else [1%nat]))
           edges_from.

Definition oe_row := (option nat * option nat)%type.
(* original_edges[e, col] = x *)
Definition oe_write (tab : list oe_row) (e col x : nat) : list oe_row :=
  let row := nth e tab (None, None) in
  set_nth e (if (col =? 0)%nat then (Some x, snd row) else (fst row, Some x)) tab.
(* arr[i] += d *)
Definition vec_add_at (tab : list vec) (i : nat) (d : vec) : list vec :=
  set_nth i (vadd (nth i tab vzero) d) tab.

Record tstate := mkT {
  t_positions : list vec;        (* new_positions, in append order *)
  t_oedges : list oe_row;        (* original_edges (None = not yet written) *)
  t_ocross : list vec;           (* original_crossing *)
  t_aedges : list (nat * nat);   (* added_edges *)
  t_across : list vec;           (* added_crossing *)
  t_total : nat                  (* running_total *)
}.

Definition vfloor (m : Z) (a : vec) : vec := (fst a / m, snd a / m).
Definition vmod (m : Z) (a : vec) : vec := (fst a mod m, snd a mod m).
Definition vnonzero (a : vec) : bool := negb (fst a =? 0) || negb (snd a =? 0).

(* py:413-431  the loop over the new corners u of one polygon.  State: (original_crossing,
   crossing_around, original_edges).  NB added_crossing.append(crossing_around[u]) appends a VIEW of
   row u, so the value that reaches np.array(added_crossing) is the row after the whole loop. *)
Definition corner_step (d : nat) (edges_from fos : list nat) (shifted : list vec) (rt : nat)
           (st : list vec * list vec * list oe_row) (u : nat) : list vec * list vec * list oe_row :=
  let '(oc, ca, oe) := st in
  let e := nth u edges_from 0%nat in
  let f := nth u fos 0%nat in
  let sh := nth u shifted vzero in
  let '(oc', ca') :=
    if vnonzero sh then                                                   (* py:418 *)
      let oc1 := vec_add_at oc e (vscale (1 - 2 * Z.of_nat f) sh) in      (* py:419-420 *)
      let ca1 := vec_add_at ca u (vneg sh) in                             (* py:422 *)
      let ca2 := vec_add_at ca1 (Nat.modulo (u + d - 1) d) sh in          (* py:423  (u-1) % d *)
      (oc1, ca2)
    else (oc, ca) in
  (oc', ca', oe_write oe e (1 - f)%nat (rt + u)%nat).                     (* py:430-431 *)

(* py:387-447  one iteration of the loop over the vertices *)
Definition vertex_step (L : lattice) (vs : option (list nat)) (st : tstate) (n : nat) : tstate :=
  let edges_from := sorted_adj L n in                                     (* py:393 / 442 *)
  let fos := first_or_second L n edges_from in                            (* py:394-395 / 443-444 *)
  let rt := t_total st in
  if in_sel vs n && (2 <? length edges_from)%nat then                     (* py:390 *)
    let d := length edges_from in
    (* py:398-400  vectors = -(1 - 2*fos) * edge_vectors ; new_set = pos[n] + vectors/3 (times 3S) *)
    let raw := map (fun u => vadd (vscale 3 (pos_at L n))
                                  (vscale (- (1 - 2 * Z.of_nat (nth u fos 0%nat))) (evec L (nth u edges_from 0%nat))))
                   (seq 0 d) in
    let m := 3 * scale L in
    let shifted := map (vfloor m) raw in                                  (* py:403 *)
    let new_set := map (vmod m) raw in                                    (* py:404 *)
    let around := map (fun x => ((x + rt)%nat, (Nat.modulo (x + 1) d + rt)%nat)) (seq 0 d) in   (* py:407-409 *)
    let '(oc, ca, oe) :=
      fold_left (corner_step d edges_from fos shifted rt) (seq 0 d)
                (t_ocross st, repeat vzero d, t_oedges st) in             (* py:410-431 *)
    mkT (t_positions st ++ new_set) oe oc (t_aedges st ++ around) (t_across st ++ ca) (rt + d)%nat
  else
    (* py:436-447 *)
    let oe := fold_left (fun tab ef => oe_write tab (fst ef) (1 - snd ef)%nat rt)
                        (combine edges_from fos) (t_oedges st) in
    mkT (t_positions st ++ [vscale 3 (pos_at L n)]) oe (t_ocross st) (t_aedges st) (t_across st) (S rt).

Definition init_state (L : lattice) : tstate :=
  mkT [] (repeat (None, None) (nE L)) (crossing L) [] [] 0%nat.        (* py:374-385 *)

Definition final_state (L : lattice) (vs : option (list nat)) : tstate :=
  fold_left (vertex_step L vs) (seq 0 (nV L)) (init_state L).

Fixpoint all_some (l : list oe_row) : option (list (nat * nat)) :=
  match l with
  | [] => Some []
  | (Some a, Some b) :: r => option_map (cons (a, b)) (all_some r)
  | _ => None
  end.

(* None = original_edges still holds a None: edges.astype("int") raises TypeError (py:456) *)
Definition vertices_to_polygon (L : lattice) (vs : option (list nat)) : option lattice :=
  let st := final_state L vs in
  match all_some (t_oedges st) with
  | None => None
  | Some oe => Some (mkLattice (3 * scale L) (t_positions st) (oe ++ t_aedges st) (t_ocross st ++ t_across st))
  end.

(* ---------------- specification-side helpers ---------------- *)
Definition is_truncated (L : lattice) (vs : option (list nat)) (n : nat) : bool :=
  in_sel vs n && (2 <? length (sorted_adj L n))%nat.
(* running_total at the start of iteration n *)
Definition base_index (L : lattice) (vs : option (list nat)) (n : nat) : nat :=
  fold_right (fun m acc => ((if is_truncated L vs m then length (sorted_adj L m) else 1) + acc)%nat) 0%nat (seq 0 n).
