"""C15 — fail-closed Python-ast -> effect-IR translator (coq/Model/Effects.v syntax).

Every function/method/nested function of koala's modules becomes one IR function
    stmt := Skip | Bind x rhs | Write x | Call rets f args | Seq | If | Loop
    rhs  := Rhs fresh oo or rr      (Fresh / View / Union / Box / Alias / Extend / Join)
The TRUSTED part is the classification table below (which numpy / matplotlib / pysat /
builtin calls and which syntax forms allocate, alias or write).  Anything not in the
table RAISES (fail closed).  Output: coq/Gen/EffectsIR.v + coq/Gen/effects_ir.json.
"""
import ast, json, os, sys

NRET = 8
MODULES = ["lattice", "graph_utils", "graph_color", "flux_finder.flux_finder", "flux_finder.pathfinding",
           "hamiltonian", "phase_space", "chern_number", "voronization", "plotting",
           "pointsets", "phase_diagrams", "quasicrystals", "example_graphs"]
# modules whose public functions are the property's quantifier (the others are analysed too,
# listed separately in the evidence)
CORE = {"lattice", "graph_utils", "graph_color", "flux_finder.flux_finder", "flux_finder.pathfinding",
        "hamiltonian", "phase_space", "chern_number", "voronization", "plotting"}
# functions not translated, with the reason (explicit, reported in the evidence)
EXCLUDED = {
    "deprecated": "decorator utility: wraps a function transparently (decorated functions are analysed directly)",
    "Lattice.__repr__": "string formatting only",
    "Lattice.__setstate__": "unpickling constructor: (re)initialises self by design (C09)",
}
# parameters that are output sinks, not 'lattice or arrays passed in': excluded from the mask
SINK_PARAMS = {"ax"}


class Unsupported(Exception):
    pass


def fail(node, why, ctx=""):
    ln = getattr(node, "lineno", "?")
    raise Unsupported(f"effects_ir: unsupported construct at {ctx}:{ln}: {why}")


# ----------------------------------------------------------------------------- IR values
class D:
    """symbolic rhs: (fresh, oo, or, rr) over IR variable numbers"""
    __slots__ = ("fr", "oo", "orr", "rr")

    def __init__(self, fr=False, oo=(), orr=(), rr=()):
        self.fr, self.oo, self.orr, self.rr = bool(fr), frozenset(oo), frozenset(orr), frozenset(rr)

    def srcs(self):
        return self.oo | self.orr | self.rr

    def __repr__(self):
        return f"D({self.fr},{sorted(self.oo)},{sorted(self.orr)},{sorted(self.rr)})"


CONST = D()
FRESH = D(True)


def alias(x):
    return D(False, [x])


def view(d):
    return D(d.fr, (), d.oo | d.orr | d.rr, ())


def join(ds):
    ds = list(ds)
    return D(any(d.fr for d in ds), frozenset().union(*[d.oo for d in ds]) if ds else (),
             frozenset().union(*[d.orr for d in ds]) if ds else (),
             frozenset().union(*[d.rr for d in ds]) if ds else ())


def union(ds):
    return view(join(ds))


def box(ds):
    ds = list(ds)
    return D(True, (), (), frozenset().union(*[d.srcs() for d in ds]) if ds else ())


def extend(x, ds):
    return D(False, [x], (), frozenset().union(*[d.srcs() for d in ds]) if ds else ())


# IR statements as nested tuples: ("skip",) ("bind",x,D) ("write",x) ("call",rets,fname,args)
# ("seq",[..]) ("if",s1,s2) ("loop",s)
def seq(stmts):
    out = []
    for s in stmts:
        if s[0] == "seq":
            out += s[1]
        elif s[0] != "skip":
            out.append(s)
    if not out:
        return ("skip",)
    if len(out) == 1:
        return out[0]
    return ("seq", out)


# ----------------------------------------------------------------------------- TRUSTED TABLE
# external callables by resolved dotted name.  classes:
#   "fresh"  result is a new object sharing nothing with the arguments; arguments not written
#   "const"  immutable result (scalar / str / None); arguments not written
#   "view"   result may alias (share memory with / reference) the arguments; not written
#   "box"    new container/object that keeps references to the arguments; not written
EXT = {}
for n in """array zeros ones full zeros_like ones_like arange linspace meshgrid concatenate delete cumsum
    sum prod any all where nonzero argwhere argsort argmin argmax sort unique bincount round floor ceil
    sqrt cos sin tan exp log abs arctan2 max min maximum minimum roll tile append copy einsum sign
    count_nonzero isfinite allclose average take_along_axis conj select stack mean dot cross outer
    linalg.norm linalg.inv linalg.eigvalsh linalg.eigh random.choice random.random random.uniform
    random.default_rng isclose amax amin mod remainder floor_divide power logical_and logical_or
    logical_not array_equal searchsorted cumprod diff flip repeat hstack vstack eye identity
    fill_diagonal_NOT""".split():
    if not n.endswith("_NOT"):
        EXT["numpy." + n] = "fresh"
for n in "asarray squeeze reshape transpose ravel diag real imag atleast_1d atleast_2d swapaxes broadcast_to expand_dims".split():
    EXT["numpy." + n] = "view"
for n in "iinfo finfo errstate".split():
    EXT["numpy." + n] = "fresh"
for n in "pi newaxis inf nan".split():
    EXT["numpy." + n] = "constval"
for n in "int8 int16 int32 int64 uint8 uint16 uint32 uint64 float32 float64 bool bool_ complex128".split():
    EXT["numpy." + n] = "const"          # dtype objects / scalar casts
EXT.update({
    "scipy.linalg.inv": "fresh", "scipy.linalg.eigvalsh": "fresh",
    "scipy.spatial.Voronoi": "box", "scipy.spatial.KDTree": "box",
    "scipy.interpolate.griddata": "fresh", "scipy.sparse.csgraph.csgraph_from_dense": "fresh",
    "matplotlib.pyplot.gca": "fresh", "matplotlib.pyplot.subplots": "fresh", "matplotlib.pyplot.get_cmap": "fresh",
    "matplotlib.collections.LineCollection": "box", "matplotlib.collections.PolyCollection": "box",
    "matplotlib.patheffects.Stroke": "fresh", "matplotlib.transforms.IdentityTransform": "fresh",
    "matplotlib.tri.Triangulation": "box", "matplotlib.colors.LinearSegmentedColormap": "box",
    "pysat.solvers.Solver": "fresh", "pysat.card.IDPool": "fresh",
    "pysat.card.EncType.pairwise": "constval",
    "queue.PriorityQueue": "fresh", "time.time": "const", "mpire.WorkerPool": "box",
    "itertools.product": "box", "itertools.islice": "view",
    "warnings.warn": "const",
    # builtins
    "len": "const", "int": "const", "float": "const", "str": "const", "bool": "const", "range": "const",
    "isinstance": "const", "hasattr": "const", "format": "const", "print": "const", "round": "const",
    "abs": "fresh", "sum": "fresh", "any": "const", "all": "const", "type": "const", "complex": "const",
    "enumerate": "view", "zip": "view", "min": "view", "max": "view", "iter": "view", "next": "view", "reversed": "view",
    "list": "box", "tuple": "box", "set": "box", "dict": "box", "sorted": "box", "slice": "const",
    "ValueError": "fresh", "Exception": "fresh", "AssertionError": "fresh",
})
# external calls that write an argument: name -> index (or keyword) of the written argument
EXT_WRITES = {"numpy.add.at": 0, "numpy.subtract.at": 0, "numpy.multiply.at": 0, "numpy.put": 0,
              "numpy.fill_diagonal": 0, "numpy.copyto": 0, "numpy.place": 0, "numpy.putmask": 0,
              "numpy.random.shuffle": 0,
              "pysat.card.CardEnc.equals": "vpool", "pysat.card.CardEnc.atmost": "vpool", "pysat.card.CardEnc.atleast": "vpool"}
# higher-order externals: the callback (argument 0) is applied to views of argument `arr`
EXT_APPLY = {"numpy.apply_along_axis": 2, "numpy.vectorize": None}

# methods by name (receiver type unknown => classification must be safe for every receiver
# type that has a method of that name among ndarray / list / dict / set / str / Axes / Solver / Queue)
M_FRESH = set("""copy astype flatten sum mean min max argmax argmin argsort any all tolist conj round nonzero cumsum
    dot tobytes prod std var cumprod clip repeat trace uniform choice pareto random integers normal
    query solve get_model get_core enum_models get_linewidths get_ylim get_xlim transform format join split
    startswith endswith index count empty inverted""".split())
M_CONST = set("format join startswith endswith index count empty".split())
M_VIEW = set("reshape ravel squeeze transpose view items keys values swapaxes".split())
# in-place methods: write the receiver; "ext" = the receiver afterwards references the arguments
M_WRITE = {"sort": False, "fill": False, "append": True, "extend": True, "remove": False, "pop": False, "put": True,
           "update": True, "add": True, "clear": False, "insert": True, "setdefault": True, "reverse": False,
           "resize": False, "itemset": False, "setflags": False, "partition": False, "discard": False,
           "append_formula": True, "add_clause": True,
           # matplotlib Axes / Figure sinks
           "scatter": True, "add_collection": True, "arrow": True, "text": True, "set": True, "hlines": True,
           "pcolormesh": True, "tricontourf": True, "triplot": True, "plot": True, "set_xlim": False, "set_ylim": False,
           "map": True}
M_WRITE_RESULT_VIEW = {"pop", "setdefault"}          # result aliases receiver contents
# attributes: loads are View of the base; these are known immutable scalars
ATTR_CONST = {"shape", "ndim", "size", "dtype", "n_vertices", "n_edges", "n_sides", "__name__", "__class__", "max", "min"}
# known 2-d array attributes of Edges / Vertices (used only to decide basic vs advanced indexing)
ATTR_ARRAY2 = {"indices", "positions", "crossing", "vectors"}
ATTR_SCALAR = {"n_vertices", "n_edges", "n_plaquettes", "n_sides"}
# functions whose result is certainly an ndarray/list (=> used as an index it is ADVANCED indexing => copy)
ARRAY_RESULT = set("numpy." + n for n in """array zeros ones full zeros_like ones_like arange where nonzero argwhere argsort
    sort unique concatenate delete cumsum tile roll isfinite logical_and logical_or logical_not""".split())
ARRAY_METHODS = {"astype", "flatten", "copy", "argsort", "nonzero"}
SCALAR_FUNCS = {"len", "int", "float", "round", "abs"}


# ----------------------------------------------------------------------------- module inventory
class FuncInfo:
    def __init__(self, qual, module, node, cls=None, parent=None):
        self.qual, self.module, self.node, self.cls, self.parent = qual, module, node, cls, parent
        self.decorators = [ast.unparse(d) for d in node.decorator_list]
        self.is_cached = any(d.endswith("cached_property") for d in self.decorators)
        self.is_property = self.is_cached or "property" in self.decorators
        a = node.args
        if a.posonlyargs:
            fail(node, "positional-only parameters", qual)
        self.params = [x.arg for x in a.args]
        self.kwonly = [x.arg for x in a.kwonlyargs]
        self.vararg = a.vararg.arg if a.vararg else None
        self.kwarg = a.kwarg.arg if a.kwarg else None
        nd = len(a.defaults)
        self.defaults = {p: d for p, d in zip(self.params[len(self.params) - nd:], a.defaults)}
        for p, d in zip(self.kwonly, a.kwonly_defaults):
            if d is not None:
                self.defaults[p] = d
        self.captures = []        # filled for nested functions (free variables of enclosing functions)
        self.nested = {}          # name -> FuncInfo of directly nested defs
        self.index = None

    def all_params(self):
        """IR formals after GLOB: captures, params, kwonly, *vararg, **kwarg"""
        return (list(self.captures) + self.params + self.kwonly +
                ([self.vararg] if self.vararg else []) + ([self.kwarg] if self.kwarg else []))

    def short(self):
        return self.qual.split(":", 1)[1]


class ModuleInfo:
    def __init__(self, name, src_root):
        self.name = name
        path = os.path.join(src_root, "koala", *name.split(".")) + ".py"
        self.path = path
        self.tree = ast.parse(open(path).read(), filename=path)
        self.imports = {}     # local name -> dotted external name  or ("koala", module)  or ("koalaobj", module, attr)
        self.globals = set()  # module-level data names
        self.funcs = {}       # top-level function name -> FuncInfo
        self.classes = {}     # class name -> {method name -> FuncInfo}
        self.dataclasses = set()
        pkg = ["koala"] + name.split(".")[:-1]
        for st in self.tree.body:
            if isinstance(st, ast.Import):
                for al in st.names:
                    self.imports[(al.asname or al.name.split(".")[0])] = al.name if al.asname else al.name.split(".")[0]
            elif isinstance(st, ast.ImportFrom):
                base = pkg[:len(pkg) - (st.level - 1)] if st.level else []
                mod = ".".join(base + ([st.module] if st.module else []))
                for al in st.names:
                    self.imports[al.asname or al.name] = mod + "." + al.name
            elif isinstance(st, ast.FunctionDef):
                self.funcs[st.name] = FuncInfo(f"{name}:{st.name}", self, st)
            elif isinstance(st, ast.ClassDef):
                ms = {}
                if any("dataclass" in ast.unparse(d) for d in st.decorator_list):
                    self.dataclasses.add(st.name)
                for b in st.body:
                    if isinstance(b, ast.FunctionDef):
                        ms[b.name] = FuncInfo(f"{name}:{st.name}.{b.name}", self, b, cls=st.name)
                    elif not isinstance(b, (ast.AnnAssign, ast.Expr, ast.Pass)):
                        fail(b, "class body statement " + type(b).__name__, name)
                self.classes[st.name] = ms
            elif isinstance(st, (ast.Assign, ast.AnnAssign)):
                for t in (st.targets if isinstance(st, ast.Assign) else [st.target]):
                    for n in ast.walk(t):
                        if isinstance(n, ast.Name):
                            self.globals.add(n.id)
            elif isinstance(st, ast.Expr) and isinstance(st.value, ast.Constant):
                pass
            else:
                fail(st, "module-level statement " + type(st).__name__, name)


BUILTINS = {"len", "int", "float", "str", "bool", "range", "isinstance", "hasattr", "format", "print", "round", "abs", "sum",
            "any", "all", "type", "complex", "enumerate", "zip", "min", "max", "iter", "next", "reversed", "list", "tuple",
            "set", "dict", "sorted", "slice", "ValueError", "Exception", "AssertionError"}


class World:
    def __init__(self, repo):
        self.src = os.path.join(repo, "src")
        self.mods = {m: ModuleInfo(m, self.src) for m in MODULES}
        self.funcs = []           # FuncInfo in emission order
        self.byqual = {}
        self.props = {}           # attribute name -> [FuncInfo] (property / cached_property)
        self.notes = []
        self.escaping = set()     # quals of functions used as first-class values
        for m in self.mods.values():
            for f in m.funcs.values():
                self.add(f)
            for c, ms in m.classes.items():
                for f in ms.values():
                    self.add(f)
                    if f.is_property:
                        self.props.setdefault(f.node.name, []).append(f)

    def add(self, f):
        if f.short() in EXCLUDED:
            return
        self.funcs.append(f)
        self.byqual[f.qual] = f
        # nested defs (lifted)
        for st in ast.walk(f.node):
            pass
        self._nested(f)

    def _nested(self, f):
        def direct_defs(body):
            for st in body:
                if isinstance(st, ast.FunctionDef):
                    yield st
                elif isinstance(st, ast.ClassDef):
                    fail(st, "nested class", f.qual)
                else:
                    for fld in ("body", "orelse", "finalbody", "handlers"):
                        sub = getattr(st, fld, None)
                        if isinstance(sub, list):
                            yield from direct_defs([x for x in sub if isinstance(x, ast.stmt)])
        for d in direct_defs(f.node.body):
            g = FuncInfo(f"{f.qual}.<{d.name}>", f.module, d, parent=f)
            f.nested[d.name] = g
            self.funcs.append(g)
            self.byqual[g.qual] = g
            self._nested(g)

    def resolve_dotted(self, mod, dotted):
        """dotted external/koala name -> ("func", FuncInfo) | ("class", module, name) | ("ext", name) | ("global", module)"""
        parts = dotted.split(".")
        if parts[0] == "koala":
            # longest module prefix
            for k in range(len(parts), 0, -1):
                mname = ".".join(parts[1:k])
                if mname in self.mods:
                    rest = parts[k:]
                    m = self.mods[mname]
                    if not rest:
                        return ("module", m)
                    return self.resolve_in_module(m, rest)
                if mname == "flux_finder" and k == 2:
                    # package re-exports: from .flux_finder import *, from .pathfinding import *
                    for sub in ("flux_finder.flux_finder", "flux_finder.pathfinding"):
                        r = self.resolve_in_module(self.mods[sub], parts[k:], soft=True)
                        if r:
                            return r
            raise Unsupported("effects_ir: cannot resolve koala name " + dotted)
        return ("ext", dotted)

    def resolve_in_module(self, m, rest, soft=False):
        n = rest[0]
        if n in m.funcs and len(rest) == 1:
            return ("func", m.funcs[n])
        if n in m.classes:
            return ("class", m, n, rest[1:])
        if n in m.globals and len(rest) == 1:
            return ("global", m, n)
        if n in m.imports:
            return self.resolve_dotted(m, ".".join([m.imports[n]] + rest[1:]))
        if soft:
            return None
        raise Unsupported(f"effects_ir: cannot resolve {'.'.join(rest)} in module {m.name}")
