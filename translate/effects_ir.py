"""C15 — fail-closed Python-ast -> effect-IR translator (coq/Model/Effects.v syntax).

Every function/method/nested function of koala's modules becomes one IR function
    stmt := Skip | Bind x rhs | Write x | Call rets f args | CallDyn rets gs args | Seq | If | Loop
    rhs  := Rhs fresh oo or rr      (Fresh / View / Union / Box / Alias / Extend / Join)
The TRUSTED part is the classification table below (which numpy / matplotlib / pysat /
builtin calls and which syntax forms allocate, alias or write).  Anything not in the
table RAISES (fail closed).  Output: coq/Gen/EffectsIR.v + coq/Gen/effects_ir.json.
"""
import ast, json, os, sys

NRET = 8
MODULES = ["lattice", "graph_utils", "graph_color", "flux_finder.flux_finder", "flux_finder.pathfinding",
           "hamiltonian", "phase_space", "chern_number", "voronization", "plotting",
           "pointsets", "phase_diagrams", "quasicrystals", "example_graphs"]
# modules whose public functions are the property's quantifier (the others are analysed too,
# listed separately in the evidence)
CORE = {"lattice", "graph_utils", "graph_color", "flux_finder.flux_finder", "flux_finder.pathfinding",
        "hamiltonian", "phase_space", "chern_number", "voronization", "plotting"}
# functions not translated, with the reason (explicit, reported in the evidence)
EXCLUDED = {
    "deprecated": "decorator utility: wraps a function transparently (decorated functions are analysed directly)",
    "Lattice.__repr__": "string formatting only",
    "Lattice.__setstate__": "unpickling constructor: (re)initialises self by design (C09)",
}
# parameters that are output sinks, not 'lattice or arrays passed in': excluded from the mask
SINK_PARAMS = {"ax"}


class Unsupported(Exception):
    pass


def fail(node, why, ctx=""):
    ln = getattr(node, "lineno", "?")
    raise Unsupported(f"effects_ir: unsupported construct at {ctx}:{ln}: {why}")


# ----------------------------------------------------------------------------- IR values
class D:
    """symbolic rhs: (fresh, oo, or, rr) over IR variable numbers"""
    __slots__ = ("fr", "oo", "orr", "rr")

    def __init__(self, fr=False, oo=(), orr=(), rr=()):
        self.fr, self.oo, self.orr, self.rr = bool(fr), frozenset(oo), frozenset(orr), frozenset(rr)

    def srcs(self):
        return self.oo | self.orr | self.rr

    def __repr__(self):
        return f"D({self.fr},{sorted(self.oo)},{sorted(self.orr)},{sorted(self.rr)})"


CONST = D()
FRESH = D(True)


def alias(x):
    return D(False, [x])


def view(d):
    return D(d.fr, (), d.oo | d.orr | d.rr, ())


def join(ds):
    ds = list(ds)
    return D(any(d.fr for d in ds), frozenset().union(*[d.oo for d in ds]) if ds else (),
             frozenset().union(*[d.orr for d in ds]) if ds else (),
             frozenset().union(*[d.rr for d in ds]) if ds else ())


def union(ds):
    return view(join(ds))


def box(ds):
    ds = list(ds)
    return D(True, (), (), frozenset().union(*[d.srcs() for d in ds]) if ds else ())


def extend(x, ds):
    return D(False, [x], (), frozenset().union(*[d.srcs() for d in ds]) if ds else ())


# IR statements as nested tuples: ("skip",) ("bind",x,D) ("write",x) ("call",rets,fname,args)
# ("calldyn",rets,args)  call of a run-time callable (candidates = all escaping koala functions, filled in at emission)
# ("seq",[..]) ("if",s1,s2) ("loop",s)
def seq(stmts):
    out = []
    for s in stmts:
        if s[0] == "seq":
            out += s[1]
        elif s[0] != "skip":
            out.append(s)
    if not out:
        return ("skip",)
    if len(out) == 1:
        return out[0]
    return ("seq", out)


# ----------------------------------------------------------------------------- TRUSTED TABLE
# external callables by resolved dotted name.  classes:
#   "fresh"  result is a new object sharing nothing with the arguments; arguments not written
#   "const"  immutable result (scalar / str / None); arguments not written
#   "view"   result may alias (share memory with / reference) the arguments; not written
#   "box"    new container/object that keeps references to the arguments; not written
EXT = {}
for n in """array zeros ones full zeros_like ones_like arange linspace meshgrid concatenate delete cumsum
    sum prod any all where nonzero argwhere argsort argmin argmax sort unique bincount round floor ceil
    sqrt cos sin tan exp log abs arctan2 max min maximum minimum roll tile append copy sign
    count_nonzero isfinite allclose average take_along_axis conj select stack mean dot cross outer
    linalg.norm linalg.inv linalg.eigvalsh linalg.eigh random.choice random.random random.uniform
    random.default_rng isclose amax amin mod remainder floor_divide power logical_and logical_or
    logical_not array_equal searchsorted cumprod diff flip repeat hstack vstack eye identity
    take compress choose clip add subtract multiply divide true_divide negative positive square hypot arctan arccos
    arcsin degrees radians matmul kron trace triu tril linalg.det linalg.solve linalg.eig linalg.eigvals linalg.svd
    linalg.matrix_rank linalg.pinv histogram interp column_stack dstack nan_to_num around rint trunc isnan isinf
    lexsort partition argpartition ptp median percentile quantile std var union1d intersect1d setdiff1d in1d isin
    indices empty empty_like full_like fromiter cosh sinh tanh log2 log10 exp2 expm1 log1p heaviside bitwise_and
    bitwise_or bitwise_xor invert left_shift right_shift greater less equal not_equal greater_equal less_equal
    argwhere flatnonzero nanmax nanmin nansum nanmean convolve correlate cov corrcoef gradient trapz pad
    fill_diagonal_NOT""".split():
    if not n.endswith("_NOT"):
        EXT["numpy." + n] = "fresh"
for n in "einsum asarray asanyarray ascontiguousarray require frombuffer squeeze reshape transpose ravel diag diagonal real imag atleast_1d atleast_2d atleast_3d swapaxes moveaxis rollaxis broadcast_to broadcast_arrays expand_dims split array_split hsplit vsplit ix_ nditer ndenumerate".split():
    EXT["numpy." + n] = "view"
for n in "iinfo finfo errstate".split():
    EXT["numpy." + n] = "fresh"
for n in "pi newaxis inf nan".split():
    EXT["numpy." + n] = "constval"
for n in "int8 int16 int32 int64 uint8 uint16 uint32 uint64 float32 float64 bool bool_ complex128".split():
    EXT["numpy." + n] = "const"          # dtype objects / scalar casts
EXT.update({
    "scipy.linalg.inv": "fresh", "scipy.linalg.eigvalsh": "fresh",
    "scipy.spatial.Voronoi": "box", "scipy.spatial.KDTree": "box",
    "scipy.interpolate.griddata": "fresh", "scipy.sparse.csgraph.csgraph_from_dense": "fresh",
    "matplotlib.pyplot.gca": "fresh", "matplotlib.pyplot.subplots": "fresh", "matplotlib.pyplot.get_cmap": "fresh",
    "matplotlib.collections.LineCollection": "box", "matplotlib.collections.PolyCollection": "box",
    "matplotlib.patheffects.Stroke": "fresh", "matplotlib.transforms.IdentityTransform": "fresh",
    "matplotlib.tri.Triangulation": "box", "matplotlib.colors.LinearSegmentedColormap": "box",
    "pysat.solvers.Solver": "fresh", "pysat.card.IDPool": "fresh",
    "pysat.card.EncType.pairwise": "constval",
    "queue.PriorityQueue": "fresh", "time.time": "const", "mpire.WorkerPool": "box",
    "itertools.product": "box", "itertools.islice": "view",
    "warnings.warn": "const",
    # builtins
    "len": "const", "int": "const", "float": "const", "str": "const", "bool": "const", "range": "const",
    "isinstance": "const", "hasattr": "const", "format": "const", "print": "const", "round": "const",
    "abs": "fresh", "sum": "fresh", "any": "const", "all": "const", "type": "const", "complex": "const",
    "enumerate": "view", "zip": "view", "min": "view", "max": "view", "iter": "view", "next": "view", "reversed": "view",
    "list": "box", "tuple": "box", "set": "box", "dict": "box", "sorted": "box", "slice": "const",
    "ValueError": "fresh", "Exception": "fresh", "AssertionError": "fresh", "object": "const",
    "NotImplementedError": "fresh", "TypeError": "fresh",
})
# external calls that write an argument: name -> index (or keyword) of the written argument
EXT_WRITES = {"numpy.add.at": 0, "numpy.subtract.at": 0, "numpy.multiply.at": 0, "numpy.put": 0,
              "numpy.fill_diagonal": 0, "numpy.copyto": 0, "numpy.place": 0, "numpy.putmask": 0,
              "numpy.random.shuffle": 0,
              "pysat.card.CardEnc.equals": "vpool", "pysat.card.CardEnc.atmost": "vpool", "pysat.card.CardEnc.atleast": "vpool"}
# higher-order externals: the callback (argument 0) is applied to views of argument `arr`
EXT_APPLY = {"numpy.apply_along_axis": 2, "numpy.vectorize": None}

# methods by name (receiver type unknown => classification must be safe for every receiver
# type that has a method of that name among ndarray / list / dict / set / str / Axes / Solver / Queue)
M_FRESH = set("""copy astype flatten sum mean min max argmax argmin argsort any all tolist conj round nonzero cumsum
    dot tobytes prod std var cumprod clip repeat trace uniform choice pareto random integers normal
    query solve get_model get_core enum_models get_linewidths get_ylim get_xlim format join split
    startswith endswith index count empty inverted""".split())
M_CONST = set("format join startswith endswith index count empty".split())
M_VIEW = set("reshape ravel squeeze transpose view items keys values swapaxes".split())
M_VIEW_ARGS = {"transform"}       # Transform.transform(x): IdentityTransform returns x itself
# in-place methods: write the receiver; "ext" = the receiver afterwards references the arguments
M_WRITE = {"sort": False, "fill": False, "append": True, "extend": True, "remove": False, "pop": False, "put": True,
           "update": True, "add": True, "clear": False, "insert": True, "setdefault": True, "reverse": False,
           "resize": False, "itemset": False, "setflags": False, "partition": False, "discard": False,
           "append_formula": True, "add_clause": True,
           # matplotlib Axes / Figure sinks
           "scatter": True, "add_collection": True, "arrow": True, "text": True, "set": True, "hlines": True,
           "pcolormesh": True, "tricontourf": True, "triplot": True, "plot": True, "set_xlim": False, "set_ylim": False,
           "map": True}
M_WRITE_RESULT_VIEW = {"pop", "setdefault"}          # result aliases receiver contents
# attributes: loads are View of the base; these are known immutable scalars
ATTR_CONST = {"shape", "ndim", "size", "dtype", "n_vertices", "n_edges", "n_sides", "__name__", "__class__", "max", "min"}
# known 2-d array attributes of Edges / Vertices (used only to decide basic vs advanced indexing)
ATTR_ARRAY2 = {"indices", "positions", "crossing", "vectors"}
ATTR_SCALAR = {"n_vertices", "n_edges", "n_plaquettes", "n_sides"}
# attributes that are numeric ndarrays with at most 2 dimensions: `for a, b in X` over such an array binds a, b to
# numpy SCALARS (immutable copies of the entries), not to views — they carry no aliasing
ATTR_NUMERIC_LE2 = ATTR_ARRAY2 | {"adjacent_plaquettes", "coordination_numbers", "directions"}
# functions whose result is certainly an ndarray/list (=> used as an index it is ADVANCED indexing => copy)
ARRAY_RESULT = set("numpy." + n for n in """array zeros ones full zeros_like ones_like arange where nonzero argwhere argsort
    sort unique concatenate delete cumsum tile roll isfinite logical_and logical_or logical_not""".split())
ARRAY_METHODS = {"astype", "flatten", "copy", "argsort", "nonzero"}
SCALAR_FUNCS = {"len", "int", "float", "round", "abs"}


# ----------------------------------------------------------------------------- module inventory
class FuncInfo:
    def __init__(self, qual, module, node, cls=None, parent=None):
        self.qual, self.module, self.node, self.cls, self.parent = qual, module, node, cls, parent
        self.decorators = [ast.unparse(d) for d in node.decorator_list]
        self.is_cached = any(d.endswith("cached_property") for d in self.decorators)
        self.is_property = self.is_cached or "property" in self.decorators
        a = node.args
        if a.posonlyargs:
            fail(node, "positional-only parameters", qual)
        self.params = [x.arg for x in a.args]
        self.kwonly = [x.arg for x in a.kwonlyargs]
        self.vararg = a.vararg.arg if a.vararg else None
        self.kwarg = a.kwarg.arg if a.kwarg else None
        nd = len(a.defaults)
        self.defaults = {p: d for p, d in zip(self.params[len(self.params) - nd:], a.defaults)}
        for p, d in zip(self.kwonly, a.kw_defaults):
            if d is not None:
                self.defaults[p] = d
        self.captures = []        # filled for nested functions (free variables of enclosing functions)
        self.nested = {}          # name -> FuncInfo of directly nested defs
        self.index = None

    def all_params(self):
        """IR formals after GLOB: captures, params, kwonly, *vararg, **kwarg"""
        return (list(self.captures) + self.params + self.kwonly +
                ([self.vararg] if self.vararg else []) + ([self.kwarg] if self.kwarg else []))

    def short(self):
        return self.qual.split(":", 1)[1]


class ModuleInfo:
    def __init__(self, name, src_root):
        self.name = name
        path = os.path.join(src_root, "koala", *name.split(".")) + ".py"
        self.path = path
        self.tree = ast.parse(open(path).read(), filename=path)
        self.imports = {}     # local name -> dotted external name  or ("koala", module)  or ("koalaobj", module, attr)
        self.globals = set()  # module-level data names
        self.funcs = {}       # top-level function name -> FuncInfo
        self.classes = {}     # class name -> {method name -> FuncInfo}
        self.dataclasses = set()
        pkg = ["koala"] + name.split(".")[:-1]
        for st in self.tree.body:
            if isinstance(st, ast.Import):
                for al in st.names:
                    self.imports[(al.asname or al.name.split(".")[0])] = al.name if al.asname else al.name.split(".")[0]
            elif isinstance(st, ast.ImportFrom):
                base = pkg[:len(pkg) - (st.level - 1)] if st.level else []
                mod = ".".join(base + ([st.module] if st.module else []))
                for al in st.names:
                    self.imports[al.asname or al.name] = mod + "." + al.name
            elif isinstance(st, ast.FunctionDef):
                self.funcs[st.name] = FuncInfo(f"{name}:{st.name}", self, st)
            elif isinstance(st, ast.ClassDef):
                ms = {}
                if any("dataclass" in ast.unparse(d) for d in st.decorator_list):
                    self.dataclasses.add(st.name)
                for b in st.body:
                    if isinstance(b, ast.FunctionDef):
                        ms[b.name] = FuncInfo(f"{name}:{st.name}.{b.name}", self, b, cls=st.name)
                    elif not isinstance(b, (ast.AnnAssign, ast.Expr, ast.Pass)):
                        fail(b, "class body statement " + type(b).__name__, name)
                self.classes[st.name] = ms
            elif isinstance(st, (ast.Assign, ast.AnnAssign)):
                for t in (st.targets if isinstance(st, ast.Assign) else [st.target]):
                    for n in ast.walk(t):
                        if isinstance(n, ast.Name):
                            self.globals.add(n.id)
            elif isinstance(st, ast.Expr) and isinstance(st.value, ast.Constant):
                pass
            else:
                fail(st, "module-level statement " + type(st).__name__, name)


BUILTINS = {"len", "int", "float", "str", "bool", "range", "isinstance", "hasattr", "format", "print", "round", "abs", "sum",
            "any", "all", "type", "complex", "enumerate", "zip", "min", "max", "iter", "next", "reversed", "list", "tuple",
            "set", "dict", "sorted", "slice", "ValueError", "Exception", "AssertionError", "object", "NotImplementedError", "TypeError"}


class World:
    def __init__(self, repo):
        self.src = os.path.join(repo, "src")
        self.mods = {m: ModuleInfo(m, self.src) for m in MODULES}
        self.funcs = []           # FuncInfo in emission order
        self.byqual = {}
        self.props = {}           # attribute name -> [FuncInfo] (property / cached_property)
        self.notes = []
        self.escaping = set()     # quals of functions used as first-class values
        for m in self.mods.values():
            for f in m.funcs.values():
                self.add(f)
            for c, ms in m.classes.items():
                for f in ms.values():
                    self.add(f)
                    if f.is_property:
                        self.props.setdefault(f.node.name, []).append(f)

    def add(self, f):
        if f.short() in EXCLUDED:
            return
        self.funcs.append(f)
        self.byqual[f.qual] = f
        # nested defs (lifted)
        for st in ast.walk(f.node):
            pass
        self._nested(f)

    def _nested(self, f):
        def direct_defs(body):
            for st in body:
                if isinstance(st, ast.FunctionDef):
                    yield st
                elif isinstance(st, ast.ClassDef):
                    fail(st, "nested class", f.qual)
                else:
                    for fld in ("body", "orelse", "finalbody", "handlers"):
                        sub = getattr(st, fld, None)
                        if isinstance(sub, list):
                            yield from direct_defs([x for x in sub if isinstance(x, ast.stmt)])
        for d in direct_defs(f.node.body):
            g = FuncInfo(f"{f.qual}.<{d.name}>", f.module, d, parent=f)
            f.nested[d.name] = g
            self.funcs.append(g)
            self.byqual[g.qual] = g
            self._nested(g)

    def resolve_dotted(self, mod, dotted):
        """dotted external/koala name -> ("func", FuncInfo) | ("class", module, name) | ("ext", name) | ("global", module)"""
        parts = dotted.split(".")
        if parts[0] == "koala":
            # longest module prefix
            for k in range(len(parts), 0, -1):
                mname = ".".join(parts[1:k])
                if mname in self.mods:
                    rest = parts[k:]
                    m = self.mods[mname]
                    if not rest:
                        return ("module", m)
                    return self.resolve_in_module(m, rest)
                if mname == "flux_finder" and k == 2:
                    # package re-exports: from .flux_finder import *, from .pathfinding import *
                    for sub in ("flux_finder.flux_finder", "flux_finder.pathfinding"):
                        r = self.resolve_in_module(self.mods[sub], parts[k:], soft=True)
                        if r:
                            return r
            raise Unsupported("effects_ir: cannot resolve koala name " + dotted)
        return ("ext", dotted)

    def resolve_in_module(self, m, rest, soft=False):
        n = rest[0]
        if n in m.funcs and len(rest) == 1:
            return ("func", m.funcs[n])
        if n in m.classes:
            return ("class", m, n, rest[1:])
        if n in m.globals and len(rest) == 1:
            return ("global", m, n)
        if n in m.imports:
            return self.resolve_dotted(m, ".".join([m.imports[n]] + rest[1:]))
        if soft:
            return None
        raise Unsupported(f"effects_ir: cannot resolve {'.'.join(rest)} in module {m.name}")


# ----------------------------------------------------------------------------- per-function translation
def own_stmts(fnode):
    """all statements/expressions of a function excluding nested function bodies"""
    stack = list(fnode.body)
    while stack:
        n = stack.pop()
        yield n
        for c in ast.iter_child_nodes(n):
            if isinstance(c, (ast.FunctionDef, ast.Lambda, ast.ClassDef)):
                if isinstance(c, ast.FunctionDef):
                    yield c          # the def itself (its name is a local), not its body
                continue
            stack.append(c)


def local_names(f):
    """params + every name stored in the function body (comprehension targets excluded) + nested def names"""
    out = set(f.params + f.kwonly + ([f.vararg] if f.vararg else []) + ([f.kwarg] if f.kwarg else []))
    comp_targets = set()
    for n in own_stmts(f.node):
        if isinstance(n, ast.comprehension):
            for t in ast.walk(n.target):
                if isinstance(t, ast.Name):
                    comp_targets.add(id(t))
    for n in own_stmts(f.node):
        if isinstance(n, ast.Name) and isinstance(n.ctx, ast.Store) and id(n) not in comp_targets:
            out.add(n.id)
        elif isinstance(n, ast.FunctionDef):
            out.add(n.name)
        elif isinstance(n, (ast.Global, ast.Nonlocal)):
            fail(n, "global/nonlocal", f.qual)
    return out


def compute_captures(world):
    loc = {f.qual: local_names(f) for f in world.funcs}
    def ancestors(f):
        while f.parent is not None:
            f = f.parent
            yield f
    def visible_def(f, name):
        g = f
        while g is not None:
            if name in g.nested:
                return g.nested[name]
            g = g.parent
        return None
    changed = True
    for f in world.funcs:
        f._loc = loc[f.qual]
    while changed:
        changed = False
        for f in world.funcs:
            if f.parent is None:
                continue
            caps = list(f.captures)
            names = [n.id for n in ast.walk(f.node) if isinstance(n, ast.Name)]
            inner_locals = set()
            for g in world.funcs:
                if g is not f and g.qual.startswith(f.qual + "."):
                    inner_locals |= loc[g.qual]
            for nm in names:
                if nm in loc[f.qual]:
                    continue
                d = visible_def(f, nm)
                if d is not None and nm not in f.nested:
                    for c in d.captures:
                        if c not in caps and c not in loc[f.qual]:
                            caps.append(c)
                    continue
                if nm in inner_locals:
                    continue
                if any(nm in loc[a.qual] and nm not in a.nested for a in ancestors(f)) and nm not in caps:
                    caps.append(nm)
            # own nested defs' captures that are not our locals must be passed through
            for g in f.nested.values():
                for c in g.captures:
                    if c not in loc[f.qual] and c not in caps:
                        caps.append(c)
            if caps != f.captures:
                f.captures = caps
                changed = True


def is_const_default(d):
    if isinstance(d, ast.Constant):
        return True
    if isinstance(d, ast.UnaryOp) and isinstance(d.operand, ast.Constant):
        return True
    if isinstance(d, ast.Tuple):
        return all(is_const_default(x) for x in d.elts)
    return False


class FT:
    def __init__(self, world, f):
        self.w, self.f, self.m = world, f, f.module
        self.names = {}
        self.nvars = NRET
        self.varnames = ["$ret%d" % i for i in range(NRET)]
        self.GLOB = self.newvar("$glob")
        for p in f.all_params():
            self.names[p] = self.newvar(p)
        self.nparams = self.nvars - NRET
        self.scopes = []          # comprehension scopes: list of dict name -> var
        self.blocks = [[]]
        self.locals = f._loc
        self.in_once_guard = []   # (class name, attr) of enclosing `if not hasattr(C, "a")`
        # return-slot layout
        rets = [n for n in own_stmts(f.node) if isinstance(n, ast.Return) and n.value is not None]
        lens = set(len(r.value.elts) if isinstance(r.value, ast.Tuple) and not any(isinstance(e, ast.Starred) for e in r.value.elts) else -1 for r in rets)
        self.ret_len = lens.pop() if len(lens) == 1 else -1
        if self.ret_len > NRET - 1 or self.ret_len < 2:
            self.ret_len = -1
        f.ret_len = self.ret_len
        # assignments per name (for the scalar / array index classification)
        self.assigned = {}
        for p in f.all_params():
            self.assigned.setdefault(p, []).append(("unknown",))
        for n in own_stmts(f.node):
            if isinstance(n, ast.Assign):
                for t in n.targets:
                    self.note_assign(t, n.value)
            elif isinstance(n, ast.AnnAssign) and n.value is not None:
                self.note_assign(n.target, n.value)
            elif isinstance(n, (ast.For, ast.comprehension)):
                self.note_iter(n.target, n.iter)
            elif isinstance(n, ast.withitem) and n.optional_vars is not None:
                for t in ast.walk(n.optional_vars):
                    if isinstance(t, ast.Name):
                        self.assigned.setdefault(t.id, []).append(("unknown",))

    # ---- variables
    def newvar(self, label):
        v = self.nvars
        self.nvars += 1
        self.varnames.append(label)
        return v

    def var(self, name):
        for sc in reversed(self.scopes):
            if name in sc:
                return sc[name]
        if name not in self.names:
            self.names[name] = self.newvar(name)
        return self.names[name]

    def emit(self, s):
        if s[0] == "write" and len(s) == 2:
            s = ("write", s[1], getattr(self, "cur_line", 0))
        self.blocks[-1].append(s)

    def bind(self, x, d):
        self.emit(("bind", x, d))

    def tmp(self, d, label="$t"):
        """a variable holding d (reuses the variable when d is exactly one alias)"""
        if not d.fr and len(d.oo) == 1 and not d.orr and not d.rr:
            return next(iter(d.oo))
        t = self.newvar(label)
        self.bind(t, d)
        return t

    def note(self, s):
        s = f"{self.f.short()}: {s}"
        if s not in self.w.notes:
            self.w.notes.append(s)

    # ---- kinds (only used to decide basic vs advanced indexing and scalar augmented assignment)
    def note_assign(self, t, v):
        if isinstance(t, ast.Name):
            self.assigned.setdefault(t.id, []).append(("expr", v))
        elif isinstance(t, (ast.Tuple, ast.List)):
            if isinstance(v, (ast.Tuple, ast.List)) and len(v.elts) == len(t.elts) and not any(isinstance(e, ast.Starred) for e in t.elts + v.elts):
                for a, b in zip(t.elts, v.elts):
                    self.note_assign(a, b)
            else:
                for n in ast.walk(t):
                    if isinstance(n, ast.Name):
                        self.assigned.setdefault(n.id, []).append(("unknown",))

    def note_iter(self, t, it):
        fn = it.func.id if isinstance(it, ast.Call) and isinstance(it.func, ast.Name) else None
        if isinstance(t, ast.Name):
            self.assigned.setdefault(t.id, []).append(("scalar",) if fn == "range" else ("unknown",))
            return
        first = True
        for e in (t.elts if isinstance(t, (ast.Tuple, ast.List)) else [t]):
            for n in ast.walk(e):
                if isinstance(n, ast.Name):
                    self.assigned.setdefault(n.id, []).append(("scalar",) if (fn == "enumerate" and first and isinstance(e, ast.Name)) else ("unknown",))
            first = False

    def kind(self, e, depth=0):
        """'scalar' | 'slice' | 'array' | 'array2' | 'unknown'"""
        if depth > 6:
            return "unknown"
        if isinstance(e, ast.Constant):
            if e.value is None or e.value is Ellipsis:
                return "slice"
            return "scalar" if isinstance(e.value, (int, float, bool)) else "unknown"
        if isinstance(e, ast.Slice):
            return "slice"
        if isinstance(e, (ast.List, ast.ListComp)):
            return "array"
        if isinstance(e, ast.Tuple):
            ks = [self.kind(x, depth + 1) for x in e.elts]
            if any(k in ("array", "array2") for k in ks):
                return "array"
            return "slice" if all(k in ("scalar", "slice") for k in ks) else "unknown"
        if isinstance(e, ast.Name):
            if e.id not in self.locals and not any(e.id in sc for sc in self.scopes):
                return "unknown"
            ks = set()
            for a in self.assigned.get(e.id, [("unknown",)]):
                ks.add(a[0] if a[0] != "expr" else self.kind(a[1], depth + 1))
            if ks <= {"array", "array2"} and ks:
                return "array2" if ks == {"array2"} else "array"
            return ks.pop() if len(ks) == 1 else "unknown"
        if isinstance(e, ast.Attribute):
            if e.attr in ATTR_ARRAY2 and not self.dotted(e):
                return "array2"
            if e.attr in ATTR_SCALAR:
                return "scalar"
            if e.attr == "newaxis":
                return "slice"
            return "unknown"
        if isinstance(e, ast.Subscript):
            b, i = self.kind(e.value, depth + 1), self.kind(e.slice, depth + 1)
            if isinstance(e.value, ast.Attribute) and e.value.attr == "shape":
                return "scalar"
            if b == "array2" and not isinstance(e.slice, ast.Tuple):
                return "array"          # one index on a 2-d array leaves >= 1 dimension
            if b in ("array", "array2") and i in ("array", "array2"):
                return "array"
            if b in ("array", "array2") and isinstance(e.slice, ast.Slice):
                return "array"
            return "unknown"
        if isinstance(e, ast.UnaryOp):
            return self.kind(e.operand, depth + 1) if self.kind(e.operand, depth + 1) in ("scalar", "array", "array2") else "unknown"
        if isinstance(e, (ast.BinOp, ast.Compare, ast.BoolOp)):
            ops = ([e.left, e.right] if isinstance(e, ast.BinOp) else [e.left] + e.comparators if isinstance(e, ast.Compare) else e.values)
            ks = [self.kind(x, depth + 1) for x in ops]
            if any(k in ("array", "array2") for k in ks) and not isinstance(e, ast.BoolOp):
                return "array"
            return "scalar" if all(k == "scalar" for k in ks) else "unknown"
        if isinstance(e, ast.Call):
            d = self.dotted(e.func)
            if d and d[0] == "ext":
                if d[1] in ARRAY_RESULT:
                    return "array"
                if d[1] in SCALAR_FUNCS:
                    return "scalar"
            if d is None and isinstance(e.func, ast.Attribute) and e.func.attr in ARRAY_METHODS and self.kind(e.func.value, depth + 1) in ("array", "array2"):
                return "array"
            return "unknown"
        return "unknown"

    # ---- name resolution
    def find_def(self, name):
        g = self.f
        while g is not None:
            if name in g.nested:
                return g.nested[name]
            g = g.parent
        return None

    def is_local(self, name):
        if any(name in sc for sc in self.scopes):
            return True
        return name in self.locals or name in self.f.captures

    def dotted(self, e):
        """static target of a (dotted) name used as callee / module attribute, or None when the root
        is a run-time value.  ('func',FuncInfo) ('nested',FuncInfo) ('class',m,name,rest) ('global',m,name)
        ('ext',dotted) ('module',m)"""
        parts = []
        while isinstance(e, ast.Attribute):
            parts.append(e.attr)
            e = e.value
        if not isinstance(e, ast.Name):
            return None
        parts.append(e.id)
        parts.reverse()
        root = parts[0]
        if self.is_local(root):
            d = self.find_def(root)
            if d is not None and len(parts) == 1 and not any(root in sc for sc in self.scopes):
                # a nested def name that is not rebound as data
                if all(a[0] == "unknown" for a in self.assigned.get(root, [])) and root not in self.f.all_params():
                    return ("nested", d)
            return None
        d = self.find_def(root)
        if d is not None and len(parts) == 1:
            return ("nested", d)
        m = self.m
        if root in m.funcs or root in m.classes or root in m.globals or root in m.imports:
            r = self.w.resolve_in_module(m, parts)
            if r[0] == "global":
                return ("global", r[1], r[2]) if len(parts) == 1 else None
            return r
        if root in BUILTINS and len(parts) == 1:
            return ("ext", root)
        fail(e, f"unknown name {root}", self.f.qual)

    def funcvalue(self, g, node):
        """a koala function used as a first-class value: it must itself be effect-free on everything
        it is given (checked by koala_pure with every formal tainted); value = box of its captures"""
        self.w.escaping.add(g.qual)
        return box([alias(self.var(c)) for c in g.captures]) if g.captures else CONST

    # ---- expressions
    def ex(self, e):
        m = getattr(self, "ex_" + type(e).__name__, None)
        if m is None:
            fail(e, "expression " + type(e).__name__, self.f.qual)
        return m(e)

    def ex_Constant(self, e):
        return CONST

    ex_JoinedStr = ex_Constant

    def ex_Name(self, e):
        if self.is_local(e.id):
            d = self.dotted(e)
            if d and d[0] == "nested":
                return self.funcvalue(d[1], e)
            return alias(self.var(e.id))
        d = self.dotted(e)
        if d[0] in ("nested", "func"):
            return self.funcvalue(d[1], e)
        if d[0] == "global":
            return view(alias(self.GLOB))
        if d[0] == "class":
            return CONST
        if d[0] == "ext":
            k = EXT.get(d[1])
            if k in ("constval", "const"):
                return CONST
            if d[1] in EXT or d[1] in EXT_WRITES:
                return CONST        # an external function used as a value (np.unique passed to apply_along_axis)
            fail(e, f"external name {d[1]} not in the table", self.f.qual)
        fail(e, f"name {e.id}", self.f.qual)

    def ex_Attribute(self, e):
        d = self.dotted(e)
        if d is not None:
            if d[0] in ("func",):
                return self.funcvalue(d[1], e)
            if d[0] == "ext":
                if EXT.get(d[1]) in ("constval", "const") or d[1] in EXT or d[1] in EXT_WRITES:
                    return CONST
                fail(e, f"external attribute {d[1]} not in the table", self.f.qual)
            if d[0] == "class" and d[3]:
                return view(alias(self.GLOB))      # class attribute: module state
            if d[0] in ("class", "module"):
                return CONST
            fail(e, "attribute of " + str(d[0]), self.f.qual)
        b = self.ex(e.value)
        if e.attr in self.w.props:
            bv = self.tmp(b, "$recv")
            outs = [view(alias(bv))]
            for g in self.w.props[e.attr]:
                r = self.newvar("$prop")
                self.emit(("call", [r], g.qual, [self.GLOB, bv]))
                outs.append(alias(r))
            return join(outs)
        if e.attr in ATTR_CONST:
            return CONST
        return view(b)

    def ex_index(self, s):
        """evaluate the sub-expressions of an index for their effects; returns their values"""
        if isinstance(s, ast.Slice):
            return [self.ex(x) for x in (s.lower, s.upper, s.step) if x is not None]
        if isinstance(s, ast.Tuple):
            return [d for x in s.elts for d in self.ex_index(x)]
        return [self.ex(s)]

    def ex_Subscript(self, e):
        b = self.ex(e.value)
        self.ex_index(e.slice)
        if self.kind(e.slice) in ("array", "array2"):
            return box([b])         # advanced indexing: new buffer (elements of object arrays stay shared)
        return view(b)

    def ex_BinOp(self, e):
        l, r = self.ex(e.left), self.ex(e.right)
        if any(isinstance(x, (ast.List, ast.Tuple, ast.ListComp)) for x in (e.left, e.right)):
            return box([l, r])      # list concatenation / repetition: new list, shared elements
        return FRESH

    def ex_UnaryOp(self, e):
        self.ex(e.operand)
        return CONST if isinstance(e.op, ast.Not) else FRESH

    def ex_Compare(self, e):
        self.ex(e.left)
        for c in e.comparators:
            self.ex(c)
        return FRESH

    def ex_BoolOp(self, e):
        return join([self.ex(v) for v in e.values])

    def ex_IfExp(self, e):
        self.ex(e.test)
        return join([self.ex(e.body), self.ex(e.orelse)])

    def ex_List(self, e):
        return box([view(self.ex(x.value)) if isinstance(x, ast.Starred) else self.ex(x) for x in e.elts])

    ex_Tuple = ex_List
    ex_Set = ex_List

    def ex_Dict(self, e):
        return box([self.ex(x) for x in list(e.keys) + list(e.values) if x is not None])

    def comp(self, gens, elts):
        acc = self.newvar("$comp")
        self.bind(acc, FRESH)
        self.scopes.append({})
        def rec(i):
            if i == len(gens):
                ds = [self.ex(x) for x in elts]
                self.bind(acc, extend(acc, ds))
                return
            g = gens[i]
            if g.is_async:
                fail(g, "async comprehension", self.f.qual)
            it = self.ex(g.iter)
            self.blocks.append([("skip",)])
            self.bind_iter_target(g.target, g.iter, it, comp=True)
            for c in g.ifs:
                self.ex(c)
            rec(i + 1)
            body = self.blocks.pop()
            self.emit(("loop", seq_keep(body)))
        rec(0)
        self.scopes.pop()
        return alias(acc)

    def ex_ListComp(self, e):
        return self.comp(e.generators, [e.elt])

    ex_SetComp = ex_ListComp
    ex_GeneratorExp = ex_ListComp

    def ex_DictComp(self, e):
        return self.comp(e.generators, [e.key, e.value])


def seq_keep(stmts):
    """right-nested sequence that keeps a leading Skip (the 'zero statements executed' prefix)"""
    return ("seq", [("skip",)] + [s for s in seq(stmts)[1]] if seq(stmts)[0] == "seq" else [("skip",), seq(stmts)])


class FT2(FT):
    # ---- calls
    def call_args(self, e):
        pos, kws, star, dstar = [], {}, [], []
        for a in e.args:
            if isinstance(a, ast.Starred):
                star.append(view(self.ex(a.value)))
            else:
                pos.append(self.ex(a))
        for k in e.keywords:
            if k.arg is None:
                dstar.append(view(self.ex(k.value)))
            else:
                kws[k.arg] = self.ex(k.value)
        return pos, kws, star, dstar

    def default_value(self, g, p):
        d = g.defaults.get(p)
        if d is None:
            return None
        if is_const_default(d):
            return CONST
        if isinstance(d, (ast.Name, ast.Attribute)):
            # a default naming a koala function (heuristic=straight_line_length)
            try:
                sub = FT2.__new__(FT2)
                sub.__dict__.update(self.__dict__)
                sub.f, sub.m, sub.locals, sub.scopes = g, g.module, set(), []
                r = sub.dotted(d)
            except Unsupported:
                r = None
            if r and r[0] == "func":
                self.w.escaping.add(r[1].qual)
                return CONST
        return view(alias(self.GLOB))     # object created at definition time: module state

    def koala_call(self, g, pos, kws, star, dstar, node, nrets=1):
        """emit Call to koala function g; returns the list of result variables"""
        vals, extra_pos, extra_kw = {}, [], []
        for i, d in enumerate(pos):
            if i < len(g.params):
                vals[g.params[i]] = d
            elif g.vararg:
                extra_pos.append(d)
            else:
                fail(node, f"too many positional arguments for {g.qual}", self.f.qual)
        for k, d in kws.items():
            if k in g.params or k in g.kwonly:
                vals[k] = join([vals[k], d]) if k in vals else d
            elif g.kwarg:
                extra_kw.append(d)
            else:
                fail(node, f"unknown keyword {k} for {g.qual}", self.f.qual)
        spread = star + dstar
        args = [self.GLOB] + [self.var(c) for c in g.captures]
        for p in g.params + g.kwonly:
            d = vals.get(p)
            if d is None:
                d = self.default_value(g, p)
                if d is None and not spread:
                    fail(node, f"missing argument {p} for {g.qual}", self.f.qual)
                if p in SINK_PARAMS and spread:
                    self.note(f"line {node.lineno}: output sink `{p}` of {g.short()} may be passed through **kwargs: treated as a sink, not as an argument array")
                    d = FRESH
                else:
                    d = join(([d] if d is not None else []) + spread)
            elif spread and p not in kws and p in g.defaults:
                pass
            args.append(self.tmp(d, "$arg"))
        if g.vararg:
            args.append(self.tmp(box(extra_pos + star), "$varargs"))
        if g.kwarg:
            args.append(self.tmp(box(extra_kw + dstar), "$kwargs"))
        rets = [self.newvar("$r") for _ in range(nrets)]
        self.emit(("call", rets, g.qual, args))
        return rets

    def construct(self, m, cname, pos, kws, star, dstar, node):
        ms = m.classes[cname]
        if "__init__" in ms:
            s = self.newvar("$self")
            self.bind(s, FRESH)
            r = self.koala_call(ms["__init__"], [alias(s)] + pos, kws, star, dstar, node)
            return alias(r[0])
        if cname in m.dataclasses:
            return box(pos + list(kws.values()) + star + dstar)
        return FRESH        # exception classes

    def apply_callback(self, cb, elem_args, node):
        """call callback expression cb (function value) on the given argument values"""
        d = self.dotted(cb) if isinstance(cb, (ast.Name, ast.Attribute)) else None
        if d and d[0] in ("func", "nested"):
            g = d[1]
            need = len([p for p in g.params if p not in g.defaults])
            if len(elem_args) < need:       # arity unknown to us (pool.map): every formal may receive any of the values
                elem_args = [union(elem_args)] * need
            r = self.koala_call(g, elem_args[:len(g.params)] if not g.vararg else elem_args, {}, [], [], node)
            return alias(r[0])
        if d and d[0] == "ext":
            k = EXT.get(d[1])
            if d[1] in EXT_WRITES or k is None:
                fail(node, f"callback {d[1]}", self.f.qual)
            return FRESH if k in ("fresh", "const") else D(True, (), frozenset().union(*[x.srcs() for x in elem_args]) if elem_args else ())
        # a run-time callable (parameter, np.vectorize object): assumed effect-free (see funcvalue / TRUST);
        # a local bound to a bound method / element (f = x.sort; f()) is NOT accepted
        if isinstance(cb, ast.Name) and any(a[0] == "expr" and isinstance(a[1], (ast.Attribute, ast.Subscript, ast.Lambda))
                                            for a in self.assigned.get(cb.id, [])):
            fail(node, f"call of local `{cb.id}` bound to an attribute/element (possible bound in-place method)", self.f.qual)
        if not isinstance(cb, ast.Name):
            fail(node, "call of a computed callable expression", self.f.qual)
        c = self.ex(cb)
        self.note(f"line {node.lineno}: call of a run-time callable `{ast.unparse(cb)[:40]}`: CallDyn (any koala function used as a first-class value, on any arguments; or a foreign effect-free callable)")
        r = self.newvar("$dyn")
        args = [self.GLOB, self.tmp_copy(c)] + [self.tmp_copy(x) for x in elem_args]
        self.emit(("calldyn", [r], args))
        return alias(r)

    def ex_Call(self, e):
        f = e.func
        # np.vectorize(F)(args)
        if isinstance(f, ast.Call):
            d0 = self.dotted(f.func) if isinstance(f.func, (ast.Name, ast.Attribute)) else None
            if d0 == ("ext", "numpy.vectorize") and len(f.args) == 1:
                pos, kws, star, dstar = self.call_args(e)
                self.apply_callback(f.args[0], [view(x) for x in pos], e)
                return FRESH
            fail(e, "call of a call result", self.f.qual)
        d = self.dotted(f) if isinstance(f, (ast.Name, ast.Attribute)) else None
        if d is None and isinstance(f, ast.Attribute):
            return self.method_call(e)
        if d is None:
            pos, kws, star, dstar = self.call_args(e)
            return self.apply_callback(f, pos + list(kws.values()) + star + dstar, e)
        if d[0] == "ext" and d[1] in EXT_APPLY and e.args and isinstance(e.args[0], (ast.Name, ast.Attribute)):
            dd = self.dotted(e.args[0])
            if dd and dd[0] in ("func", "nested", "ext"):
                # the callback is applied right here: analysed as a direct call, not as an escaping value
                e2 = ast.Call(func=e.func, args=[ast.Constant(value=0)] + e.args[1:], keywords=e.keywords)
                ast.copy_location(e2, e)
                pos, kws, star, dstar = self.call_args(e2)
                if d[1] == "numpy.apply_along_axis":
                    if len(e.args) < 3 or any(isinstance(a, ast.Starred) for a in e.args[:3]):
                        fail(e, "apply_along_axis form", self.f.qual)
                    self.apply_callback(e.args[0], [view(pos[2])] + pos[3:], e)
                    return FRESH
                return self.funcvalue(dd[1], e) if dd[0] != "ext" else CONST
        pos, kws, star, dstar = self.call_args(e)
        if d[0] in ("func", "nested"):
            return alias(self.koala_call(d[1], pos, kws, star, dstar, e)[0])
        if d[0] == "class":
            if d[3]:
                fail(e, "call of class attribute", self.f.qual)
            return self.construct(d[1], d[2], pos, kws, star, dstar, e)
        if d[0] != "ext":
            fail(e, "call of " + d[0], self.f.qual)
        name = d[1]
        allv = pos + list(kws.values()) + star + dstar
        if "out" in kws and name.startswith("numpy."):
            # numpy's out= keyword: the result is written into that argument
            self.emit(("write", self.tmp(kws["out"], "$w")))
        if name in EXT_WRITES:
            w = EXT_WRITES[name]
            tgt = kws.get(w) if isinstance(w, str) else (pos[w] if w < len(pos) else None)
            if tgt is None:
                fail(e, f"written argument of {name} not found", self.f.qual)
            self.emit(("write", self.tmp(tgt, "$w")))
            return FRESH
        if name == "numpy.apply_along_axis":
            if len(e.args) < 3 or any(isinstance(a, ast.Starred) for a in e.args[:3]):
                fail(e, "apply_along_axis form", self.f.qual)
            self.apply_callback(e.args[0], [view(pos[2])] + pos[3:], e)
            return FRESH
        if name == "numpy.vectorize":
            cb = e.args[0]
            dd = self.dotted(cb) if isinstance(cb, (ast.Name, ast.Attribute)) else None
            if dd and dd[0] in ("func", "nested"):
                return self.funcvalue(dd[1], e)
            return box(allv)
        if name == "numpy.array" and "dtype" in kws and isinstance([k for k in e.keywords if k.arg == "dtype"][0].value, ast.Name) \
                and [k for k in e.keywords if k.arg == "dtype"][0].value.id == "object":
            return box(allv)
        k = EXT.get(name)
        if k is None:
            fail(e, f"external callable {name} not in the table", self.f.qual)
        if k in ("fresh",):
            return FRESH
        if k in ("const", "constval"):
            return CONST
        if k == "view":
            return union(allv)
        if k == "box":
            return box(allv)
        fail(e, f"table class {k}", self.f.qual)

    def method_call(self, e):
        name = e.func.attr
        recv = self.ex(e.func.value)
        pos, kws, star, dstar = self.call_args(e)
        allv = pos + list(kws.values()) + star + dstar
        if name == "get":
            if not allv:                       # Queue.get(): removes an element
                self.emit(("write", self.tmp(recv, "$recv")))
            return view(recv)
        if name in M_WRITE:
            x = self.tmp(recv, "$recv")
            self.emit(("write", x))
            if M_WRITE[name]:
                self.bind(x, extend(x, allv))
                root = self.root_name(e.func.value)
                if root is not None and root != x:
                    self.bind(root, extend(root, allv))
            if name == "map" and e.args:
                self.apply_callback(e.args[0], [view(alias(x))] + [view(a) for a in pos[1:]], e)
            if name in M_WRITE_RESULT_VIEW:
                return view(alias(x))
            return box(allv) if M_WRITE[name] else FRESH
        if name in M_VIEW:
            return view(recv)
        if name in M_VIEW_ARGS:
            return union([recv] + allv)
        if name in M_CONST:
            return CONST
        if name in M_FRESH:
            return box([recv]) if name in ("copy", "astype", "flatten", "tolist") else FRESH
        fail(e, f"method .{name}() not in the table", self.f.qual)

    def root_name(self, e):
        while isinstance(e, (ast.Attribute, ast.Subscript)):
            e = e.value
        if isinstance(e, ast.Name) and self.is_local(e.id) and not (self.dotted(e) or (None,))[0] == "nested":
            return self.var(e.id)
        return None


class FT3(FT2):
    def method_call(self, e):
        name = e.func.attr
        cands = [ms[name] for m in self.w.mods.values() for ms in m.classes.values()
                 if name in ms and not ms[name].is_property and ms[name].short() not in EXCLUDED]
        if cands and name.startswith("__") or (cands and name not in M_WRITE and name not in M_FRESH and name not in M_VIEW):
            recv = self.ex(e.func.value)
            pos, kws, star, dstar = self.call_args(e)
            outs = [alias(self.koala_call(g, [recv] + pos, kws, star, dstar, e)[0]) for g in cands]
            return join(outs)
        return FT2.method_call(self, e)

    # ---- binding of targets
    def bind_iter_target(self, t, it_node, it, comp=False):
        """for t in it_node (value it): elementwise for zip / enumerate, else every name is a view"""
        comps = None
        if isinstance(it_node, ast.Call) and isinstance(it_node.func, ast.Name) and not self.is_local(it_node.func.id) \
                and isinstance(t, (ast.Tuple, ast.List)) and not any(isinstance(a, ast.Starred) for a in it_node.args) and not it_node.keywords:
            if it_node.func.id == "zip" and len(it_node.args) == len(t.elts):
                comps = [view(self.ex(a)) for a in it_node.args]
            elif it_node.func.id == "enumerate" and len(t.elts) == 2 and len(it_node.args) == 1:
                comps = [CONST, view(self.ex(it_node.args[0]))]
        if comps is None and isinstance(t, (ast.Tuple, ast.List)) and all(isinstance(a, ast.Name) for a in t.elts) \
                and self.numeric_le2(it_node):
            # rows of a numeric array of <= 2 dimensions unpacked into names: immutable scalars
            self.note(f"line {it_node.lineno}: `for {ast.unparse(t)} in {ast.unparse(it_node)[:40]}`: entries of a numeric array (<= 2-d) unpacked into names are scalars (no aliasing)")
            for a in t.elts:
                self.assign_target(a, CONST, comp)
            return
        if comps is not None:
            for a, d in zip(t.elts, comps):
                self.assign_target(a, d, comp, unpack=True)
        else:
            self.assign_target(t, view(it), comp, unpack=False)

    def numeric_le2(self, e, depth=0):
        if depth > 4:
            return False
        if isinstance(e, ast.Attribute):
            return e.attr in ATTR_NUMERIC_LE2 and not self.dotted(e)
        if isinstance(e, ast.Name) and self.is_local(e.id):
            a = self.assigned.get(e.id, [])
            return bool(a) and all(x[0] == "expr" and self.numeric_le2(x[1], depth + 1) for x in a)
        return False

    def target_var(self, name, comp):
        if comp:
            sc = self.scopes[-1]
            if name not in sc:
                sc[name] = self.newvar(name + "$c")
            return sc[name]
        return self.var(name)

    def assign_target(self, t, d, comp=False, unpack=False):
        if isinstance(t, ast.Name):
            self.bind(self.target_var(t.id, comp), d)
        elif isinstance(t, (ast.Tuple, ast.List)):
            for a in t.elts:
                self.assign_target(a.value if isinstance(a, ast.Starred) else a, view(d), comp)
        elif isinstance(t, ast.Subscript):
            self.ex_index(t.slice)
            self.store_through(t.value, d, t)
        elif isinstance(t, ast.Attribute):
            dd = self.dotted(t)
            if dd is not None:
                if dd[0] == "class" and len(dd[3]) == 1 and (dd[2], dd[3][0]) in self.in_once_guard:
                    self.note(f"line {t.lineno}: `{ast.unparse(t)} = ...` under `if not hasattr({dd[2]}, '{dd[3][0]}')`: write-once class attribute, exempt like the cached attributes")
                    return
                fail(t, "store to a module/class attribute", self.f.qual)
            if self.f.is_cached and isinstance(t.value, ast.Name) and t.value.id == self.f.params[0]:
                self.note(f"line {t.lineno}: `{ast.unparse(t)} = ...` inside a cached_property: population of a lazily computed attribute (exempt, no Write emitted)")
                return
            self.store_through(t.value, d, t)
        else:
            fail(t, "assignment target " + type(t).__name__, self.f.qual)

    def store_through(self, base, d, node):
        """base[...] = d  /  base.attr = d : write base's buffer; base (and its root name) now references d"""
        b = self.ex(base)
        x = self.tmp(b, "$st")
        self.emit(("write", x))
        self.bind(x, extend(x, [d]))
        root = self.root_name(base)
        if root is not None and root != x:
            self.bind(root, extend(root, [d]))

    def is_scalar_name(self, name):
        a = self.assigned.get(name, [])
        return bool(a) and all(x[0] == "expr" and isinstance(x[1], ast.Constant) and isinstance(x[1].value, (int, float)) for x in a)

    # ---- statements
    def block(self, stmts):
        self.blocks.append([])
        for s in stmts:
            self.stmt(s)
        return seq(self.blocks.pop())

    def stmt(self, s):
        m = getattr(self, "st_" + type(s).__name__, None)
        if m is None:
            fail(s, "statement " + type(s).__name__, self.f.qual)
        self.cur_line = s.lineno
        m(s)

    def st_Pass(self, s):
        pass

    st_Break = st_Continue = st_Pass

    def st_FunctionDef(self, s):
        pass        # lifted; its name is resolved statically

    def st_Expr(self, s):
        self.ex(s.value)

    def st_Assert(self, s):
        self.ex(s.test)
        if s.msg is not None:
            self.ex(s.msg)

    def st_Raise(self, s):
        if s.exc is not None:
            self.ex(s.exc)

    def st_Return(self, s):
        if s.value is None:
            return
        if self.ret_len > 0:
            ds = [self.ex(x) for x in s.value.elts]
            tv = [self.tmp(d, "$rv") for d in ds]
            for i, v in enumerate(tv):
                self.bind(i + 1, join([alias(i + 1), alias(v)]))
            self.bind(0, join([alias(0), box([alias(v) for v in tv])]))
        else:
            d = self.ex(s.value)
            self.bind(0, join([alias(0), d]))

    def st_Assign(self, s):
        v = s.value
        if len(s.targets) == 1 and isinstance(s.targets[0], (ast.Tuple, ast.List)):
            t = s.targets[0]
            names_only = all(isinstance(a, ast.Name) for a in t.elts)
            # (a, b) = (x, y): simultaneous, elementwise
            if isinstance(v, (ast.Tuple, ast.List)) and len(v.elts) == len(t.elts) and not any(isinstance(a, ast.Starred) for a in v.elts + t.elts):
                tv = [self.tmp_copy(self.ex(x)) for x in v.elts]
                for a, x in zip(t.elts, tv):
                    self.assign_target(a, alias(x))
                return
            # a, b = koala_function(...) whose every return is a tuple display of that length
            if isinstance(v, ast.Call) and names_only and isinstance(v.func, (ast.Name, ast.Attribute)):
                d = self.dotted(v.func)
                if d and d[0] in ("func", "nested") and getattr(d[1], "ret_len", None) is None:
                    FT3(self.w, d[1])      # computes ret_len
                if d and d[0] in ("func", "nested") and d[1].ret_len == len(t.elts):
                    pos, kws, star, dstar = self.call_args(v)
                    rets = self.koala_call(d[1], pos, kws, star, dstar, v, nrets=1 + len(t.elts))
                    for a, r in zip(t.elts, rets[1:]):
                        self.assign_target(a, alias(r))
                    return
        d = self.ex(v)
        if len(s.targets) > 1:
            d = alias(self.tmp_copy(d))
        for t in s.targets:
            self.assign_target(t, d)

    def tmp_copy(self, d):
        t = self.newvar("$v")
        self.bind(t, d)
        return t

    def st_AnnAssign(self, s):
        if s.value is not None:
            self.assign_target(s.target, self.ex(s.value))

    def st_AugAssign(self, s):
        d = self.ex(s.value)
        t = s.target
        if isinstance(t, ast.Name):
            if self.is_scalar_name(t.id) and self.is_local(t.id):
                self.bind(self.var(t.id), FRESH)
            else:
                x = self.var(t.id) if self.is_local(t.id) else self.tmp(self.ex(t), "$g")
                self.emit(("write", x))
                self.bind(x, extend(x, [d]))
        elif isinstance(t, ast.Subscript):
            self.ex_index(t.slice)
            self.store_through(t.value, d, t)
        elif isinstance(t, ast.Attribute):
            self.store_through(t.value, d, t)
        else:
            fail(t, "augmented assignment target", self.f.qual)

    def st_If(self, s):
        guard = None
        # if not hasattr(C, "a"): C.a = ...   (write-once class attribute)
        tst = s.test
        if isinstance(tst, ast.UnaryOp) and isinstance(tst.op, ast.Not) and isinstance(tst.operand, ast.Call) \
                and isinstance(tst.operand.func, ast.Name) and tst.operand.func.id == "hasattr" and len(tst.operand.args) == 2 \
                and isinstance(tst.operand.args[0], ast.Name) and isinstance(tst.operand.args[1], ast.Constant):
            dd = self.dotted(tst.operand.args[0])
            if dd and dd[0] == "class" and not dd[3]:
                guard = (dd[2], tst.operand.args[1].value)
        self.ex(tst)
        if guard:
            self.in_once_guard.append(guard)
        a = self.block(s.body)
        if guard:
            self.in_once_guard.pop()
        b = self.block(s.orelse)
        self.emit(("if", a, b))

    def st_For(self, s):
        it = self.ex(s.iter)
        itv = self.tmp_copy(it)
        self.blocks.append([])
        self.bind_iter_target(s.target, s.iter, alias(itv))
        for x in s.body:
            self.stmt(x)
        self.emit(("loop", seq_keep(self.blocks.pop())))
        for x in s.orelse:
            self.stmt(x)

    def st_While(self, s):
        self.blocks.append([])
        self.ex(s.test)
        for x in s.body:
            self.stmt(x)
        self.emit(("loop", seq_keep(self.blocks.pop())))
        self.ex(s.test)
        for x in s.orelse:
            self.stmt(x)

    def st_With(self, s):
        for it in s.items:
            d = self.ex(it.context_expr)
            if it.optional_vars is not None:
                self.assign_target(it.optional_vars, d)
        for x in s.body:
            self.stmt(x)

    def st_Try(self, s):
        # any prefix of the body may have run (E_SeqStop), then a handler, then orelse/finally
        self.emit(("if", self.block(s.body), ("skip",)))
        for h in s.handlers:
            if h.type is not None:
                self.ex(h.type)
            if h.name:
                self.bind(self.var(h.name), FRESH)
            self.emit(("if", self.block(h.body), ("skip",)))
        self.emit(("if", self.block(s.orelse), ("skip",)))
        for x in s.finalbody:
            self.stmt(x)

    def translate(self):
        f = self.f
        if f.node.name == "__init__" and f.cls:
            pass
        self.blocks = [[]]
        for s in f.node.body:
            if isinstance(s, ast.Expr) and isinstance(s.value, ast.Constant):
                continue
            self.stmt(s)
        if f.node.name == "__init__" and f.cls:
            self.bind(0, join([alias(0), alias(self.var(f.params[0]))]))
        return seq_keep(self.blocks.pop())


# ----------------------------------------------------------------------------- emission
def coq_list(xs):
    return "[" + "; ".join(str(x) for x in xs) + "]"


def coq_rhs(d):
    return f"(Rhs {'true' if d.fr else 'false'} {coq_list(sorted(d.oo))} {coq_list(sorted(d.orr))} {coq_list(sorted(d.rr))})"


def coq_stmt(s, idx, ind=2):
    p = " " * ind
    k = s[0]
    if k == "skip":
        return p + "Skip"
    if k == "bind":
        return p + f"(Bind {s[1]} {coq_rhs(s[2])})"
    if k == "write":
        return p + f"(Write {s[1]})"
    if k == "call":
        return p + f"(Call {coq_list(s[1])} {idx[s[2]]} {coq_list(s[3])})"
    if k == "calldyn":
        return p + f"(CallDyn {coq_list(s[1])} {coq_list(idx['$dyn_targets'])} {coq_list(s[2])})"
    if k == "seq":
        xs = s[1]
        out = ""
        for x in xs[:-1]:
            out += p + "(Seq\n" + coq_stmt(x, idx, ind + 1) + "\n"
        out += coq_stmt(xs[-1], idx, ind + 1) + ")" * (len(xs) - 1)
        return out
    if k == "if":
        return p + "(If\n" + coq_stmt(s[1], idx, ind + 1) + "\n" + coq_stmt(s[2], idx, ind + 1) + ")"
    if k == "loop":
        return p + "(Loop\n" + coq_stmt(s[1], idx, ind + 1) + ")"
    raise ValueError(k)


def count_stmts(s):
    k = s[0]
    if k == "seq":
        return sum(count_stmts(x) for x in s[1])
    if k == "if":
        return 1 + count_stmts(s[1]) + count_stmts(s[2])
    if k == "loop":
        return 1 + count_stmts(s[1])
    return 1


def has_write(s):
    k = s[0]
    if k == "write":
        return True
    if k == "seq":
        return any(has_write(x) for x in s[1])
    if k == "if":
        return has_write(s[1]) or has_write(s[2])
    if k == "loop":
        return has_write(s[1])
    return False


def translate_all(repo=None):
    repo = repo or os.environ.get("KOALA_REPO", "/repo")
    w = World(repo)
    compute_captures(w)
    fts = {}
    for f in w.funcs:
        fts[f.qual] = FT3(w, f)        # also fixes ret_len of every function
    bodies = {}
    for f in w.funcs:
        bodies[f.qual] = fts[f.qual].translate()
    idx = {f.qual: i for i, f in enumerate(w.funcs)}
    # candidate callees of every run-time callable: all koala functions / closures used as first-class values
    idx["$dyn_targets"] = sorted(idx[q] for q in w.escaping)
    info = []
    for f in w.funcs:
        t = fts[f.qual]
        public = (f.parent is None and ((f.cls is None and not f.node.name.startswith("_")) or f.cls is not None))
        mask = [True] + [not (p in SINK_PARAMS or (f.cls and f.node.name == "__init__" and p == f.params[0]))
                         for p in f.all_params()]
        info.append({"index": idx[f.qual], "qual": f.qual, "module": f.module.name, "name": f.node.name, "cls": f.cls,
                     "params": ["$glob"] + f.all_params(), "mask": mask, "public": public,
                     "core": f.module.name in CORE, "nested": f.parent is not None,
                     "escaping": f.qual in w.escaping, "nstmts": count_stmts(bodies[f.qual]),
                     "has_write": has_write(bodies[f.qual]), "nvars": t.nvars, "lineno": f.node.lineno,
                     "varnames": t.varnames, "ret_len": t.ret_len})
    return w, bodies, idx, info


def render(w, bodies, idx, info):
    out = ["(* GENERATED by translate/effects_ir.py from the current koala source — do not edit. *)",
           "From Coq Require Import List String.", "Import ListNotations.", "From Koala Require Import Model.Effects.", ""]
    for f, fi in zip(w.funcs, info):
        out.append(f"(* {fi['index']}: {f.qual}({', '.join(fi['params'])})  [{f.module.path.split('/src/')[-1]}:{f.node.lineno}] *)")
        out.append(f"Definition fn{fi['index']} : fundef := Fun {len(fi['params'])}\n{coq_stmt(bodies[f.qual], idx)}.")
        out.append("")
    out.append("Definition prog : program :=\n  " + coq_list(f"fn{i}" for i in range(len(info))) + ".\n")
    out.append("(* qualified name of every IR function, by index (only used to STATE theorems about named functions) *)")
    out.append("Definition fnames : list string :=\n  [" + ";\n   ".join('"%s"%%string' % fi["qual"] for fi in info) + "].\n")
    def entries(sel):
        return "[" + ";\n   ".join(f"({fi['index']}, {coq_list('true' if b else 'false' for b in fi['mask'])})" for fi in info if sel(fi)) + "]"
    out.append("(* public functions of the modules the property quantifies over: every formal tainted except output sinks (ax) and the self under construction *)")
    out.append("Definition public_functions : list (fname * list bool) :=\n  " + entries(lambda fi: fi["public"] and fi["core"]) + ".\n")
    out.append("(* public functions of the remaining modules (generators, phase diagrams) *)")
    out.append("Definition public_extra : list (fname * list bool) :=\n  " + entries(lambda fi: fi["public"] and not fi["core"]) + ".\n")
    out.append("(* koala functions / closures used as first-class values (callbacks, returned closures): every formal and every captured variable tainted *)")
    out.append("Definition escaping_functions : list (fname * list bool) :=\n  " + entries(lambda fi: fi["escaping"] and not (fi["public"])) + ".\n")
    # the universal client: any number of calls, in any order, of any public function of the core modules
    # on shared objects (client variables 0..3; T may alias any of them; results flow back into variable 0)
    T, SINK, R = 4, 5, 6
    calls = []
    for fi in info:
        if fi["public"] and fi["core"]:
            calls.append(f"(Seq (Call [{R}] {fi['index']} {coq_list(T if b else SINK for b in fi['mask'])}) (Bind 0 (Join [0; {R}])))")
    chain = "Skip"
    for c in reversed(calls):
        chain = f"(If {c}\n    {chain})"
    out.append("(* universal client of the public API: Loop { T := any shared object; SINK := fresh; call any public function on T...; keep the result } *)")
    out.append("Definition client_nvars : nat := 4.")
    out.append(f"Definition koala_client : stmt :=\n  Loop (Seq Skip (Seq (Bind {T} (Union [0; 1; 2; 3])) (Seq (Bind {SINK} Fresh)\n    {chain}))).\n")
    return "\n".join(out)


def regenerate_all(gen_dir):
    w, bodies, idx, info = translate_all()
    text = render(w, bodies, idx, info)
    written = []
    os.makedirs(gen_dir, exist_ok=True)
    for name, content in (("EffectsIR.v", text),
                          ("effects_ir.json", json.dumps({"functions": info, "notes": w.notes, "excluded": EXCLUDED,
                                                          "escaping": sorted(w.escaping)}, indent=1))):
        p = os.path.join(gen_dir, name)
        try:
            same = open(p).read() == content
        except FileNotFoundError:
            same = False
        if not same:
            with open(p, "w") as fh:
                fh.write(content)
        written.append(p)
    return written


if __name__ == "__main__":
    w, bodies, idx, info = translate_all(sys.argv[1] if len(sys.argv) > 1 else None)
    print(len(info), "functions,", sum(fi["nstmts"] for fi in info), "IR statements")
    for n in w.notes:
        print("note:", n)
