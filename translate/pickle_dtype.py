"""Fail-closed Python-ast -> Gallina translator for the scalar decisions of
Lattice.__getstate__ / __setstate__ (koala/lattice.py), property C09:

  * the candidate list and the threshold test of the index-dtype selection loop
        for dtype in [np.uint8, ...]:  if self.n_vertices <= np.iinfo(dtype).max: ...; break
        else: raise ValueError
  * the range test asserted by the nested check_fits(array, dtype)
  * the dtype arguments of the three casts of __getstate__ (positions, indices, crossing),
    the order of the returned tuple, and the widening casts of __setstate__.

It writes coq/Gen/PickleGen.v (git-ignored, written only when the content changed) from
$KOALA_REPO's current source.  Proofs/PickleFacts.v proves the generated definitions equal to
the hand-written ones of Model/Pickle.v (by reflexivity / case analysis), so an edit of the
Python source changes the Gallina term the kernel checks.

Accepted language for the translated tests (anything else RAISES TranslateError):
  <expr> ::= self.n_vertices | np.iinfo(<dtype var>).max | np.iinfo(<dtype var>).min
           | np.min(<array var>) | np.max(<array var>) | int literal
           | e <cmp> e [<cmp> e]   (== != < <= > >=; chains are conjunctions)
           | <array var>.size == 0
           | b and b | b or b | not b | -e | e + e | e - e | e * e
All quantities are Python ints / numpy integer scalars compared by value."""
import ast, os


class TranslateError(Exception):
    pass


def source_path():
    return os.path.join(os.environ.get("KOALA_REPO", "/repo"), "src", "koala", "lattice.py")


def _fail(node, why):
    raise TranslateError(f"translator: unsupported construct at {source_path()}:{getattr(node, 'lineno', '?')}: {why}")


INT_DTYPES = {"uint8": "U8", "uint16": "U16", "uint32": "U32", "uint64": "U64", "int8": "I8", "int64": "I64"}
FLOAT_DTYPES = {"float32": "F32", "float64": "F64"}


def _np_attr(node):
    """np.<name> -> name, else None"""
    if isinstance(node, ast.Attribute) and isinstance(node.value, ast.Name) and node.value.id in ("np", "numpy"):
        return node.attr
    return None


def _int_dtype(node):
    n = _np_attr(node)
    if n in INT_DTYPES:
        return INT_DTYPES[n]
    if isinstance(node, ast.Name) and node.id == "int":          # astype(int): C long = int64 here
        return "I64"
    if isinstance(node, ast.Constant) and node.value in ("int", "int64"):
        return "I64"
    _fail(node, "integer dtype expected")


def _float_dtype(node):
    n = _np_attr(node)
    if n in FLOAT_DTYPES:
        return FLOAT_DTYPES[n]
    _fail(node, "float dtype expected")


def _is_self_attr(node, *path):
    """self.a.b... """
    for name in reversed(path):
        if not (isinstance(node, ast.Attribute) and node.attr == name):
            return False
        node = node.value
    return isinstance(node, ast.Name) and node.id == "self"


CMP = {ast.Eq: "=?", ast.LtE: "<=?", ast.Lt: "<?"}


class Expr:
    """translate a scalar test; env: dtype_var, array_var (may be None)"""

    def __init__(self, dtype_var, array_var=None):
        self.dtype_var, self.array_var = dtype_var, array_var
        self.used = set()

    def z(self, n):
        if isinstance(n, ast.Constant) and isinstance(n.value, int) and not isinstance(n.value, bool):
            return f"({n.value})" if n.value < 0 else str(n.value)
        if _is_self_attr(n, "n_vertices"):
            self.used.add("n_vertices")
            return "n_vertices"
        if isinstance(n, ast.Attribute) and n.attr in ("max", "min") and isinstance(n.value, ast.Call):
            c = n.value
            if _np_attr(c.func) == "iinfo" and len(c.args) == 1 and not c.keywords and isinstance(c.args[0], ast.Name) \
                    and c.args[0].id == self.dtype_var:
                return f"(dt_{n.attr} dtype)"
            _fail(n, "np.iinfo(<loop/parameter dtype>).max|min expected")
        if isinstance(n, ast.Call) and _np_attr(n.func) in ("min", "max") and len(n.args) == 1 and not n.keywords \
                and isinstance(n.args[0], ast.Name) and n.args[0].id == self.array_var:
            self.used.add("a" + _np_attr(n.func))
            return "a" + _np_attr(n.func)
        if isinstance(n, ast.UnaryOp) and isinstance(n.op, ast.USub):
            return f"(- {self.z(n.operand)})"
        if isinstance(n, ast.BinOp) and type(n.op) in (ast.Add, ast.Sub, ast.Mult):
            op = {ast.Add: "+", ast.Sub: "-", ast.Mult: "*"}[type(n.op)]
            return f"({self.z(n.left)} {op} {self.z(n.right)})"
        _fail(n, "integer expression not in the accepted language")

    def cmp1(self, op, l, r, node):
        if isinstance(op, ast.Eq):
            return f"({l} =? {r})"
        if isinstance(op, ast.NotEq):
            return f"(negb ({l} =? {r}))"
        if isinstance(op, ast.LtE):
            return f"({l} <=? {r})"
        if isinstance(op, ast.Lt):
            return f"({l} <? {r})"
        if isinstance(op, ast.GtE):
            return f"({r} <=? {l})"
        if isinstance(op, ast.Gt):
            return f"({r} <? {l})"
        _fail(node, "comparison operator")

    def b(self, n):
        if isinstance(n, ast.BoolOp):
            op = " && " if isinstance(n.op, ast.And) else " || "
            return "(" + op.join(self.b(v) for v in n.values) + ")"
        if isinstance(n, ast.UnaryOp) and isinstance(n.op, ast.Not):
            return f"(negb {self.b(n.operand)})"
        if isinstance(n, ast.Compare):
            # <array>.size == 0
            if (len(n.ops) == 1 and isinstance(n.ops[0], ast.Eq) and isinstance(n.left, ast.Attribute) and n.left.attr == "size"
                    and isinstance(n.left.value, ast.Name) and n.left.value.id == self.array_var
                    and isinstance(n.comparators[0], ast.Constant) and n.comparators[0].value == 0):
                self.used.add("is_empty")
                return "is_empty"
            terms = [n.left] + list(n.comparators)
            zs = [self.z(t) for t in terms]
            parts = [self.cmp1(op, zs[i], zs[i + 1], n) for i, op in enumerate(n.ops)]
            return parts[0] if len(parts) == 1 else "(" + " && ".join(parts) + ")"
        _fail(n, "boolean expression not in the accepted language")


def _method(cls, name):
    for n in cls.body:
        if isinstance(n, ast.FunctionDef) and n.name == name:
            return n
    raise TranslateError(f"translator: Lattice.{name} not found in {source_path()}")


def _astype_call(node):
    """X.astype(D) -> (X, D) else None"""
    if isinstance(node, ast.Call) and isinstance(node.func, ast.Attribute) and node.func.attr == "astype" \
            and len(node.args) == 1 and not node.keywords:
        return node.func.value, node.args[0]
    return None


def generate():
    path = source_path()
    tree = ast.parse(open(path).read(), path)
    cls = [n for n in tree.body if isinstance(n, ast.ClassDef) and n.name == "Lattice"]
    if len(cls) != 1:
        raise TranslateError(f"translator: class Lattice not found in {path}")
    gs = _method(cls[0], "__getstate__")
    ss = _method(cls[0], "__setstate__")
    out = {}
    # ---------------- __getstate__
    var_of = {}          # local name -> ("pos"| "idx" | "cross", dtype)
    ret = None
    check_fits_def, check_calls = None, []
    for st in gs.body:
        if isinstance(st, ast.Expr) and isinstance(st.value, ast.Constant) and isinstance(st.value.value, str):
            continue
        if isinstance(st, ast.For):
            if not (isinstance(st.target, ast.Name) and isinstance(st.iter, (ast.List, ast.Tuple))):
                _fail(st, "dtype loop: `for <name> in [np.uint8, ...]` expected")
            dv = st.target.id
            out["candidates"] = [_int_dtype(e) for e in st.iter.elts]
            if len(st.body) != 1 or not isinstance(st.body[0], ast.If) or st.body[0].orelse:
                _fail(st, "dtype loop body: a single `if` without else expected")
            iff = st.body[0]
            ex = Expr(dv)
            out["fits"] = ex.b(iff.test)
            if len(iff.body) != 2 or not isinstance(iff.body[1], ast.Break) or not isinstance(iff.body[0], ast.Assign):
                _fail(iff, "dtype loop: `<edges> = self.edges.indices.astype(dtype); break` expected")
            asg = iff.body[0]
            ac = _astype_call(asg.value)
            if not (ac and _is_self_attr(ac[0], "edges", "indices") and isinstance(ac[1], ast.Name) and ac[1].id == dv
                    and len(asg.targets) == 1 and isinstance(asg.targets[0], ast.Name)):
                _fail(asg, "dtype loop: `<edges> = self.edges.indices.astype(<loop dtype>)` expected")
            var_of[asg.targets[0].id] = ("idx", "LOOP")
            if not (len(st.orelse) == 1 and isinstance(st.orelse[0], ast.Raise)):
                _fail(st, "dtype loop: `else: raise ...` expected")
            continue
        if isinstance(st, ast.FunctionDef) and st.name == "check_fits":
            a = st.args
            if len(a.args) != 2 or a.vararg or a.kwarg or a.kwonlyargs or a.defaults:
                _fail(st, "check_fits(array, dtype) expected")
            body = [b for b in st.body if not (isinstance(b, ast.Expr) and isinstance(b.value, ast.Constant))]
            if len(body) != 1 or not isinstance(body[0], ast.Assert):
                _fail(st, "check_fits: a single assert expected")
            ex = Expr(a.args[1].arg, a.args[0].arg)
            out["check_fits"] = ex.b(body[0].test)
            check_fits_def = st
            continue
        if isinstance(st, ast.Expr) and isinstance(st.value, ast.Call) and isinstance(st.value.func, ast.Name) \
                and st.value.func.id == "check_fits":
            c = st.value
            if len(c.args) != 2 or c.keywords:
                _fail(st, "check_fits(<array>, <dtype>) expected")
            if not _is_self_attr(c.args[0], "edges", "crossing"):
                _fail(st, "check_fits is expected to be applied to self.edges.crossing only")
            check_calls.append(_int_dtype(c.args[1]))
            continue
        if isinstance(st, ast.Assign) and len(st.targets) == 1 and isinstance(st.targets[0], ast.Name):
            ac = _astype_call(st.value)
            if ac and _is_self_attr(ac[0], "vertices", "positions"):
                var_of[st.targets[0].id] = ("pos", _float_dtype(ac[1]))
                continue
            if ac and _is_self_attr(ac[0], "edges", "crossing"):
                var_of[st.targets[0].id] = ("cross", _int_dtype(ac[1]))
                continue
            _fail(st, "unexpected assignment in __getstate__")
        if isinstance(st, ast.Return):
            if not (isinstance(st.value, ast.Tuple) and all(isinstance(e, ast.Name) for e in st.value.elts)):
                _fail(st, "`return vertices, edges, crossing` expected")
            ret = [e.id for e in st.value.elts]
            continue
        _fail(st, "unexpected statement in __getstate__")
    for k in ("candidates", "fits", "check_fits"):
        if k not in out:
            raise TranslateError(f"translator: __getstate__: {k} not found in {path}")
    if ret is None or [var_of.get(r, (None,))[0] for r in ret] != ["pos", "idx", "cross"]:
        raise TranslateError(f"translator: __getstate__ must return (positions cast, indices cast, crossing cast); found {ret} in {path}")
    pos_dt = var_of[ret[0]][1]
    cross_dt = var_of[ret[2]][1]
    if check_calls != [cross_dt]:
        raise TranslateError(f"translator: check_fits must be called once on self.edges.crossing with the dtype it is cast to ({cross_dt}); found {check_calls} in {path}")
    # ---------------- __setstate__
    body = [b for b in ss.body if not (isinstance(b, ast.Expr) and isinstance(b.value, ast.Constant))]
    if len(body) != 1 or not isinstance(body[0], ast.If):
        _fail(ss, "__setstate__: a single if/else expected")
    iff = body[0]
    t = iff.test
    st_arg = ss.args.args[1].arg
    if not (isinstance(t, ast.Call) and isinstance(t.func, ast.Name) and t.func.id == "isinstance" and len(t.args) == 2
            and isinstance(t.args[0], ast.Name) and t.args[0].id == st_arg and isinstance(t.args[1], ast.Name) and t.args[1].id == "dict"):
        _fail(iff, "__setstate__: `if isinstance(state, dict)` expected")
    d = iff.body
    if not (len(d) == 1 and isinstance(d[0], ast.Expr) and isinstance(d[0].value, ast.Call)
            and isinstance(d[0].value.func, ast.Attribute) and d[0].value.func.attr == "update"
            and _is_self_attr(d[0].value.func.value, "__dict__") and len(d[0].value.args) == 1
            and isinstance(d[0].value.args[0], ast.Name) and d[0].value.args[0].id == st_arg):
        _fail(iff, "__setstate__: dict branch `self.__dict__.update(state)` expected")
    e = iff.orelse
    if not (len(e) == 2 and isinstance(e[0], ast.Assign) and isinstance(e[0].targets[0], ast.Tuple)
            and isinstance(e[0].value, ast.Name) and e[0].value.id == st_arg
            and all(isinstance(x, ast.Name) for x in e[0].targets[0].elts) and len(e[0].targets[0].elts) == 3):
        _fail(iff, "__setstate__: tuple branch `a, b, c = state; self.__init__(...)` expected")
    names = [x.id for x in e[0].targets[0].elts]
    call = e[1].value if isinstance(e[1], ast.Expr) else None
    if not (isinstance(call, ast.Call) and isinstance(call.func, ast.Attribute) and call.func.attr == "__init__"
            and isinstance(call.func.value, ast.Name) and call.func.value.id == "self" and len(call.args) == 3 and not call.keywords):
        _fail(e[1], "__setstate__: `self.__init__(vertices, edges..., crossing...)` expected")
    if not (isinstance(call.args[0], ast.Name) and call.args[0].id == names[0]):
        _fail(call, "__setstate__: first constructor argument must be the unpickled positions unchanged")
    widen = []
    for k in (1, 2):
        ac = _astype_call(call.args[k])
        if not (ac and isinstance(ac[0], ast.Name) and ac[0].id == names[k]):
            _fail(call, "__setstate__: `<array>.astype(<int dtype>)` expected for indices and crossing")
        widen.append(_int_dtype(ac[1]))
    # ---------------- emit
    lines = [
        f"(* GENERATED by translate/pickle_dtype.py from {path}",
        "   DO NOT EDIT - regenerated on every ./check C09. *)",
        "From Coq Require Import List ZArith Bool.",
        "From Koala Require Import Model.Pickle.",
        "Import ListNotations.",
        "Open Scope Z_scope.",
        "",
        f"(* lattice.py:{gs.lineno}  __getstate__ : dtype selection loop *)",
        "Definition gen_index_dtype_candidates : list idtype := [" + "; ".join(out["candidates"]) + "].",
        f"Definition gen_fits (n_vertices : Z) (dtype : idtype) : bool := {out['fits']}.",
        "",
        f"(* lattice.py:{check_fits_def.lineno}  check_fits(array, dtype): the asserted test; is_empty = (array.size == 0),",
        "   amin = np.min(array), amax = np.max(array) (only evaluated when the array is not empty) *)",
        f"Definition gen_check_fits (is_empty : bool) (amin amax : Z) (dtype : idtype) : bool := {out['check_fits']}.",
        "",
        f"Definition gen_position_dtype : fdtype := {pos_dt}.",
        f"Definition gen_crossing_dtype : idtype := {cross_dt}.",
        "",
        f"(* lattice.py:{ss.lineno}  __setstate__ : widening casts of the tuple branch *)",
        f"Definition gen_restored_index_dtype : idtype := {widen[0]}.",
        f"Definition gen_restored_crossing_dtype : idtype := {widen[1]}.",
        "",
    ]
    return "\n".join(lines)


def regenerate_all(gen_dir):
    text = generate()
    path = os.path.join(gen_dir, "PickleGen.v")
    os.makedirs(gen_dir, exist_ok=True)
    try:
        same = open(path).read() == text
    except FileNotFoundError:
        same = False
    if not same:
        with open(path, "w") as f:
            f.write(text)
    return [path]


if __name__ == "__main__":
    print(generate())
