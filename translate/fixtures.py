"""Fail-closed Python-ast -> Gallina translator for the FIXED fixture graphs of koala/example_graphs.py (C10):

    two_triangles, tri_square_pent, tutte_graph, multi_graph, bridge_graph, concave_plaquette,
    star_lattice_sheared (lattice + colouring + ground-state ujk)

Each of these functions only builds literal numpy arrays and passes them to Lattice(...).  The translator reads
the literals from $KOALA_REPO's current source and writes coq/Gen/FixturesGen.v: one `fixture` record per function
(positions as EXACT dyadic rationals = the float64 values of the decimal literals, over one common power of two
per graph; edges; crossings; optional colouring / ujk).  harness/c10.py compares the implementation's lattice with
these records exactly (K) and the plaquette census of both (S).

Accepted language per function (anything else RAISES TranslateError — fail closed):
    "docstring"
    name = np.array(<literal nested list of numbers>)
    name = np.zeros_like(other)                         (other already bound to an array literal)
    name = np.array([[0, 0]] * other.shape[0])
    name = Lattice(a, b, c) | Lattice(vertices=a, edge_indices=b, edge_crossing=c)     a, b, c names or np.array(...)
    return name | return Lattice(...) | return name, name, name      (lattice, colouring, ujk)
    name -= <int literal>                               on an integer array (exact, elementwise)
    name <op>= <expr>  /  other = <expr>                float arithmetic on a POSITION array (tutte_graph recentres its
                                                        vertices): not reproduced; the array becomes OPAQUE and the
                                                        fixture's positions are then taken from the implementation
                                                        (fx_pos_from_impl = true; K covers edges and crossings only).
                                                        An opaque value may never reach edges, crossings, colouring, ujk.
make_amorphous / _plaquettes_connected (random, Voronoi based) are not fixtures and are not translated."""
import ast, os
from fractions import Fraction

FIXTURES = ["two_triangles", "tri_square_pent", "tutte_graph", "multi_graph", "bridge_graph",
            "concave_plaquette", "star_lattice_sheared"]


class TranslateError(Exception):
    pass


OPAQUE = "opaque"


def _names(node):
    return {n.id for n in ast.walk(node) if isinstance(n, ast.Name)}


def _is_float_array(v):
    return v == OPAQUE or (isinstance(v, list) and any(isinstance(x, float) for r in v for x in (r if isinstance(r, list) else [r])))


def source_path():
    return os.path.join(os.environ.get("KOALA_REPO", "/repo"), "src", "koala", "example_graphs.py")


def _fail(node, why):
    raise TranslateError(f"fixtures translator: unsupported construct at {source_path()}:{getattr(node, 'lineno', '?')}: {why}")


def _is_np(call, attr):
    return (isinstance(call, ast.Call) and isinstance(call.func, ast.Attribute) and call.func.attr == attr
            and isinstance(call.func.value, ast.Name) and call.func.value.id == "np")


def _literal(node):
    try:
        v = ast.literal_eval(node)
    except Exception:
        _fail(node, "not a literal")
    return v


def _array(node, env):
    """value of an array expression: list of rows (lists of numbers)"""
    if isinstance(node, ast.Name):
        if node.id not in env or not isinstance(env[node.id], list):
            _fail(node, f"name {node.id} is not bound to an array literal")
        return env[node.id]
    if _is_np(node, "array"):
        if len(node.args) != 1 or node.keywords:
            _fail(node, "np.array with extra arguments")
        a = node.args[0]
        # [[0, 0]] * other.shape[0]
        if isinstance(a, ast.BinOp) and isinstance(a.op, ast.Mult):
            row = _literal(a.left)
            r = a.right
            if not (isinstance(r, ast.Subscript) and isinstance(r.value, ast.Attribute) and r.value.attr == "shape"
                    and isinstance(r.value.value, ast.Name) and _literal(r.slice) == 0):
                _fail(a, "only [[..]] * name.shape[0] is supported")
            other = _array(r.value.value, env)
            if not (isinstance(row, list) and len(row) == 1):
                _fail(a, "left operand must be a one-row list")
            return [list(row[0]) for _ in other]
        v = _literal(a)
        if not (isinstance(v, list) and all(isinstance(r, list) and all(isinstance(x, (int, float)) and not isinstance(x, bool) for x in r) for r in v)) \
           and not (isinstance(v, list) and all(isinstance(x, (int, float)) and not isinstance(x, bool) for x in v)):
            _fail(a, "array literal must be a list of numbers or a list of rows of numbers")
        return v
    if _is_np(node, "zeros_like"):
        if len(node.args) != 1 or node.keywords:
            _fail(node, "np.zeros_like with extra arguments")
        other = _array(node.args[0], env)
        return [[0 for _ in r] for r in other]
    _fail(node, "unsupported array expression")


def _lattice(call, env):
    if not (isinstance(call, ast.Call) and isinstance(call.func, ast.Name) and call.func.id == "Lattice"):
        _fail(call, "expected Lattice(...)")
    names = ["vertices", "edge_indices", "edge_crossing"]
    got = {}
    if len(call.args) > 3:
        _fail(call, "too many positional arguments")
    for n, a in zip(names, call.args):
        got[n] = a
    for kw in call.keywords:
        if kw.arg not in names or kw.arg in got:
            _fail(call, f"unexpected keyword {kw.arg}")
        got[kw.arg] = kw.value
    if set(got) != set(names):
        _fail(call, "Lattice needs vertices, edge_indices, edge_crossing")
    out = {}
    for n in names:
        if n == "vertices" and isinstance(got[n], ast.Name) and env.get(got[n].id) == OPAQUE:
            out[n] = OPAQUE
        else:
            out[n] = _array(got[n], env)
    return out


def parse_fixture(fn):
    env = {}
    result = None
    for st in fn.body:
        if isinstance(st, ast.Expr) and isinstance(st.value, ast.Constant) and isinstance(st.value.value, str):
            continue
        if result is not None:
            _fail(st, "statement after return")
        if isinstance(st, ast.Assign):
            if len(st.targets) != 1 or not isinstance(st.targets[0], ast.Name):
                _fail(st, "only single-name assignment")
            name = st.targets[0].id
            if name in env:
                _fail(st, f"{name} assigned twice")
            if isinstance(st.value, ast.Call) and isinstance(st.value.func, ast.Name) and st.value.func.id == "Lattice":
                env[name] = _lattice(st.value, env)
            else:
                try:
                    env[name] = _array(st.value, env)
                except TranslateError:
                    used = _names(st.value) - {"np"}
                    if used and used <= set(env) and all(_is_float_array(env[u]) for u in used):
                        env[name] = OPAQUE          # float arithmetic on positions: not reproduced
                    else:
                        raise
            continue
        if isinstance(st, ast.AugAssign):
            if not isinstance(st.target, ast.Name) or st.target.id not in env:
                _fail(st, "augmented assignment to an unknown name")
            name = st.target.id
            cur = env[name]
            if isinstance(cur, list) and all(isinstance(r, list) and all(isinstance(x, int) for x in r) for r in cur) \
               and isinstance(st.op, (ast.Sub, ast.Add)) and isinstance(st.value, ast.Constant) and isinstance(st.value.value, int) \
               and not isinstance(st.value.value, bool):
                k = st.value.value if isinstance(st.op, ast.Add) else -st.value.value
                env[name] = [[x + k for x in r] for r in cur]
                continue
            used = _names(st.value) - {"np"}
            if _is_float_array(cur) and used <= set(env) and all(_is_float_array(env[u]) for u in used):
                env[name] = OPAQUE
                continue
            _fail(st, "unsupported augmented assignment")
        if isinstance(st, ast.Return):
            v = st.value
            items = v.elts if isinstance(v, ast.Tuple) else [v]
            if len(items) not in (1, 3):
                _fail(st, "return lattice | lattice, colouring, ujk")
            vals = []
            for k, it in enumerate(items):
                if k == 0:
                    if isinstance(it, ast.Name):
                        if not isinstance(env.get(it.id), dict):
                            _fail(it, f"{it.id} is not a Lattice")
                        vals.append(env[it.id])
                    else:
                        vals.append(_lattice(it, env))
                else:
                    arr = _array(it, env)
                    if not all(isinstance(x, int) for x in arr):
                        _fail(it, "colouring / ujk must be a flat int list")
                    vals.append(arr)
            result = vals
            continue
        _fail(st, f"statement {type(st).__name__}")
    if result is None:
        _fail(fn, "no return")
    lat = result[0]
    col = result[1] if len(result) == 3 else []
    ujk = result[2] if len(result) == 3 else []
    P, E, C = lat["vertices"], lat["edge_indices"], lat["edge_crossing"]
    opaque = P == OPAQUE
    if opaque:
        P = []
    if not all(isinstance(r, list) and len(r) == 2 for r in P + E + C):
        _fail(fn, "vertices, edges and crossings must have two columns")
    if not all(isinstance(x, int) for r in E + C for x in r):
        _fail(fn, "edges and crossings must be integers")
    fr = [[Fraction(float(x)) for x in r] for r in P]
    S = 2
    for r in fr:
        for x in r:
            S = max(S, x.denominator)
    for r in fr:
        for x in r:
            if S % x.denominator:
                _fail(fn, "position is not a dyadic rational")
    return {"scale": S, "pos": [[int(x * S) for x in r] for r in fr], "edges": E, "crossing": C, "col": col, "ujk": ujk,
            "pos_from_impl": opaque}


def parse_all():
    path = source_path()
    with open(path) as f:
        tree = ast.parse(f.read(), filename=path)
    out = {}
    for name in FIXTURES:
        ds = [n for n in tree.body if isinstance(n, ast.FunctionDef) and n.name == name]
        if len(ds) != 1:
            raise TranslateError(f"fixtures translator: expected exactly one def {name} in {path}, found {len(ds)}")
        if ds[0].args.args or ds[0].args.vararg or ds[0].args.kwarg or ds[0].args.kwonlyargs:
            _fail(ds[0], "fixture functions take no arguments")
        out[name] = parse_fixture(ds[0])
    return out


def _z(n):
    return str(n) if n >= 0 else f"({n})"


def _pairs(rows):
    return "[" + "; ".join(f"({_z(a)}, {_z(b)})" for a, b in rows) + "]"


def _zs(xs):
    return "[" + "; ".join(_z(x) for x in xs) + "]"


def generate():
    fx = parse_all()
    rel = os.path.join("src", "koala", "example_graphs.py")
    lines = [f"(* GENERATED by translate/fixtures.py from $KOALA_REPO/{rel}",
             "   DO NOT EDIT - regenerated on every ./check C10. *)",
             "From Coq Require Import List ZArith.",
             "From Koala Require Import Model.Lattice Model.Tiling.",
             "Import ListNotations.",
             "Open Scope Z_scope.",
             "",
             "Record fixture := mkFx { fx_lat : zlattice; fx_col : list Z; fx_ujk : list Z; fx_pos_from_impl : bool }.",
             ""]
    for name in FIXTURES:
        d = fx[name]
        lines.append(f"(* example_graphs.py  def {name} *)")
        lines.append(f"Definition fixture_{name} : fixture :=")
        lines.append(f"  mkFx (mkZL {d['scale']}")
        lines.append(f"          {_pairs(d['pos'])}")
        lines.append(f"          {_pairs(d['edges'])}")
        lines.append(f"          {_pairs(d['crossing'])})")
        lines.append(f"       {_zs(d['col'])} {_zs(d['ujk'])} {'true' if d['pos_from_impl'] else 'false'}.")
        lines.append("")
    lines.append("Definition fixture_by_id (i : Z) : option fixture :=")
    lines.append("  match i with")
    for k, name in enumerate(FIXTURES):
        lines.append(f"  | {k} => Some fixture_{name}")
    lines.append("  | _ => None")
    lines.append("  end.")
    lines.append(f"Definition n_fixtures : Z := {len(FIXTURES)}.")
    return "\n".join(lines) + "\n"


LASTGOOD = os.path.join(os.path.dirname(os.path.abspath(__file__)), "FixturesGen.lastgood.v")


def regenerate_all(gen_dir):
    path = os.path.join(gen_dir, "FixturesGen.v")
    os.makedirs(gen_dir, exist_ok=True)
    try:
        text = generate()
    except Exception:
        # fail closed (the runner records the broken tie), but leave a model to run K against (see tiling_helpers.py)
        if not os.path.exists(path) and os.path.exists(LASTGOOD):
            with open(LASTGOOD) as f, open(path, "w") as g:
                g.write(f.read())
        raise
    try:
        same = open(path).read() == text
    except FileNotFoundError:
        same = False
    if not same:
        with open(path, "w") as f:
            f.write(text)
    return [path]


if __name__ == "__main__":
    print(generate())
