"""translate/rng_use.py — fail-closed ast analysis of koala/pointsets.py for C19:
"nothing depends on or disturbs the global random state when a generator is supplied".

Writes coq/Gen/RngUse.v: for every top-level function of pointsets.py the list of every call whose
receiver is the GLOBAL numpy random module (np.random.<meth>(...)) or the function's `rng`
parameter (rng.<meth>(...)), nested helper functions included, with a flag saying whether the call
sits lexically inside `if rng is None:`.  Proofs/RngUseFacts.v proves by vm_compute that the
regenerated list satisfies Model/RngIR.uses_only_supplied_rng, so an edit that re-introduces
np.random.<anything> outside the `rng is None` default makes that proof fail.

The analysis RAISES (RngUseError) on every construct through which the global generator could be
reached without being listed: imports other than `import numpy as np`, `np.random` used other than as
the receiver of a direct call (aliasing), `rng` rebound / passed on / used other than as a call
receiver or in `rng is None`, names that are neither parameters, local variables, nested helpers,
`np` nor whitelisted builtins (so getattr/eval/exec/__import__/globals are rejected), calls of
other top-level functions, classes, decorators, global/nonlocal, lambda, star-args, and any ast node
type not in the whitelist below."""
import ast, os

SRC_REL = "src/koala/pointsets.py"
ALLOWED_BUILTINS = {"range", "tuple", "len", "list", "int", "float", "bool", "min", "max", "abs", "sum", "zip",
                    "enumerate", "print", "None", "True", "False"}
EXCEPTION_NAMES = {"ValueError", "TypeError", "RuntimeError", "IndexError", "KeyError", "NotImplementedError", "Exception"}
ALLOWED_NODES = (
    ast.Module, ast.FunctionDef, ast.arguments, ast.arg, ast.Import, ast.alias,
    ast.Assign, ast.AugAssign, ast.Return, ast.If, ast.While, ast.For, ast.Break, ast.Continue, ast.Expr, ast.Pass, ast.Raise,
    ast.Call, ast.keyword, ast.Attribute, ast.Name, ast.Constant, ast.BinOp, ast.UnaryOp, ast.BoolOp, ast.Compare,
    ast.Subscript, ast.Slice, ast.Tuple, ast.List, ast.Dict, ast.ListComp, ast.DictComp, ast.comprehension,
    ast.Load, ast.Store,
    ast.Add, ast.Sub, ast.Mult, ast.Div, ast.FloorDiv, ast.Mod, ast.Pow, ast.USub, ast.UAdd, ast.Not,
    ast.And, ast.Or, ast.BitAnd, ast.BitOr, ast.Invert,
    ast.Eq, ast.NotEq, ast.Lt, ast.LtE, ast.Gt, ast.GtE, ast.Is, ast.IsNot, ast.In, ast.NotIn,
)


class RngUseError(Exception):
    pass


def fail(node, msg):
    raise RngUseError(f"rng_use: {SRC_REL}:{getattr(node, 'lineno', '?')}: {msg}")


def is_np_random(node):
    return (isinstance(node, ast.Attribute) and node.attr == "random"
            and isinstance(node.value, ast.Name) and node.value.id == "np")


def is_rng_is_none(test):
    return (isinstance(test, ast.Compare) and isinstance(test.left, ast.Name) and test.left.id == "rng"
            and len(test.ops) == 1 and isinstance(test.ops[0], ast.Is)
            and isinstance(test.comparators[0], ast.Constant) and test.comparators[0].value is None)


def bound_names(fn):
    """names bound inside a function (parameters, assignment/loop/comprehension targets, nested defs)"""
    out = set()
    for n in ast.walk(fn):
        if isinstance(n, ast.arg):
            out.add(n.arg)
        elif isinstance(n, ast.Name) and isinstance(n.ctx, ast.Store):
            out.add(n.id)
        elif isinstance(n, ast.FunctionDef) and n is not fn:
            out.add(n.name)
    return out


class FnAnalysis:
    def __init__(self, fn, toplevel_names):
        self.fn, self.top = fn, toplevel_names
        self.calls = []
        self.has_rng = any(a.arg == "rng" for a in fn.args.args + fn.args.kwonlyargs)
        if fn.decorator_list:
            fail(fn, "decorator")
        if fn.args.vararg or fn.args.kwarg:
            fail(fn, "*args/**kwargs parameter")
        self.names = bound_names(fn)
        for n in ast.walk(fn):
            if isinstance(n, ast.FunctionDef) and n is not fn:
                if n.decorator_list or n.args.vararg or n.args.kwarg:
                    fail(n, "decorator or star parameter on nested function")
                if any(a.arg in ("rng", "np") for a in n.args.args + n.args.kwonlyargs):
                    fail(n, "nested function shadows rng/np")
        if "np" in self.names:
            fail(fn, "np rebound inside function")
        self.visit_block(fn.body, guarded=False, top=True)

    # -- statements
    def visit_block(self, body, guarded, top=False):
        for st in body:
            self.visit_stmt(st, guarded, top)

    def visit_stmt(self, st, guarded, top):
        if not isinstance(st, ALLOWED_NODES):
            fail(st, f"unsupported statement {type(st).__name__}")
        if isinstance(st, ast.FunctionDef):
            for d in st.args.defaults + st.args.kw_defaults:
                if d is not None:
                    self.visit_expr(d, guarded)
            self.visit_block(st.body, guarded)
        elif isinstance(st, ast.If):
            if is_rng_is_none(st.test):
                if not top or guarded:
                    fail(st, "`if rng is None` not at the top level of the function")
                self.visit_block(st.body, True)
                self.visit_block(st.orelse, guarded)
            else:
                self.visit_expr(st.test, guarded)
                self.visit_block(st.body, guarded)
                self.visit_block(st.orelse, guarded)
        elif isinstance(st, ast.Assign):
            for t in st.targets:
                self.visit_target(t, st, guarded)
            self.visit_expr(st.value, guarded)
        elif isinstance(st, ast.AugAssign):
            self.visit_target(st.target, st, guarded)
            self.visit_expr(st.value, guarded)
        elif isinstance(st, (ast.While,)):
            self.visit_expr(st.test, guarded)
            self.visit_block(st.body, guarded)
            self.visit_block(st.orelse, guarded)
        elif isinstance(st, ast.For):
            self.visit_target(st.target, st, guarded)
            self.visit_expr(st.iter, guarded)
            self.visit_block(st.body, guarded)
            self.visit_block(st.orelse, guarded)
        elif isinstance(st, ast.Return):
            if st.value is not None:
                self.visit_expr(st.value, guarded)
        elif isinstance(st, ast.Expr):
            if isinstance(st.value, ast.Constant) and isinstance(st.value.value, str):
                return  # a docstring / bare string statement: no effect, draws nothing
            self.visit_expr(st.value, guarded)
        elif isinstance(st, (ast.Break, ast.Continue, ast.Pass)):
            pass
        elif isinstance(st, ast.Raise):
            # `raise SomeError("message" / f"... {expr} ...")`: ends the call; the message may be a string, the values
            # formatted into it are ordinary expressions (so `rng` / np.random cannot be smuggled through it)
            ex = st.exc
            if st.cause is not None or not (isinstance(ex, ast.Call) and isinstance(ex.func, ast.Name) and ex.func.id in EXCEPTION_NAMES and not ex.keywords):
                fail(st, "raise of anything but a plain built-in exception constructed in place")
            for a in ex.args:
                if isinstance(a, ast.Constant) and isinstance(a.value, str):
                    continue
                if isinstance(a, ast.JoinedStr):
                    for v in a.values:
                        if isinstance(v, ast.FormattedValue):
                            if v.format_spec is not None and not all(isinstance(x, ast.Constant) for x in v.format_spec.values):
                                fail(st, "nested format specification")
                            self.visit_expr(v.value, guarded)
                        elif not (isinstance(v, ast.Constant) and isinstance(v.value, str)):
                            fail(st, "unexpected f-string part")
                    continue
                self.visit_expr(a, guarded)
        else:
            fail(st, f"unsupported statement {type(st).__name__}")

    def visit_target(self, t, st, guarded):
        if isinstance(t, ast.Name):
            if t.id == "rng":
                ok = (guarded and isinstance(st, ast.Assign) and len(st.targets) == 1
                      and isinstance(st.value, ast.Call) and isinstance(st.value.func, ast.Attribute)
                      and is_np_random(st.value.func.value) and st.value.func.attr == "default_rng")
                if not ok:
                    fail(st, "`rng` rebound other than `rng = np.random.default_rng(...)` under `if rng is None`")
            if t.id == "np":
                fail(st, "np rebound")
        elif isinstance(t, (ast.Tuple, ast.List)):
            for e in t.elts:
                self.visit_target(e, st, guarded)
        elif isinstance(t, ast.Subscript):
            self.visit_expr(t.value, guarded)
            self.visit_expr(t.slice, guarded)
        else:
            fail(st, f"unsupported assignment target {type(t).__name__}")

    # -- expressions
    def visit_expr(self, e, guarded):
        if not isinstance(e, ALLOWED_NODES):
            fail(e, f"unsupported expression {type(e).__name__}")
        if isinstance(e, ast.Call):
            f = e.func
            for a in e.args:
                if isinstance(a, ast.Starred):
                    fail(e, "star argument")
            for kw in e.keywords:
                if kw.arg is None:
                    fail(e, "** argument")
            if isinstance(f, ast.Attribute) and is_np_random(f.value):
                self.calls.append(("GlobalNpRandom", f.attr, guarded, e.lineno))
            elif isinstance(f, ast.Attribute) and isinstance(f.value, ast.Name) and f.value.id == "rng":
                if not self.has_rng:
                    fail(e, "rng used in a function without rng parameter")
                self.calls.append(("RngParam", f.attr, guarded, e.lineno))
            elif isinstance(f, ast.Name):
                if f.id in self.top:
                    fail(e, f"call of top-level function {f.id} (not analysed inter-procedurally)")
                self.visit_expr(f, guarded)
            else:
                self.visit_expr(f, guarded)
            for a in e.args:
                self.visit_expr(a, guarded)
            for kw in e.keywords:
                self.visit_expr(kw.value, guarded)
        elif isinstance(e, ast.Attribute):
            if is_np_random(e):
                fail(e, "np.random used other than as the receiver of a direct call (aliasing)")
            if e.attr == "random" or e.attr.startswith("__"):
                fail(e, f"attribute .{e.attr}")
            self.visit_expr(e.value, guarded)
        elif isinstance(e, ast.Name):
            if e.id == "rng":
                fail(e, "`rng` used other than as a call receiver or in `rng is None`")
            if e.id == "np" or e.id in self.names or e.id in ALLOWED_BUILTINS:
                return
            fail(e, f"unknown name {e.id}")
        elif isinstance(e, ast.Constant):
            if isinstance(e.value, (str, bytes)):
                fail(e, "string constant")
        elif isinstance(e, (ast.ListComp, ast.DictComp)):
            for g in e.generators:
                if g.is_async:
                    fail(e, "async comprehension")
                self.visit_target(g.target, e, guarded)
                self.visit_expr(g.iter, guarded)
                for c in g.ifs:
                    self.visit_expr(c, guarded)
            if isinstance(e, ast.ListComp):
                self.visit_expr(e.elt, guarded)
            else:
                self.visit_expr(e.key, guarded)
                self.visit_expr(e.value, guarded)
        elif isinstance(e, ast.Compare):
            if is_rng_is_none(e):
                return
            self.visit_expr(e.left, guarded)
            for c in e.comparators:
                self.visit_expr(c, guarded)
        else:
            for c in ast.iter_child_nodes(e):
                if isinstance(c, (ast.expr_context, ast.operator, ast.unaryop, ast.boolop, ast.cmpop)):
                    if not isinstance(c, ALLOWED_NODES):
                        fail(e, f"unsupported operator {type(c).__name__}")
                    continue
                self.visit_expr(c, guarded)


def analyse(source):
    tree = ast.parse(source)
    fns = []
    top_names = {n.name for n in tree.body if isinstance(n, ast.FunctionDef)}
    for st in tree.body:
        if isinstance(st, ast.Import):
            if not (len(st.names) == 1 and st.names[0].name == "numpy" and st.names[0].asname == "np"):
                fail(st, "import other than `import numpy as np`")
        elif isinstance(st, ast.FunctionDef):
            a = FnAnalysis(st, top_names)
            fns.append((st.name, a.has_rng, a.calls))
        elif isinstance(st, ast.Expr) and isinstance(st.value, ast.Constant) and isinstance(st.value.value, str):
            pass  # module docstring
        else:
            fail(st, f"unsupported top-level statement {type(st).__name__}")
    return fns


def coq_bool(b):
    return "true" if b else "false"


def render(fns):
    lines = ["(* GENERATED by translate/rng_use.py from %s — do not edit. *)" % SRC_REL,
             "From Coq Require Import List String.", "From Koala Require Import Model.RngIR.",
             "Import ListNotations.", "Open Scope string_scope.", "",
             "Definition pointsets_functions : list fn_use := ["]
    items = []
    for name, has_rng, calls in fns:
        cs = ";\n      ".join(f'mkCall {recv} "{meth}" {coq_bool(g)} {ln}' for recv, meth, g, ln in calls)
        items.append(f'  mkFn "{name}" {coq_bool(has_rng)} [\n      {cs}]' if calls else f'  mkFn "{name}" {coq_bool(has_rng)} []')
    lines.append(";\n".join(items))
    lines.append("].")
    return "\n".join(lines) + "\n"


def regenerate_all(gen_dir):
    repo = os.environ.get("KOALA_REPO", "/repo")
    src = open(os.path.join(repo, SRC_REL)).read()
    text = render(analyse(src))
    path = os.path.join(gen_dir, "RngUse.v")
    try:
        same = open(path).read() == text
    except FileNotFoundError:
        same = False
    if not same:
        os.makedirs(gen_dir, exist_ok=True)
        with open(path, "w") as f:
            f.write(text)
    return [path]


if __name__ == "__main__":
    import sys
    print(render(analyse(open(os.path.join(os.environ.get("KOALA_REPO", "/repo"), SRC_REL)).read())))
