"""Python mirror of Model/Effects.v's analysis, used ONLY for diagnostics (which write of which
variable at which line makes no_arg_write false).  The verdict that counts is Coq's."""
import sys, os
sys.path.insert(0, os.path.dirname(os.path.abspath(__file__)))
import effects_ir as E

BOT = (False, False)


class Fail(Exception):
    pass


def aget(a, x):
    return a.get(x, BOT)


def aeval(a, d):
    o = any(aget(a, x)[0] for x in d.oo) or any(aget(a, x)[1] for x in d.orr)
    r = any(aget(a, x)[1] for x in d.oo | d.orr | d.rr)
    return (o, r)


def ajoin(a, b):
    return {k: (aget(a, k)[0] or aget(b, k)[0], aget(a, k)[1] or aget(b, k)[1]) for k in set(a) | set(b)}


def ale(a, b):
    return all((not v[0] or aget(b, k)[0]) and (not v[1] or aget(b, k)[1]) for k, v in a.items())


class Analysis:
    def __init__(self, w, bodies, info):
        self.bodies = bodies
        self.info = {fi["qual"]: fi for fi in info}
        self.escaping = sorted(w.escaping)

    def fun(self, q, avs, chain):
        fi = self.info[q]
        a = {E.NRET + i: v for i, v in enumerate(avs[:len(fi["params"])])}
        return self.ex(self.bodies[q], a, chain + [q])

    def ex(self, s, a, chain):
        k = s[0]
        if k == "skip":
            return a
        if k == "bind":
            b = dict(a); b[s[1]] = aeval(a, s[2]); return b
        if k == "write":
            if aget(a, s[1])[0]:
                fi = self.info[chain[-1]]
                raise Fail({"chain": [c.split(":")[1] for c in chain], "var": fi["varnames"][s[1]], "line": s[2],
                            "module": fi["module"]})
            return a
        if k == "call":
            ac = self.fun(s[2], [aget(a, x) for x in s[3]], chain)
            b = dict(a)
            for i, r in enumerate(s[1]):
                b[r] = aget(ac, i)
            return b
        if k == "calldyn":
            b = dict(a)
            for r in s[1]:
                b[r] = (True, True)
            return b
        if k == "seq":
            acc = None
            for x in s[1]:
                a = self.ex(x, a, chain)
                acc = a if acc is None else ajoin(acc, a)
            return acc
        if k == "if":
            return ajoin(self.ex(s[1], a, chain), self.ex(s[2], a, chain))
        if k == "loop":
            for _ in range(66):
                a2 = self.ex(s[1], a, chain)
                if ale(a2, a):
                    return a
                a = ajoin(a, a2)
            raise Fail({"chain": chain, "var": "loop fuel", "line": 0})
        raise ValueError(k)

    def check(self, q, mask=None):
        fi = self.info[q]
        mask = fi["mask"] if mask is None else mask
        try:
            # Model/Effects.v dyn_ok: every candidate callee of a run-time callable is verified with all formals tainted
            for g in self.escaping:
                self.fun(g, [(True, True)] * len(self.info[g]["params"]), ["<run-time callable>:candidate"])
            self.fun(q, [(b, b) for b in mask], [])
            return None
        except Fail as e:
            return e.args[0]


if __name__ == "__main__":
    w, bodies, idx, info = E.translate_all(sys.argv[1] if len(sys.argv) > 1 else None)
    A = Analysis(w, bodies, info)
    for fi in info:
        if fi["public"] or fi["escaping"]:
            r = A.check(fi["qual"], None if fi["public"] else [True] * len(fi["params"]))
            if r:
                print(fi["qual"], "->", r)
