#!/usr/bin/env python3
"""tools/inventory.py: markdown inventory of what the kernel checked per property, from evidence/*.json"""
import json, glob, os
V = os.path.dirname(os.path.dirname(os.path.abspath(__file__)))
print("| prop | theorems (Props/Cxx.v) | axioms | evaluations | non-trivial | K traces | wall s (quick) |")
print("|---|---|---|---|---|---|---|")
for f in sorted(glob.glob(os.path.join(V, "evidence", "C*.json"))):
    e = json.load(open(f)); c = e["coverage"]
    ax = sorted({a for v in c.get("print_assumptions", {}).values() for a in v})
    print(f"| {e['property_id']} | {c.get('discharged', c.get('discharged_now'))}/{c.get('obligations', c.get('obligations_attempted'))} | {', '.join(ax) or 'none'} | {c.get('evaluations')} | {c.get('distinct_nontrivial')} | {c.get('traces_validated_against_impl')} | {e['wall_s']} ({e['tier']}) |")
