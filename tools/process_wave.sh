#!/bin/sh
# tools/process_wave.sh <letters...> : for every /tmp/mut-Cxx/out/<letter> with meta.json not yet processed, confirm + run check; log to /var/tmp/wave.log
for d in /tmp/mut-C*/out; do
  p=$(echo $d | sed 's/.*mut-\(C[0-9]*\).*/\1/')
  for x in "$@"; do
    [ -f $d/$x/meta.json ] && [ -f $d/$x/patch.diff ] && [ -f $d/$x/demo.py ] || continue
    [ -f $d/$x/.processed ] && continue
    echo "== $p-$x" >> /var/tmp/wave.log
    /verif/tools/confirm_seed.sh $d/$x 2>&1 | tail -1 >> /var/tmp/wave.log
    /verif/tools/try_seed.sh $d/$x/patch.diff $p 2>&1 | grep -E "VIOLATION|KNOWN|quick:|exit=|BROKEN" | cut -c1-260 | head -4 >> /var/tmp/wave.log
    touch $d/$x/.processed
  done
done
