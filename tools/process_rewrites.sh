#!/bin/sh
# tools/process_rewrites.sh [P]: for every /tmp/rw-Cxx/out/<letter> not yet processed: suite + demo with the rewrite, then the
# property's quick check against a scratch worktree; one log per rewrite in /var/tmp/rw-logs; P properties in parallel (default 4)
one() {
  d=$1; p=$(echo $d | sed 's/.*rw-\(C[0-9]*\).*/\1/')
  for x in r s t u v w; do
    [ -f $d/$x/meta.json ] && [ -f $d/$x/patch.diff ] && [ -f $d/$x/demo.py ] || continue
    [ -f $d/$x/.processed ] && continue
    log=/var/tmp/rw-logs/$p-$x.log
    echo "== $p-$x" > $log
    /verif/tools/confirm_seed.sh $d/$x 2>&1 | tail -1 >> $log
    /verif/tools/try_seed.sh $d/$x/patch.diff $p 2>&1 | grep -E "VIOLATION|KNOWN|quick:|exit=|BROKEN" | cut -c1-400 | head -6 >> $log
    touch $d/$x/.processed
  done
}
if [ "${1:-}" = "--one" ]; then one "$2"; exit 0; fi
ls -d /tmp/rw-C*/out | xargs -P ${1:-4} -I{} sh "$0" --one {}
