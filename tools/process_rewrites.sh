#!/bin/sh
# tools/process_rewrites.sh : for every /tmp/rw-Cxx/out/<letter> not yet processed: suite + demo with the rewrite, then the property's quick check; log to /var/tmp/rewrites.log
for d in /tmp/rw-C*/out; do
  p=$(echo $d | sed 's/.*rw-\(C[0-9]*\).*/\1/')
  for x in r s t u v w; do
    [ -f $d/$x/meta.json ] && [ -f $d/$x/patch.diff ] && [ -f $d/$x/demo.py ] || continue
    [ -f $d/$x/.processed ] && continue
    echo "== $p-$x" >> /var/tmp/rewrites.log
    /verif/tools/confirm_seed.sh $d/$x 2>&1 | tail -1 >> /var/tmp/rewrites.log
    /verif/tools/try_seed.sh $d/$x/patch.diff $p 2>&1 | grep -E "VIOLATION|KNOWN|quick:|exit=|BROKEN" | cut -c1-300 | head -5 >> /var/tmp/rewrites.log
    touch $d/$x/.processed
  done
done
