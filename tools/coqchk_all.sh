#!/bin/sh
# tools/coqchk_all.sh : independent re-check (coqchk) of every Props/Cxx.vo and everything it depends on, printing the
# axioms the whole development relies on (-o).  Takes 1-2 hours; not part of any per-run check.  Run from /verif.
set -u
cd "$(dirname "$0")/.."
/venv/bin/python harness/build.py > coqchk_build.log 2>&1
cd coq
for f in Props/C*.v; do timeout 1800 coqc -Q . Koala "$f" > /dev/null 2>&1 || echo "COQC FAILED $f"; done
mods=$(ls Props/*.vo | sed 's/Props\//Koala.Props./; s/\.vo//' | tr '\n' ' ')
echo "modules: $mods"
# stdlib-only and MathComp-based properties separately and in parallel (memory: a few GB each)
mc=""; st=""
for m in $mods; do case $m in *C07|*C08|*C18) mc="$mc $m";; *) st="$st $m";; esac; done
( /usr/bin/time -f "stdlib part: %es %MKB" timeout 28000 coqchk -silent -Q . Koala -o $st > ../coqchk_stdlib.log 2>&1; echo "stdlib exit $?" >> ../coqchk_stdlib.log ) &
( /usr/bin/time -f "mathcomp part: %es %MKB" timeout 28000 coqchk -silent -Q . Koala -o $mc > ../coqchk_mathcomp.log 2>&1; echo "mathcomp exit $?" >> ../coqchk_mathcomp.log ) &
wait
tail -n 40 ../coqchk_stdlib.log; tail -n 40 ../coqchk_mathcomp.log
