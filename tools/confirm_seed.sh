#!/bin/sh
# tools/confirm_seed.sh <dir with patch.diff demo.py meta.json> : confirm in a scratch worktree that
#  (1) the existing suite passes with the change, (2) demo.py fails with it, (3) demo.py passes without it.
d=$(readlink -f "$1"); wt=/var/tmp/confwt-$$
git -C /repo worktree add -q --detach "$wt" HEAD || exit 2
trap 'git -C /repo worktree remove --force "$wt" >/dev/null 2>&1; rm -rf "$wt"' EXIT INT TERM
cd "$wt"
PYTHONPATH="$wt/src" PYTHONHASHSEED=0 MPLBACKEND=Agg timeout 600 /venv/bin/python "$d/demo.py" >/dev/null 2>&1; r0=$?
git apply "$d/patch.diff" || { echo "PATCH-DOES-NOT-APPLY"; exit 2; }
t=$(PYTHONPATH="$wt/src" timeout 1200 /venv/bin/python -m pytest -q -p no:cacheprovider --timeout=900 2>&1 | tail -1)
PYTHONPATH="$wt/src" PYTHONHASHSEED=0 MPLBACKEND=Agg timeout 600 /venv/bin/python "$d/demo.py" >/dev/null 2>&1; r1=$?
echo "demo_without_change_exit=$r0 demo_with_change_exit=$r1 tests_with_change: $t"
