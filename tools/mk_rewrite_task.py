#!/usr/bin/env python3
"""tools/mk_rewrite_task.py <Cxx> [n]: create scratch worktree /tmp/rw-<Cxx> and write TASK.md there (the property text
only; nothing from /verif) for an independent sub-agent that produces PROPERTY-PRESERVING rewrites of koala: the checks
must stay quiet on them (false-alarm measurement)."""
import json, os, subprocess, sys
pid = sys.argv[1]; n = int(sys.argv[2]) if len(sys.argv) > 2 else 3
wt = f"/tmp/rw-{pid}"
if not os.path.exists(wt):
    subprocess.check_call(["git", "-C", "/repo", "worktree", "add", "-q", "--detach", wt, "HEAD"])
d = [json.loads(l) for l in open("/verif/properties.jsonl")]
d = [x for x in d if x["id"] == pid][0]
anch = d["anchors"]
mech = "\n".join(f"  - {m['name']} ({m['where']})" for m in anch.get("mechanism", []))
letters = "rstuvw"[:n]
txt = f"""# Task: {n} realistic, PROPERTY-PRESERVING rewrites of koala code

You are measuring whether a verification effort raises FALSE alarms. The Python library koala (2D lattices, plaquettes,
colourings, Kitaev/Majorana Hamiltonians) is in your own scratch git worktree {wt} (work ONLY there; never touch /repo
or /verif; do not read anything under /verif). Run Python with `/venv/bin/python` and `PYTHONPATH={wt}/src`; run the
test suite with `cd {wt} && PYTHONPATH={wt}/src /venv/bin/python -m pytest -q -p no:cacheprovider` (38 tests pass on the
unchanged tree; tests.test_quasiperiodic::test_penrose_tiling is known flaky). No network. MPLBACKEND=Agg for plotting.
Do NOT use git stash.

## The property (holds for the unchanged code and MUST STILL HOLD after each of your rewrites)

**{d['title']}**

{d['statement']}

Quantified over: {d['quantifier']['text']}

Anchors — files: {', '.join(anch.get('files', []))}
Mechanisms:
{mech}
Observe at: {', '.join(anch.get('observe_at', []))}

## What to produce

{n} different, independent rewrites of the anchored code (each a separate patch against the unchanged tree) of the kind a
maintainer really makes, each of which changes the code substantially but keeps the property true for EVERY input in
the quantifier (not just the ones you try). Aim at the freedom the property's text leaves open, and at the places where
a naive checker that compares against a fixed reference implementation would complain:
 - a different but equivalent algorithm or loop structure (vectorised numpy instead of Python loops or vice versa,
   a dict instead of nested lists, recursion instead of iteration, early exits that do not change results);
 - a different ORDER or REPRESENTATIVE where the property does not fix one (order in which plaquettes / solutions /
   paths are discovered or listed if the statement speaks only of sets; which of several equally valid answers is
   returned — another shortest path, another spanning tree, another valid colouring, the start vertex of a cycle,
   a sign or orientation convention the statement leaves open; the dtype of INTERNAL temporaries);
 - a defensive change (extra copies, extra input validation for inputs outside the quantifier, better error messages);
 - renamed / inlined / extracted helper functions, moved code between modules, reordered independent statements;
 - different floating-point evaluation order with differences at the 1e-15 level only.
Do NOT change public signatures, return types/shapes/dtypes of public results, or anything the statement pins down.
If you are not sure the property survives a rewrite for all quantified inputs, do not submit it.

For each rewrite (call them {', '.join(letters)}) write into {wt}/out/<letter>/ :
 - patch.diff  (`git diff` in the worktree with only that rewrite applied)
 - demo.py     (a small standalone program that checks the property's clauses touched by the rewrite on a handful of
                varied inputs and exits 0 printing OK both on the unchanged tree and with the rewrite)
 - meta.json   ({{"property": "{pid}", "what": one-paragraph description, "why_preserving": the argument that the
                property still holds for every quantified input, "observable_difference": what a caller could
                observe to differ from the old code (order, representative, rounding, nothing), "ran": commands + outcomes}})
Procedure per rewrite: edit; run the test suite (must pass); run demo (must pass); `git diff > out/x/patch.diff`;
`git checkout -- src` to restore; run demo again (must pass). Leave the worktree clean (only the untracked out/ and
TASK.md) when done. Final message: <= 10 lines summarising the rewrites.
"""
open(os.path.join(wt, "TASK.md"), "w").write(txt)
print(wt + "/TASK.md written")
