#!/usr/bin/env python3
"""tools/mk_mut_task.py <Cxx> [n]: create scratch worktree /tmp/mut-<Cxx> (if missing) and write TASK.md there
(the property text only; nothing from /verif) for an independent mutation-seeding sub-agent."""
import json, os, subprocess, sys
pid = sys.argv[1]; n = int(sys.argv[2]) if len(sys.argv) > 2 else 2
WAVE = int(sys.argv[3]) if len(sys.argv) > 3 else 1
wt = f"/tmp/mut-{pid}"
if not os.path.exists(wt):
    subprocess.check_call(["git", "-C", "/repo", "worktree", "add", "-q", "--detach", wt, "HEAD"])
d = [json.loads(l) for l in open("/verif/properties.jsonl")]
d = [x for x in d if x["id"] == pid][0]
letters = {1: "abcdef", 2: "cdefgh", 3: "efghij", 4: "ghijkl", 5: "ijklmn", 6: "klmnop", 7: "mnopqr"}[WAVE][:n]
anch = d["anchors"]
mech = "\n".join(f"  - {m['name']} ({m['where']})" for m in anch.get("mechanism", []))
state = "\n".join(f"  - {m['name']}: {m.get('meaning','')} ({m['where']})" for m in anch.get("state", []))
txt = f"""# Task: seed {n} realistic regressions that break one property of koala

You are testing how well a verification effort detects subtle regressions in the Python library koala (2D lattices,
plaquettes, colourings, Kitaev/Majorana Hamiltonians). You have your own scratch git worktree of the repository at
{wt} (work ONLY there; never touch /repo or /verif; do not read anything under /verif). Run Python with
`/venv/bin/python` and `PYTHONPATH={wt}/src`; run the test suite with
`cd {wt} && PYTHONPATH={wt}/src /venv/bin/python -m pytest -q -p no:cacheprovider` (38 tests pass on the unchanged
tree; tests.test_quasiperiodic::test_penrose_tiling is known flaky). No network. MPLBACKEND=Agg for plotting.

## The property (holds for the unchanged code)

**{d['title']}**

{d['statement']}

Quantified over: {d['quantifier']['text']}

Why the tests cannot settle it: {d.get('why_tests_cant','')}

Anchors — files: {', '.join(anch.get('files', []))}
{('State:' + chr(10) + state) if state else ''}
Mechanisms:
{mech}
Observe at: {', '.join(anch.get('observe_at', []))}

## What to produce

{n} different, independent changes to koala's source (each a separate patch against the unchanged tree) that each BREAK
this property while the code still imports and the existing test suite still passes (all 38, or 37 + the flaky one).
Each change must be REALISTIC (the kind of slip a maintainer could make in a refactor, an "optimisation", a numpy-idiom
rewrite, an off-by-one, a wrong default) and must need something SPECIFIC to manifest: a particular input class (only
multigraph cells / parallel edges, only edges crossing the boundary in both directions, only rectangular nx != ny, only odd
sizes, only an index exactly at a dtype threshold, only an isolated or highest-index vertex, only a subset that is not a
prefix, ...), a multi-step sequence of operations, a particular order of first access, a particular completion order, or
two cooperating sites that each look fine alone — NOT something ordinary use would expose at once. Prefer subtle
arithmetic / indexing / ordering / aliasing faults over crashes. The changes should hit different mechanisms / clauses of
the property.

{"This is a SECOND round: an earlier round already produced the most natural slips (dropped copies / aliasing of int8 arrays, parallel-edge overwrites, nx/ny swaps, off-by-one thresholds, one-shot iterators, unseeded RNG draws). Look for DIFFERENT mechanisms and clauses of the property than those: less-travelled clauses of the statement, interactions between two functions, behaviour that depends on call order or on cached state, inputs at the edge of the quantified domain." if WAVE > 1 else ""}
{"THIRD round: two earlier rounds also used up: memoisation keyed on id()/sizes, np.sum-instead-of-np.any on crossing vectors (opposite signs cancel), ties / exact-boundary comparisons (< vs <=, heaviside), early-return rewrites, dropped transposes, in-place edits of cached arrays, float-rounded integer arithmetic for huge n. Find something else again: e.g. a fault that needs a SEQUENCE of three operations, a dependence on dtype or memory layout (F-ordered, non-contiguous, uint, float crossings), an index that is wrong only for the LAST/FIRST element or when two indices coincide, a default argument, sorting stability, an iteration order, negative indices, empty selections. Do NOT use git stash (shared between worktrees)." if WAVE > 2 else ""}
{"FOURTH round: also used up by now: dependence on the dtype / container / memory layout of an argument, float32 inputs, narrow-integer overflow. Look elsewhere once more: a non-default value of an OPTIONAL argument (return_edge_removal=True, all_solutions / n_solutions combinations, early_stopping, shortest_edges_only, use_point_averages, shift_vertices, real=False, directions / arrow options, return_points ...), the SMALLEST sizes of the quantified domain (2 seed points, n = 2, a single plaquette, one edge), the LAST plaquette / last edge / last vertex, a wrong EXCEPTION TYPE or a swallowed exception, a result that is right but returned in another ORDER or with another SHAPE (row vs column, (n,) vs (n,1)), two koala functions that must agree with each other (a helper and a table, a plot helper and the function it visualises), numerical cancellation at exactly representable coordinates." if WAVE > 3 else ""}
{"FIFTH round: also used up: non-default optional arguments, smallest sizes, last/first element, 0-d vs 1-d shapes, keyword-vs-positional calls, island components, ints-vs-floats returned by user callbacks. Ideas not yet tried: a fault that needs TWO independent features at once (open boundary AND parallel edges; odd size AND rectangular; a pinched face AND a dangling edge; shift_vertices AND a seed on the cell boundary), integer division / modulo of NEGATIVE numbers, boolean-mask vs integer-index confusion, np.unique / np.sort / argsort semantics (axis argument, stability, return_inverse shape), off-by-one at the UPPER end of the quantified ranges (the largest sizes / sample counts named in the quantifier), idempotence (calling the same operation twice on its own output), an attribute cached ON the lattice object by one function and read by another, behaviour that differs between a view and a copy returned to the caller (aliasing of RESULTS with internal state, so that mutating a returned array corrupts later calls)." if WAVE > 4 else ""}
{"SIXTH round: also used up: results aliasing internal state, caches keyed on the lattice, arguments rescaled in place, comparisons modulo the unit cell, out= into an argument, np.unique misuse. Try what is left: faults that appear only for inputs with a particular GEOMETRY rather than a particular topology (a vertex exactly on the cell boundary x=0 or y=0, positions at exactly 0.5, an edge exactly horizontal or vertical, edge vectors of exactly equal length or exactly opposite angles, collinear consecutive edges (a straight angle inside a plaquette), a very thin or very small plaquette, coordinates close to 1.0), faults in the handling of the CROSSING vector sign for edges listed as (high index, low index) rather than (low, high), faults that need an edge whose two ends are the same vertex image across the boundary in a 1-wide cell (self-neighbour through periodicity) or size-1 / size-2 systems where a vertex meets its own image, wrong results only when the input arrays are NOT sorted the way the generators emit them (edges in random order, plaquette edges listed from a different start), accumulated floating-point error replacing an exact integer/boolean decision (np.isclose with a loose tolerance, rounding via astype(int) of a negative float, np.round half-to-even), sign(0) / arctan2(0, -1) / -0.0 corner cases, and numerical identities that hold only for |value| = 1 couplings or symmetric J (Jx=Jy=Jz) so that random J exposes them." if WAVE > 5 else ""}
{"SEVENTH round (one change only, make it count): six rounds have used up the mechanisms listed above and, in the sixth, tiny/thin plaquettes, thresholds a hair away from a vertex coordinate, cells one site wide, shallow crossing angles, orderings with wrap-around indices, results that are square arrays, **kwargs callbacks, code paths that depend on whether a lazily computed attribute is already populated. Pick the change you believe is MOST LIKELY TO ESCAPE a thorough randomized + exhaustive-small-case checker that knows the property text: think about rare combinations (three features at once), about inputs at the far end of the quantified ranges, about faults that self-cancel in every symmetric or regular input and show only in irregular ones (or the reverse: only in highly symmetric inputs with exact ties), about clauses of the statement that sound like consequences of other clauses but are not, and about behaviour after an exception was raised and caught by the caller. It must still be a realistic maintainer slip and must break the statement for some input INSIDE the quantifier." if WAVE > 6 else ""}

For each change (call them {', '.join(letters)}) write into {wt}/out/<letter>/ :
 - patch.diff  (`git diff` in the worktree with only that change applied)
 - demo.py     (small standalone program: exits 0 and prints OK on the UNCHANGED tree, exits non-zero printing what is
                wrong WITH the change; it states the clause it checks; deterministic; run with PYTHONPATH at the worktree)
 - meta.json   ({{"property": "{pid}", "what": one-paragraph description, "needs": what specific input/condition/sequence
                is required for it to manifest, "ran": the exact commands you ran and their outcomes}})
Procedure per change: edit; run the test suite (must pass); run demo (must fail); `git diff > out/x/patch.diff`;
`git checkout -- src` to restore; run demo again (must pass). Leave the worktree clean (only the untracked out/ and
TASK.md) when done. Final message: <= 12 lines summarising the changes and, briefly, candidates you rejected and why.
"""
open(os.path.join(wt, "TASK.md"), "w").write(txt)
print(wt + "/TASK.md written")
