#!/bin/sh
# tools/reseed_all.sh [P]: run every stored seeded change (seeded/<id>/patch.diff) against its property's quick check as it is now
# (scratch worktrees, evidence diverted); one line per seed in seeded/REGRESSION.txt: id, exit code, number of VIOLATION lines, no-failing flag
one() {
  sid=$1; p=${sid%%-*}
  out=/var/tmp/reseed/$sid.log
  /verif/tools/try_seed.sh /verif/seeded/$sid/patch.diff $p > $out 2>&1
  rc=$?
  v=$(grep -c '^VIOLATION' $out); nf=$(grep -c 'no-failing-input-found' $out)
  echo "$sid exit=$rc violations_lines=$v no_failing_input=$nf"
}
if [ "${1:-}" = "--one" ]; then one "$2"; exit 0; fi
# seeds of ONE property run one after the other (concurrent runs for different repositories would share coq/Gen); properties in parallel
if [ "${1:-}" = "--prop" ]; then for s in $(ls /verif/seeded | grep "^$2-"); do one $s; done; exit 0; fi
ls /verif/seeded | grep '^C' | cut -d- -f1 | sort -u | xargs -P ${1:-5} -I{} sh "$0" --prop {} | sort > /var/tmp/reseed/REGRESSION.txt
cp /var/tmp/reseed/REGRESSION.txt /verif/seeded/REGRESSION.txt
