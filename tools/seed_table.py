#!/usr/bin/env python3
"""tools/seed_table.py: markdown table of the seeded changes kept under /verif/seeded (from their meta.json)"""
import json, glob, os, re
rows = []
for d in sorted(glob.glob("/verif/seeded/C*-*")):
    m = json.load(open(os.path.join(d, "meta.json")))
    sid = os.path.basename(d)
    what = re.sub(r"\s+", " ", str(m.get("what", "")))[:170]
    r = str(m.get("check_result", ""))
    rl = r.lower()
    first = ("NOT caught (see meta.json: too rare for the generators, or inside the 1e-9 genericity margin)" if rl.startswith("not caught") else
             "missed at first, caught now" if ("missed" in rl or "first run" in rl) else
             "alarm without a failing input (no-failing-input-found)" if ("no-failing-input-found" in rl and "caught with a concrete" not in rl and "caught after" not in rl) else
             "alarm only at first, concrete input now" if "alarm only at first" in rl or "crashed at first" in rl else "caught")
    rows.append((sid, what, first))
print("| seed | change (abridged) | quick check |")
print("|---|---|---|")
for sid, what, first in rows:
    print(f"| {sid} | {what} | {first} |")
import collections
c = collections.Counter(r[2] for r in rows)
print(f"\n{len(rows)} seeded changes: " + "; ".join(f"{v} {k}" for k, v in sorted(c.items())))
