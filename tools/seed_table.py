#!/usr/bin/env python3
"""tools/seed_table.py: markdown table of the seeded changes kept under /verif/seeded (from their meta.json)"""
import json, glob, os, re
rows = []
for d in sorted(glob.glob("/verif/seeded/*")):
    m = json.load(open(os.path.join(d, "meta.json")))
    sid = os.path.basename(d)
    what = re.sub(r"\s+", " ", str(m.get("what", "")))[:170]
    r = str(m.get("check_result", ""))
    first = "missed at first, caught now" if ("missed" in r.lower() or "first run" in r.lower()) else "caught"
    rows.append((sid, what, first))
print("| seed | change (abridged) | quick check |")
print("|---|---|---|")
for sid, what, first in rows:
    print(f"| {sid} | {what} | {first} |")
print(f"\n{len(rows)} seeded changes; {sum(1 for r in rows if r[2] != 'caught')} were missed by the first version of the check that met them and are caught now.")
