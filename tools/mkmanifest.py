#!/usr/bin/env python3
"""Regenerates /verif/MANIFEST.json from tools/claims.json (one entry per claimed property)."""
import json, os
V = os.path.dirname(os.path.dirname(os.path.abspath(__file__)))
claims = json.load(open(os.path.join(V, "tools", "claims.json")))
props = [json.loads(l)["id"] for l in open(os.path.join(V, "properties.jsonl"))]
checks, na = [], []
for pid in props:
    c = claims.get(pid)
    if not c or not c.get("claimed", True):
        na.append({"property_id": pid, "reason": (c or {}).get("reason", "check not finished in this round; not claimed (no verdict is produced for it)")})
        continue
    checks.append({
        "property_id": pid,
        "quick_cmd": f"./check {pid} --tier quick",
        "thorough_cmd": f"./check {pid} --tier thorough",
        "evidence_file": f"/verif/evidence/{pid}.json",
        "replay_cmd_template": f"./check {pid} --replay {{path}}",
        "engine": "coq-model+correspondence",
        "level_claimed": {"category": c.get("category", "proof"), "text": c["text"], "design_ref": c.get("design_ref", f"DESIGN.md section 4 {pid} and section 9")},
        "level_note": c["note"],
        "technique": c.get("technique", "machine-checked proof in Coq 8.16.1 of a Gallina model + checked correspondence (extracted OCaml model vs implementation) and proved spec checks on implementation outputs"),
    })
m = {
    "version": 1,
    "setup_cmd": "/venv/bin/python harness/build.py",
    "hooks": {"guard": "KOALA_VERIF", "enable": "no source hooks: all observations go through public return values (KOALA_VERIF=1 is exported by ./check but no code in /repo reads it)",
              "baseline_off_cmd": "cd /repo && /venv/bin/python -m pytest -ra -q -p no:cacheprovider --timeout=900 --continue-on-collection-errors",
              "source_commits": [], "add_only": True},
    "engines": [{"name": "coq-model+correspondence", "path": "/verif/check", "serves_properties": [c["property_id"] for c in checks],
                 "kind_free_text": "Coq 8.16.1 theorems (coq/Props/Cxx.v over coq/Model, coq/Proofs) re-checked on every run; extracted OCaml model (ExtrOcamlBasic) vs /repo implementation on generated inputs; fail-closed Python-ast translators regenerate coq/Gen from /repo"}],
    "checks": checks,
    "notes": "See DESIGN.md. known_findings.txt lists fixed defects and recorded findings; seeded/ holds confirmed mutations used to test the checks.",
    "not_applicable": na,
}
json.dump(m, open(os.path.join(V, "MANIFEST.json"), "w"), indent=1)
print("claimed:", [c["property_id"] for c in checks], "not claimed:", [n["property_id"] for n in na])
