#!/usr/bin/env python3
"""tools/keep_seed.py <src dir> <seed id> <property> <confirm line> <check result line>: store a confirmed seeded change under /verif/seeded/<seed id>/"""
import json, os, shutil, sys
src, sid, prop, confirm, result = sys.argv[1:6]
dst = os.path.join("/verif/seeded", sid)
os.makedirs(dst, exist_ok=True)
for f in ("patch.diff", "demo.py"):
    shutil.copy(os.path.join(src, f), os.path.join(dst, f))
meta = json.load(open(os.path.join(src, "meta.json")))
meta["property"] = prop
meta["confirmed_by_lead"] = {"how": "tools/confirm_seed.sh (scratch worktree of /repo HEAD: demo on unchanged tree, apply patch, full pytest suite, demo with change)", "result": confirm}
meta["check_result"] = result
json.dump(meta, open(os.path.join(dst, "meta.json"), "w"), indent=1)
print("kept", dst)
