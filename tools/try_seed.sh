#!/bin/sh
# tools/try_seed.sh [-R] <patch.diff> <Cxx> [tier]   (-R: apply the patch in reverse, e.g. to re-introduce a fixed defect from fixes/*.patch)  — run a check against a scratch worktree of /repo with the patch applied.
# Evidence and replays of this run are diverted to /var/tmp so that /verif/evidence keeps describing the unchanged tree.
set -u
rev=""; if [ "$1" = "-R" ]; then rev="-R"; shift; fi
patch=$(readlink -f "$1"); prop=$2; tier=${3:-quick}
wt=/var/tmp/seedwt-$$
git -C /repo worktree add -q --detach "$wt" HEAD || exit 2
trap 'git -C /repo worktree remove --force "$wt" >/dev/null 2>&1; rm -rf "$wt"' EXIT INT TERM
git -C "$wt" apply $rev "$patch" || { echo "patch does not apply"; exit 2; }
cd /verif
KOALA_REPO="$wt" VERIF_EVIDENCE_DIR=/var/tmp/seed-evidence VERIF_REPLAY_DIR=/var/tmp/seed-replays ./check "$prop" --tier "$tier"
rc=$?
echo "exit=$rc"
exit $rc
