"""One probe per defect D1..D11 (DESIGN section 5): prints PASS/FAIL per defect for the tree in $KOALA_REPO (default /repo)."""
import os, sys, pickle, warnings
sys.path.insert(0, os.path.join(os.environ.get("KOALA_REPO", "/repo"), "src"))
warnings.filterwarnings("ignore")
import numpy as np
from koala import example_graphs as eg, graph_color, pointsets, voronization
from koala.lattice import Lattice
from koala.flux_finder import fluxes_from_bonds, periodic_straight_line_length
from koala.hamiltonian import majorana_hamiltonian
from koala.phase_space import k_hamiltonian_generator

def probe(name, f):
    try:
        ok = f()
    except Exception as e:
        ok = False; print(f"  ({type(e).__name__}: {e})")
    print(name, "PASS" if ok else "FAIL")

def d1():
    l = eg.honeycomb_lattice(2); fluxes_from_bonds(l, np.ones(l.n_edges, dtype=int)); return True
def d2():
    l = eg.honeycomb_lattice(1); u = np.ones(l.n_edges); H = majorana_hamiltonian(l, None, u)
    A = np.zeros((l.n_vertices,)*2)
    for (j,k) in l.edges.indices: A[k,j] += 2; A[j,k] -= 2
    return np.allclose(H, A*1j/4) and np.allclose(H, H.conj().T)
def d3():
    l = eg.honeycomb_lattice(1); u = np.ones(l.n_edges); H = k_hamiltonian_generator(l, None, u, np.array([1.,1.,1.]))(np.array([0.,0.]))
    return np.allclose(H, majorana_hamiltonian(l, None, u)) and np.allclose(H, H.conj().T)
def d4():
    k4 = np.array([[0,1],[0,2],[0,3],[1,2],[1,3],[2,3]]); ok, sol = graph_color.vertex_color(k4, 4); return bool(ok) and len(set(sol)) == 4
def d5():
    a, b = np.array([.1,.2]), np.array([.3,.5]); d = periodic_straight_line_length(a,b)
    return abs(d - np.hypot(.2,.3)) < 1e-12 and abs(periodic_straight_line_length(b,a) - d) < 1e-12
def d6():
    l = Lattice(np.array([[.1,.1],[.9,.1],[.5,.9],[.5,.5]]), np.array([[0,1],[1,2],[2,0]]), np.zeros((3,2),dtype=int))
    return len(l.vertices.coordination_numbers) == 4 and len(l.plaquettes) == 1
def d6b():
    l = Lattice(np.array([[.1,.1],[.9,.1]]), np.zeros((0,2),dtype=int), np.zeros((0,2),dtype=int)); return len(l.plaquettes) == 0
def d7():
    return (eg.honeycomb_lattice(2) == eg.honeycomb_lattice(4)) is False
def d8():
    l = eg.honeycomb_lattice(8); r = pickle.loads(pickle.dumps(l)); ok, sol = graph_color.vertex_color(r.edges.indices, 3); return bool(ok)
def d10():
    p = pointsets.bluenoise(30, 6, 3, rng=np.random.default_rng(0)); q = pointsets.bluenoise(30, 3, 6, rng=np.random.default_rng(0))
    return p.max() <= 1 and q[:,1].max() > 0.85
def d11():
    np.random.seed(1); a = pointsets.hyperuniform(5,5,rng=np.random.default_rng(1)); np.random.seed(2); b = pointsets.hyperuniform(5,5,rng=np.random.default_rng(1))
    return a.shape == b.shape and np.array_equal(a,b)
for n,f in [("D1",d1),("D2",d2),("D3",d3),("D4",d4),("D5",d5),("D6",d6),("D6b",d6b),("D7",d7),("D8",d8),("D10",d10),("D11",d11)]:
    probe(n,f)
